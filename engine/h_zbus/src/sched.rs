//! Harness-owned transport and schedule: an in-memory `Socket` whose two directions are queues the
//! harness fills / drains, and a single-threaded scheduler that polls harness futures and the
//! connection executors in an order drawn from the generator. No thread, no wall clock.

use std::collections::VecDeque;
use std::future::Future;
use std::io;
use std::os::fd::{AsRawFd, BorrowedFd, OwnedFd};
use std::pin::Pin;
use std::sync::atomic::{AtomicBool, AtomicU64, Ordering};
use std::sync::{Arc, Mutex};
use std::task::{Context, Poll, Wake, Waker};
use vcore::refmodel::msg;
use zbus::connection::socket::{ReadHalf, Socket, Split, WriteHalf};

#[derive(Debug)]
pub enum RItem {
    Chunk(Vec<u8>, Vec<OwnedFd>),
    Eof,
    Err(io::ErrorKind),
}

#[derive(Debug, Clone, Copy, PartialEq, Eq)]
pub enum WPlan {
    /// accept at most this many bytes of the next sendmsg
    Accept(usize),
    /// return Pending once (and wake immediately)
    Yield,
    /// take the bytes (the peer sees them at once) but tell the writer only at its next poll: the
    /// writing task was descheduled between the kernel accepting the bytes and the call returning
    LateAck,
    Err(io::ErrorKind),
}

#[derive(Debug, Default)]
pub struct SockState {
    // inbound (harness -> zbus)
    pub inbound: VecDeque<RItem>,
    pub read_waker: Option<Waker>,
    pub recv_calls: u64,
    pub recv_buf_sizes: Vec<usize>,
    pub read_dropped: bool,
    /// after the queue is drained: true => EOF, false => Pending
    pub eof_when_empty: bool,
    // outbound (zbus -> harness)
    pub sent: Vec<(Vec<u8>, Vec<(u64, u64)>)>,
    pub write_plan: VecDeque<WPlan>,
    pub write_dropped: bool,
    pub closed: bool,
    pub send_calls: u64,
    pub fail_all_writes: Option<io::ErrorKind>,
    /// bytes already taken by a `LateAck` write that has not reported back yet
    pub late_ack: Option<usize>,
    /// how many times the end of the stream has been reported to the reader
    pub eof_reads: u64,
    // scripted properties
    pub can_pass_fd: bool,
    pub uid: Option<u32>,
    pub mechanism_anonymous: bool,
    pub io_events: u64,
}

pub type Shared = Arc<Mutex<SockState>>;

#[derive(Debug)]
pub struct SRead(pub Shared);
#[derive(Debug)]
pub struct SWrite(pub Shared);
#[derive(Debug)]
pub struct SSocket(pub Shared);

impl SSocket {
    pub fn new() -> (SSocket, Shared) {
        let s: Shared = Arc::new(Mutex::new(SockState { can_pass_fd: true, ..Default::default() }));
        (SSocket(s.clone()), s)
    }
}

impl Socket for SSocket {
    type ReadHalf = SRead;
    type WriteHalf = SWrite;
    fn split(self) -> Split<SRead, SWrite> {
        Split::new(SRead(self.0.clone()), SWrite(self.0))
    }
}

impl Drop for SRead {
    fn drop(&mut self) {
        let mut s = self.0.lock().unwrap();
        s.read_dropped = true;
        s.io_events += 1;
    }
}
impl Drop for SWrite {
    fn drop(&mut self) {
        let mut s = self.0.lock().unwrap();
        s.write_dropped = true;
        s.io_events += 1;
    }
}

pub fn feed(sh: &Shared, bytes: Vec<u8>, fds: Vec<OwnedFd>) {
    let mut s = sh.lock().unwrap();
    s.inbound.push_back(RItem::Chunk(bytes, fds));
    s.io_events += 1;
    if let Some(w) = s.read_waker.take() {
        w.wake();
    }
}
pub fn feed_item(sh: &Shared, it: RItem) {
    let mut s = sh.lock().unwrap();
    s.inbound.push_back(it);
    s.io_events += 1;
    if let Some(w) = s.read_waker.take() {
        w.wake();
    }
}
pub fn set_eof(sh: &Shared) {
    let mut s = sh.lock().unwrap();
    s.eof_when_empty = true;
    s.io_events += 1;
    if let Some(w) = s.read_waker.take() {
        w.wake();
    }
}

#[async_trait::async_trait]
impl ReadHalf for SRead {
    async fn recvmsg(&mut self, buf: &mut [u8]) -> io::Result<(usize, Vec<OwnedFd>)> {
        let sh = self.0.clone();
        std::future::poll_fn(move |cx| {
            let mut s = sh.lock().unwrap();
            s.recv_calls += 1;
            if s.recv_buf_sizes.len() < 100_000 {
                s.recv_buf_sizes.push(buf.len());
            }
            if s.eof_reads > 10_000 {
                // a reader that loops on end-of-file inside one poll never gives control back: the
                // only place to stop it is here (the panic surfaces as the case's failure)
                drop(s);
                panic!("the reader asked for more 10000 times after the transport had reported the end of the stream");
            }
            match s.inbound.pop_front() {
                None => {
                    if s.eof_when_empty {
                        s.io_events += 1;
                        s.eof_reads += 1;
                        return Poll::Ready(Ok((0, vec![])));
                    }
                    s.read_waker = Some(cx.waker().clone());
                    Poll::Pending
                }
                Some(RItem::Eof) => {
                    s.io_events += 1;
                    s.eof_reads += 1;
                    s.inbound.push_front(RItem::Eof);
                    Poll::Ready(Ok((0, vec![])))
                }
                Some(RItem::Err(k)) => {
                    s.io_events += 1;
                    s.inbound.push_front(RItem::Err(k));
                    Poll::Ready(Err(io::Error::new(k, "injected read error")))
                }
                Some(RItem::Chunk(mut bytes, fds)) => {
                    s.io_events += 1;
                    if buf.is_empty() {
                        s.inbound.push_front(RItem::Chunk(bytes, fds));
                        return Poll::Ready(Ok((0, vec![])));
                    }
                    let n = bytes.len().min(buf.len());
                    buf[..n].copy_from_slice(&bytes[..n]);
                    if n < bytes.len() {
                        let rest = bytes.split_off(n);
                        s.inbound.push_front(RItem::Chunk(rest, vec![]));
                    }
                    if n == 0 {
                        // an empty chunk only carries fds: deliver them with the next bytes
                        if !fds.is_empty() {
                            if let Some(RItem::Chunk(_, f2)) = s.inbound.front_mut() {
                                let mut all = fds;
                                all.append(f2);
                                *f2 = all;
                            }
                        }
                        cx.waker().wake_by_ref();
                        return Poll::Pending;
                    }
                    Poll::Ready(Ok((n, fds)))
                }
            }
        })
        .await
    }

    fn can_pass_unix_fd(&self) -> bool {
        self.0.lock().unwrap().can_pass_fd
    }

    async fn peer_credentials(&mut self) -> io::Result<zbus::fdo::ConnectionCredentials> {
        let uid = self.0.lock().unwrap().uid;
        let mut c = zbus::fdo::ConnectionCredentials::default();
        if let Some(u) = uid {
            c = c.set_unix_user_id(u);
        }
        Ok(c)
    }

    fn auth_mechanism(&self) -> zbus::AuthMechanism {
        if self.0.lock().unwrap().mechanism_anonymous {
            zbus::AuthMechanism::Anonymous
        } else {
            zbus::AuthMechanism::External
        }
    }
}

pub fn ino_of_fd(fd: i32) -> (u64, u64) {
    let mut st: libc::stat = unsafe { std::mem::zeroed() };
    if unsafe { libc::fstat(fd, &mut st) } == 0 {
        (st.st_dev as u64, st.st_ino as u64)
    } else {
        (0, 0)
    }
}

#[async_trait::async_trait]
impl WriteHalf for SWrite {
    async fn sendmsg(&mut self, buffer: &[u8], fds: &[BorrowedFd<'_>]) -> io::Result<usize> {
        let sh = self.0.clone();
        let inos: Vec<(u64, u64)> = fds.iter().map(|f| ino_of_fd(f.as_raw_fd())).collect();
        std::future::poll_fn(move |cx| {
            let mut s = sh.lock().unwrap();
            s.send_calls += 1;
            s.io_events += 1;
            if let Some(k) = s.fail_all_writes {
                return Poll::Ready(Err(io::Error::new(k, "injected write error")));
            }
            if let Some(n) = s.late_ack.take() {
                return Poll::Ready(Ok(n.min(buffer.len())));
            }
            match s.write_plan.pop_front() {
                Some(WPlan::LateAck) => {
                    s.sent.push((buffer.to_vec(), inos.clone()));
                    s.late_ack = Some(buffer.len());
                    cx.waker().wake_by_ref();
                    Poll::Pending
                }
                Some(WPlan::Yield) => {
                    cx.waker().wake_by_ref();
                    Poll::Pending
                }
                Some(WPlan::Err(k)) => Poll::Ready(Err(io::Error::new(k, "injected write error"))),
                Some(WPlan::Accept(n)) => {
                    let n = n.max(1).min(buffer.len());
                    s.sent.push((buffer[..n].to_vec(), inos.clone()));
                    Poll::Ready(Ok(n))
                }
                None => {
                    s.sent.push((buffer.to_vec(), inos.clone()));
                    Poll::Ready(Ok(buffer.len()))
                }
            }
        })
        .await
    }

    async fn close(&mut self) -> io::Result<()> {
        let mut s = self.0.lock().unwrap();
        s.closed = true;
        s.io_events += 1;
        Ok(())
    }

    fn can_pass_unix_fd(&self) -> bool {
        self.0.lock().unwrap().can_pass_fd
    }

    async fn peer_credentials(&mut self) -> io::Result<zbus::fdo::ConnectionCredentials> {
        let uid = self.0.lock().unwrap().uid;
        let mut c = zbus::fdo::ConnectionCredentials::default();
        if let Some(u) = uid {
            c = c.set_unix_user_id(u);
        }
        Ok(c)
    }
}

/// all bytes zbus wrote so far, concatenated
pub fn sent_bytes(sh: &Shared) -> Vec<u8> {
    let s = sh.lock().unwrap();
    s.sent.iter().flat_map(|(b, _)| b.iter().copied()).collect()
}

/// split a byte stream into complete messages (by the lengths their headers announce);
/// returns (messages, leftover)
pub fn frame(stream: &[u8]) -> (Vec<Vec<u8>>, Vec<u8>) {
    let mut out = vec![];
    let mut pos = 0;
    while stream.len() - pos >= 16 {
        match msg::announced_len(&stream[pos..pos + 16]) {
            Some(n) if n >= 16 && stream.len() - pos >= n => {
                out.push(stream[pos..pos + n].to_vec());
                pos += n;
            }
            _ => break,
        }
    }
    (out, stream[pos..].to_vec())
}

// ------------------------------------------------------------------------------------------------
// scheduler

pub static PROGRESS: AtomicU64 = AtomicU64::new(0);

struct Flag(AtomicBool);
impl Wake for Flag {
    fn wake(self: Arc<Self>) {
        self.0.store(true, Ordering::SeqCst);
    }
    fn wake_by_ref(self: &Arc<Self>) {
        self.0.store(true, Ordering::SeqCst);
    }
}

pub struct Actor {
    pub name: String,
    fut: Option<Pin<Box<dyn Future<Output = ()>>>>,
    flag: Arc<Flag>,
    /// the scenario does not wait for daemons (executor tickers)
    pub daemon: bool,
    pub polls: u64,
}

pub struct Sched {
    pub actors: Vec<Actor>,
    pub steps: u64,
    pub trace: Vec<u16>,
    /// extra environment turns granted when nothing is runnable
    pub idle_grace: usize,
}

/// yield once to the scheduler
pub fn yield_now() -> impl Future<Output = ()> {
    let mut done = false;
    std::future::poll_fn(move |cx| {
        if done {
            Poll::Ready(())
        } else {
            done = true;
            cx.waker().wake_by_ref();
            Poll::Pending
        }
    })
}

impl Sched {
    pub fn new() -> Sched {
        Sched { actors: vec![], steps: 0, trace: vec![], idle_grace: 0 }
    }

    pub fn spawn(&mut self, name: &str, fut: impl Future<Output = ()> + 'static) -> usize {
        self.actors.push(Actor { name: name.to_string(), fut: Some(Box::pin(fut)), flag: Arc::new(Flag(AtomicBool::new(true))), daemon: false, polls: 0 });
        self.actors.len() - 1
    }

    /// one actor that runs the tasks of a connection executor, one task per scheduler step
    pub fn spawn_ticker(&mut self, name: &str, exec: zbus::Executor<'static>) -> usize {
        let fut = async move {
            loop {
                exec.tick().await;
                PROGRESS.fetch_add(1, Ordering::SeqCst);
                yield_now().await;
            }
        };
        let i = self.spawn(name, fut);
        self.actors[i].daemon = true;
        i
    }

    pub fn done(&self, i: usize) -> bool {
        self.actors[i].fut.is_none()
    }

    pub fn all_done(&self) -> bool {
        self.actors.iter().all(|a| a.daemon || a.fut.is_none())
    }

    /// drop an actor's future (e.g. a ticker, so that the executor can be released)
    pub fn kill(&mut self, i: usize) {
        self.actors[i].fut = None;
    }

    fn poll_actor(&mut self, i: usize) -> bool {
        let a = &mut self.actors[i];
        let Some(f) = a.fut.as_mut() else { return false };
        a.flag.0.store(false, Ordering::SeqCst);
        a.polls += 1;
        let waker = Waker::from(a.flag.clone());
        let mut cx = Context::from_waker(&waker);
        match f.as_mut().poll(&mut cx) {
            Poll::Ready(()) => {
                a.fut = None;
                true
            }
            Poll::Pending => false,
        }
    }

    fn runnable(&self) -> Vec<usize> {
        self.actors.iter().enumerate().filter(|(_, a)| a.fut.is_some() && a.flag.0.load(Ordering::SeqCst)).map(|(i, _)| i).collect()
    }

    /// Run one step: the actor is picked among the runnable ones by `choice`. Returns false when
    /// nothing is runnable (quiescent).
    pub fn step(&mut self, choice: u8) -> bool {
        let r = self.runnable();
        if r.is_empty() {
            return false;
        }
        let i = r[(choice as usize * r.len()) >> 8];
        self.steps += 1;
        if self.trace.len() < 4096 {
            self.trace.push(i as u16);
        }
        self.poll_actor(i);
        true
    }

    /// Run until `goal()` holds, quiescence (nothing runnable — verified by polling every live
    /// actor once more) or the step budget is exhausted.
    pub fn run(&mut self, schedule: &mut dyn FnMut() -> u8, budget: u64, goal: &mut dyn FnMut(&Sched) -> bool) -> Outcome {
        let mut n = 0;
        loop {
            if goal(self) {
                return Outcome::Goal;
            }
            if n >= budget {
                return Outcome::Budget;
            }
            n += 1;
            if !self.step(schedule()) {
                // confirm quiescence: poll everything once; any Ready / wake / progress resumes
                let before = PROGRESS.load(Ordering::SeqCst);
                let mut progressed = false;
                for i in 0..self.actors.len() {
                    if self.actors[i].fut.is_some() && self.poll_actor(i) {
                        progressed = true;
                    }
                }
                if PROGRESS.load(Ordering::SeqCst) != before || progressed || !self.runnable().is_empty() {
                    continue;
                }
                // the goal closure doubles as the environment's turn (fake peers answer there): it
                // may have made something runnable again
                // (environments with delayed reactions get `idle_grace` further turns)
                let mut woke = false;
                for _ in 0..=self.idle_grace {
                    if goal(self) {
                        return Outcome::Goal;
                    }
                    if !self.runnable().is_empty() {
                        woke = true;
                        break;
                    }
                }
                if woke {
                    continue;
                }
                return Outcome::Quiescent;
            }
        }
    }
}

#[derive(Debug, Clone, Copy, PartialEq, Eq)]
pub enum Outcome {
    Goal,
    Quiescent,
    Budget,
}

/// Drive a single future to completion with no other actor (used for plain async calls that never
/// wait on anything but the scripted socket).
pub fn block_on_simple<T: 'static>(fut: impl Future<Output = T> + 'static, budget: u64) -> Option<T> {
    let out: Arc<Mutex<Option<T>>> = Arc::new(Mutex::new(None));
    let o2 = out.clone();
    let mut s = Sched::new();
    s.spawn("main", async move {
        let v = fut.await;
        *o2.lock().unwrap() = Some(v);
    });
    let mut sched = || 0u8;
    let _ = s.run(&mut sched, budget, &mut |s| s.done(0));
    let v = out.lock().unwrap().take();
    v
}
