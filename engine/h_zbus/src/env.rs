//! Connections over the scripted socket and the fake peer / fake bus on the other end.

use crate::sched::*;
use std::os::fd::OwnedFd;
use vcore::refmodel::msg::{self, RMsg};
use vcore::refmodel::val::RVal;
use zbus::connection::Builder;
use zbus::Connection;

pub const GUID: &str = "0123456789abcdef0123456789abcdef";
pub const BUS: &str = "org.freedesktop.DBus";
pub const ME: &str = ":1.100";

pub fn new_p2p(max_queued: Option<usize>) -> Option<(Connection, Shared)> {
    let (sock, sh) = SSocket::new();
    let fut = async move {
        let mut b = Builder::authenticated_socket(sock, GUID).expect("guid").p2p().internal_executor(false);
        if let Some(m) = max_queued {
            b = b.max_queued(m);
        }
        b.build().await
    };
    match block_on_simple(fut, 100_000) {
        Some(Ok(c)) => Some((c, sh)),
        _ => None,
    }
}

pub struct Peer {
    pub sh: Shared,
    /// bytes of the outbound stream already consumed
    pos: usize,
    pub text_mode: bool,
    /// every complete outbound message so far
    pub out: Vec<RMsg>,
    pub out_raw: Vec<Vec<u8>>,
    pub next_serial: u32,
    pub unparsable: Vec<String>,
}

pub fn parse_out(b: &[u8]) -> Result<RMsg, String> {
    let mut last = String::new();
    for nfds in 0..=4 {
        match msg::parse(b, nfds) {
            Ok(p) => return Ok(p.msg),
            Err(e) => last = format!("{e:?}"),
        }
    }
    Err(last)
}

impl Peer {
    pub fn new(sh: Shared, bus_handshake: bool) -> Peer {
        Peer { sh, pos: 0, text_mode: bus_handshake, out: vec![], out_raw: vec![], next_serial: 1000, unparsable: vec![] }
    }

    /// Look at what zbus wrote since last time; answers the SASL lines of a bus handshake itself.
    /// Returns the indices (into `out`) of the newly completed messages.
    pub fn pump(&mut self) -> Vec<usize> {
        let all = sent_bytes(&self.sh);
        let mut new = vec![];
        if self.text_mode {
            // consume complete lines
            loop {
                let rest = &all[self.pos..];
                let Some(nl) = rest.windows(2).position(|w| w == b"\r\n") else { break };
                let line = String::from_utf8_lossy(&rest[..nl]).trim_start_matches('\0').to_string();
                self.pos += nl + 2;
                if line.starts_with("AUTH") {
                    feed(&self.sh, format!("OK {GUID}\r\n").into_bytes(), vec![]);
                } else if line.starts_with("NEGOTIATE_UNIX_FD") {
                    feed(&self.sh, b"AGREE_UNIX_FD\r\n".to_vec(), vec![]);
                } else if line.starts_with("BEGIN") {
                    self.text_mode = false;
                    break;
                }
            }
            if self.text_mode {
                return new;
            }
        }
        let (msgs, _left) = frame(&all[self.pos..]);
        for m in msgs {
            self.pos += m.len();
            match parse_out(&m) {
                Ok(p) => {
                    self.out.push(p);
                    self.out_raw.push(m);
                    new.push(self.out.len() - 1);
                }
                Err(e) => {
                    self.unparsable.push(format!("{e}: {}", vcore::src::hex(&m[..m.len().min(80)])));
                    self.out.push(RMsg::new(0, 0));
                    self.out_raw.push(m);
                }
            }
        }
        new
    }

    pub fn serial(&mut self) -> u32 {
        self.next_serial += 1;
        self.next_serial
    }

    pub fn send(&self, m: &RMsg) {
        let b = m.build();
        feed(&self.sh, b.bytes, vec![]);
    }
    pub fn send_with_fds(&self, m: &RMsg, fds: Vec<OwnedFd>) {
        let b = m.build();
        feed(&self.sh, b.bytes, fds);
    }

    pub fn method_return(&mut self, call: &RMsg, body: Vec<RVal>, sender: Option<&str>) -> RMsg {
        let mut m = RMsg::new(msg::T_RETURN, self.serial());
        m.big = call.big;
        m.fields.push((msg::F_REPLY_SERIAL, RVal::U(call.serial)));
        if let Some(s) = sender {
            m.fields.push((msg::F_SENDER, RVal::S(s.into())));
        }
        if let Some(d) = call.get_str(msg::F_SENDER) {
            m.fields.push((msg::F_DESTINATION, RVal::S(d.to_string())));
        }
        m.body = body;
        m
    }
    pub fn error(&mut self, call: &RMsg, name: &str, text: &str, sender: Option<&str>) -> RMsg {
        let mut m = RMsg::new(msg::T_ERROR, self.serial());
        m.fields.push((msg::F_REPLY_SERIAL, RVal::U(call.serial)));
        m.fields.push((msg::F_ERROR_NAME, RVal::S(name.into())));
        if let Some(s) = sender {
            m.fields.push((msg::F_SENDER, RVal::S(s.into())));
        }
        if let Some(d) = call.get_str(msg::F_SENDER) {
            m.fields.push((msg::F_DESTINATION, RVal::S(d.to_string())));
        }
        m.body = vec![RVal::S(text.into())];
        m
    }
    pub fn signal(&mut self, path: &str, iface: &str, member: &str, sender: Option<&str>, body: Vec<RVal>) -> RMsg {
        let mut m = RMsg::new(msg::T_SIGNAL, self.serial());
        m.fields.push((msg::F_PATH, RVal::O(path.into())));
        m.fields.push((msg::F_INTERFACE, RVal::S(iface.into())));
        m.fields.push((msg::F_MEMBER, RVal::S(member.into())));
        if let Some(s) = sender {
            m.fields.push((msg::F_SENDER, RVal::S(s.into())));
        }
        m.body = body;
        m
    }
    pub fn call(&mut self, path: &str, iface: Option<&str>, member: &str, body: Vec<RVal>) -> RMsg {
        let mut m = RMsg::new(msg::T_CALL, self.serial());
        m.fields.push((msg::F_PATH, RVal::O(path.into())));
        if let Some(i) = iface {
            m.fields.push((msg::F_INTERFACE, RVal::S(i.into())));
        }
        m.fields.push((msg::F_MEMBER, RVal::S(member.into())));
        m.body = body;
        m
    }
}

/// is `m` a call to the bus driver's `member`?
pub fn is_bus_call(m: &RMsg, member: &str) -> bool {
    m.mtype == msg::T_CALL && m.get_str(msg::F_MEMBER) == Some(member) && m.get_str(msg::F_DESTINATION) == Some(BUS)
}

/// A bus connection: client handshake + Hello answered by the fake bus. The connection and its
/// peer are returned once `build()` has completed.
pub fn new_bus() -> Option<(Connection, Peer)> {
    let (sock, sh) = SSocket::new();
    let out: std::sync::Arc<std::sync::Mutex<Option<zbus::Result<Connection>>>> = Default::default();
    let o2 = out.clone();
    let mut s = Sched::new();
    s.spawn("build", async move {
        let r = Builder::socket(sock).internal_executor(false).build().await;
        *o2.lock().unwrap() = Some(r);
    });
    let mut peer = Peer::new(sh, true);
    let mut sched = || 0u8;
    let oc = s.run(&mut sched, 100_000, &mut |s| {
        for i in peer.pump() {
            let m = peer.out[i].clone();
            if is_bus_call(&m, "Hello") {
                let r = peer.method_return(&m, vec![RVal::S(ME.into())], Some(BUS));
                peer.send(&r);
            }
        }
        s.done(0)
    });
    if oc != Outcome::Goal {
        return None;
    }
    let r = out.lock().unwrap().take()?;
    r.ok().map(|c| (c, peer))
}

/// xorshift schedule source seeded from the case bytes
pub struct Sch {
    bytes: Vec<u8>,
    i: usize,
    x: u32,
}
impl Sch {
    pub fn new(bytes: Vec<u8>) -> Sch {
        let x = vcore::src::fnv(&bytes) as u32 | 1;
        Sch { bytes, i: 0, x }
    }
    pub fn next(&mut self) -> u8 {
        if self.i < self.bytes.len() {
            self.i += 1;
            self.bytes[self.i - 1]
        } else {
            // schedule bytes exhausted: continue pseudo-randomly but deterministically
            self.x ^= self.x << 13;
            self.x ^= self.x >> 17;
            self.x ^= self.x << 5;
            (self.x >> 8) as u8
        }
    }
}
