//! C18 (concurrent sends never interleave), C19 (every call gets its own reply), C20 (streams
//! deliver every matching message once, in order) on a p2p connection over the scripted socket
//! under a generated schedule.

use crate::bridge::fd_table;
use crate::env::*;
use crate::sched::*;
use futures_util::StreamExt;
use std::os::fd::AsFd;
use std::sync::{Arc, Mutex};
use vcore::refmodel::msg;
use vcore::refmodel::val::RVal;
use vcore::run::{CaseResult, Failure, Obs};
use vcore::src::{fnv, Src};
use zbus::message::Message;
use zbus::zvariant::Fd;

// ------------------------------------------------------------------------------------------------
// C18

pub fn c18_case(src: &mut Src, obs: &mut Obs) -> CaseResult {
    let Some((conn, sh)) = new_p2p(None) else { return Err(Failure::new("harness: p2p connection could not be built")) };
    let k = 1 + src.below(8);
    let m = 1 + src.below(6);
    // messages per sender
    let mut all: Vec<Vec<Message>> = vec![];
    let mut with_fd = 0;
    for s in 0..k {
        let mut v = vec![];
        for i in 0..m {
            let n = match src.below(4) {
                0 => 0,
                1 => src.below(8),
                2 => 20 + src.below(60),
                _ => 200 + src.below(400),
            };
            let payload: Vec<u8> = (0..n).map(|j| (s * 31 + i * 7 + j) as u8).collect();
            let b = Message::signal("/c18", "c18.Test", "Msg").unwrap();
            let msg = if src.chance(50) {
                with_fd += 1;
                let h = src.below(4);
                b.build(&(s as u32, i as u32, payload, Fd::from(fd_table().fds[h].as_fd()))).unwrap()
            } else {
                b.build(&(s as u32, i as u32, payload)).unwrap()
            };
            v.push(msg);
        }
        all.push(v);
    }
    // the transport: partial writes and yields
    let mut partial = false;
    {
        let mut st = sh.lock().unwrap();
        let plan_len = src.below(400);
        for _ in 0..plan_len {
            let p = match src.weighted(&[3, 3, 2, 2, 1]) {
                0 => WPlan::Accept(1 + src.below(4)),
                1 => WPlan::Accept(5 + src.below(60)),
                2 => WPlan::Yield,
                3 => WPlan::Accept(100_000),
                _ => WPlan::LateAck,
            };
            if matches!(p, WPlan::Accept(n) if n < 1000) {
                partial = true;
            }
            st.write_plan.push_back(p);
        }
    }
    let mut sched = Sched::new();
    sched.spawn_ticker("exec", conn.executor().clone());
    let errors: Arc<Mutex<Vec<String>>> = Default::default();
    for (s, msgs) in all.iter().enumerate() {
        let c = conn.clone();
        let msgs = msgs.clone();
        let e = errors.clone();
        sched.spawn(&format!("sender{s}"), async move {
            for (i, m) in msgs.iter().enumerate() {
                if let Err(x) = c.send(m).await {
                    e.lock().unwrap().push(format!("sender {s} message {i}: {x}"));
                }
            }
        });
    }
    let rest: Vec<u8> = src.rest().to_vec();
    let mut sch = Sch::new(rest);
    let oc = sched.run(&mut || sch.next(), 400_000, &mut |s| s.all_done());
    let describe = || format!("{k} senders x {m} messages ({with_fd} with an fd), partial writes: {partial}, {} scheduler steps", sched.steps);
    if oc != Outcome::Goal {
        return Err(Failure::new(format!("the senders did not finish ({oc:?}); {}", describe())));
    }
    let errs = errors.lock().unwrap().clone();
    if !errs.is_empty() {
        return Err(Failure::new(format!("send failed: {errs:?}; {}", describe())));
    }
    // what the peer received
    let st = sh.lock().unwrap();
    let mut stream: Vec<u8> = vec![];
    // (offset of the first byte of the record, fds of the record)
    let mut rec_fds: Vec<(usize, Vec<(u64, u64)>)> = vec![];
    for (b, f) in &st.sent {
        if !f.is_empty() {
            rec_fds.push((stream.len(), f.clone()));
        }
        stream.extend_from_slice(b);
    }
    drop(st);
    let (frames, left) = frame(&stream);
    if !left.is_empty() {
        return Err(Failure::new(format!("the byte stream does not split into whole messages ({} trailing bytes); {}", left.len(), describe())));
    }
    if frames.len() != k * m {
        return Err(Failure::new(format!("the peer received {} messages, {} were sent; {}", frames.len(), k * m, describe())));
    }
    let mut next_idx = vec![0usize; k];
    let mut offset = 0usize;
    for fr in &frames {
        // which message is it?
        let mut found = None;
        for (s, msgs) in all.iter().enumerate() {
            let i = next_idx[s];
            if i < msgs.len() && msgs[i].data().bytes() == &fr[..] {
                found = Some((s, i));
                break;
            }
        }
        let Some((s, i)) = found else {
            // either mixed bytes or a message out of its sender's order
            let any = all.iter().flatten().any(|m| m.data().bytes() == &fr[..]);
            return Err(Failure::new(if any {
                format!("a sender's messages arrived out of order; {}", describe())
            } else {
                format!("a received message is not byte-identical to any sent message (bytes of different messages mixed); {}", describe())
            }));
        };
        next_idx[s] += 1;
        // fds: exactly on the sendmsg that carried byte 0 of the message
        let want: Vec<(u64, u64)> = all[s][i].data().fds().iter().map(|f| ino_of_fd(std::os::fd::AsRawFd::as_raw_fd(f))).collect();
        let got: Vec<(u64, u64)> = rec_fds.iter().filter(|(o, _)| *o == offset).flat_map(|(_, f)| f.clone()).collect();
        if got != want {
            return Err(Failure::new(format!("message {i} of sender {s}: fds transmitted with its first bytes {:?}, expected {:?}; {}", got, want, describe())));
        }
        let stray = rec_fds.iter().any(|(o, _)| *o > offset && *o < offset + fr.len());
        if stray {
            return Err(Failure::new(format!("fds were transmitted in the middle of message {i} of sender {s}; {}", describe())));
        }
        offset += fr.len();
    }
    obs.label(if partial { "partial-writes" } else { "whole-writes" });
    if k >= 2 && partial {
        obs.nontrivial(fnv(format!("{k}{m}{}{:?}", sched.steps, &sched.trace[..sched.trace.len().min(64)]).as_bytes()));
        obs.sample(if with_fd > 0 { "with-fds" } else { "plain" }, describe);
    }
    Ok(())
}

// ------------------------------------------------------------------------------------------------
// C19

#[derive(Debug, Clone, PartialEq)]
enum Plan {
    Reply,
    ErrorReply,
    Never,
}

pub fn c19_case(src: &mut Src, obs: &mut Obs) -> CaseResult {
    let Some((conn, sh)) = new_p2p(None) else { return Err(Failure::new("harness: p2p connection could not be built")) };
    let n = 1 + src.below(12);
    let plans: Vec<Plan> = (0..n)
        .map(|_| match src.weighted(&[8, 3, 2]) {
            0 => Plan::Reply,
            1 => Plan::ErrorReply,
            _ => Plan::Never,
        })
        .collect();
    // delay (in environment turns) before each answer, and noise in between
    let delays: Vec<usize> = (0..n).map(|_| src.below(6)).collect();
    let noise = src.below(4);
    let end_with_error = src.bool();
    let results: Arc<Mutex<Vec<Option<Result<u32, String>>>>> = Arc::new(Mutex::new(vec![None; n]));
    let mut sched = Sched::new();
    sched.spawn_ticker("exec", conn.executor().clone());
    // bystanders: message streams on the same connection whose rules also match replies (a monitor
    // of all method returns / errors / everything); they take nothing away from the callers
    let bystanders = src.weighted(&[6, 2, 2, 2, 1]);
    let by_rules: Vec<&str> = match bystanders {
        1 => vec!["type='method_return'"],
        2 => vec!["type='error'"],
        3 => vec!["type='method_return'", "type='error'"],
        4 => vec!["type='signal'", "type='method_return'"],
        _ => vec![],
    };
    // some writes are acknowledged late: the peer has the call (and may answer) before the caller's
    // send has returned
    {
        let mut st = sh.lock().unwrap();
        for _ in 0..n {
            if src.chance(70) {
                st.write_plan.push_back(WPlan::LateAck);
            } else {
                st.write_plan.push_back(WPlan::Accept(usize::MAX));
            }
        }
    }
    let by_seen: Arc<Mutex<Vec<u32>>> = Default::default();
    let by_drop_after = if src.bool() { Some(src.below(4)) } else { None };
    for (k, rule) in by_rules.iter().enumerate() {
        let (c, rule, seen) = (conn.clone(), rule.to_string(), by_seen.clone());
        let a = sched.spawn(&format!("bystander{k}"), async move {
            use futures_util::StreamExt;
            let r = zbus::MatchRule::try_from(rule.as_str()).expect("rule");
            let Ok(mut st) = zbus::MessageStream::for_match_rule(r, &c, None).await else { return };
            drop(c);
            let mut n = 0usize;
            while let Some(Ok(m)) = st.next().await {
                seen.lock().unwrap().push(m.primary_header().serial_num().get());
                n += 1;
                if k == 0 && by_drop_after == Some(n) {
                    // the monitor goes away in the middle
                    return;
                }
            }
        });
        sched.actors[a].daemon = true;
    }
    for id in 0..n {
        let c = conn.clone();
        let r = results.clone();
        sched.spawn(&format!("caller{id}"), async move {
            let res = c.call_method(None::<&str>, "/c19", Some("c19.Test"), "Call", &(id as u32)).await;
            let v = match res {
                Ok(m) => match m.body().deserialize::<u32>() {
                    Ok(x) => Ok(x),
                    Err(e) => Err(format!("body: {e}")),
                },
                Err(zbus::Error::MethodError(name, _, _)) => Err(format!("MethodError:{}", name.as_str())),
                Err(e) => Err(format!("other:{e}")),
            };
            let mut g = r.lock().unwrap();
            if g[id].is_some() {
                g[id] = Some(Err("COMPLETED-TWICE".into()));
            } else {
                g[id] = Some(v);
            }
        });
    }
    drop(conn);
    let mut peer = Peer::new(sh.clone(), false);
    // (due turn, call index in peer.out)
    let mut pending: Vec<(usize, usize)> = vec![];
    let mut turn = 0usize;
    let mut seen_calls = 0usize;
    let mut eof_sent = false;
    let mut noise_left = noise;
    let mut wrong_serial: Vec<String> = vec![];
    let rest: Vec<u8> = src.rest().to_vec();
    let mut sch = Sch::new(rest);
    let res2 = results.clone();
    let plans2 = plans.clone();
    let mut non_identity = false;
    sched.idle_grace = 8;
    let oc = sched.run(&mut || sch.next(), 600_000, &mut |s| {
        turn += 1;
        for i in peer.pump() {
            let m = peer.out[i].clone();
            if m.mtype == msg::T_CALL {
                let id = match m.body.first() {
                    Some(RVal::U(x)) => *x as usize,
                    _ => usize::MAX,
                };
                if id < n {
                    pending.push((turn + delays[id], i));
                    seen_calls += 1;
                } else {
                    wrong_serial.push(format!("unexpected call {m:?}"));
                }
            }
        }
        // answer what is due, latest-queued first so that replies are permuted
        let mut due: Vec<(usize, usize)> = pending.iter().copied().filter(|(t, _)| *t <= turn).collect();
        pending.retain(|(t, _)| *t > turn);
        due.sort_by_key(|(t, i)| (std::cmp::Reverse(*t), std::cmp::Reverse(*i)));
        if due.len() > 1 {
            non_identity = true;
        }
        for (_, i) in due {
            let call = peer.out[i].clone();
            let id = match call.body.first() {
                Some(RVal::U(x)) => *x as usize,
                _ => continue,
            };
            if noise_left > 0 {
                noise_left -= 1;
                // an unrelated signal and a stray reply with an unknown serial
                let sig = peer.signal("/noise", "c19.Noise", "Tick", None, vec![RVal::U(7)]);
                peer.send(&sig);
                let mut stray = peer.method_return(&call, vec![RVal::U(9999)], None);
                stray.fields.retain(|(c, _)| *c != msg::F_REPLY_SERIAL);
                stray.fields.push((msg::F_REPLY_SERIAL, RVal::U(0x7fff_0000 + id as u32)));
                peer.send(&stray);
            }
            match plans2[id] {
                Plan::Reply => {
                    let r = peer.method_return(&call, vec![RVal::U(id as u32)], None);
                    peer.send(&r);
                }
                Plan::ErrorReply => {
                    let r = peer.error(&call, &format!("c19.Error{id}"), "nope", None);
                    peer.send(&r);
                }
                Plan::Never => {}
            }
        }
        let answered_all = seen_calls == n && pending.is_empty();
        let settled = {
            let g = res2.lock().unwrap();
            (0..n).all(|i| plans2[i] == Plan::Never || g[i].is_some())
        };
        if answered_all && settled && !eof_sent {
            // the calls never answered are completed by the connection failing
            eof_sent = true;
            if end_with_error {
                feed_item(&peer.sh, RItem::Err(std::io::ErrorKind::ConnectionReset));
            } else {
                set_eof(&peer.sh);
            }
        }
        s.all_done()
    });
    let got = results.lock().unwrap().clone();
    let describe = || format!("{n} callers, plans {plans:?}, delays {delays:?}, noise {noise}, bystander streams {by_rules:?} (first one dropped after {by_drop_after:?} messages), ends with {}, results {got:?}, {} steps", if end_with_error { "I/O error" } else { "EOF" }, sched.steps);
    if !wrong_serial.is_empty() {
        return Err(Failure::new(format!("{wrong_serial:?}; {}", describe())));
    }
    if oc != Outcome::Goal {
        let stuck: Vec<usize> = (0..n).filter(|i| got[*i].is_none()).collect();
        return Err(Failure::new(format!("calls {stuck:?} never completed ({oc:?}: nothing left to run); {}", describe())));
    }
    for id in 0..n {
        let r = got[id].clone().unwrap();
        match (&plans[id], r) {
            (Plan::Reply, Ok(x)) if x as usize == id => {}
            (Plan::ErrorReply, Err(e)) if e == format!("MethodError:c19.Error{id}") => {}
            (Plan::Never, Err(e)) if e.starts_with("other:") => {}
            (p, r) => return Err(Failure::new(format!("call {id} (plan {p:?}) completed with {r:?}; {}", describe()))),
        }
    }
    // every call went out with its own serial and the body it was given
    let serials: Vec<u32> = peer.out.iter().filter(|m| m.mtype == msg::T_CALL).map(|m| m.serial).collect();
    let mut uniq = serials.clone();
    uniq.sort();
    uniq.dedup();
    if uniq.len() != serials.len() {
        return Err(Failure::new(format!("two calls went out with the same serial {serials:?}; {}", describe())));
    }
    obs.label(if non_identity { "replies-permuted" } else { "replies-in-order" });
    if !by_rules.is_empty() {
        obs.label("with-bystander-streams");
    }
    if n >= 3 && non_identity {
        obs.nontrivial(fnv(format!("{plans:?}{delays:?}{}{:?}", sched.steps, &sched.trace[..sched.trace.len().min(64)]).as_bytes()));
        obs.sample("calls", describe);
    }
    Ok(())
}

// ------------------------------------------------------------------------------------------------
// C20

#[derive(Debug, Clone)]
enum Op {
    Create(usize),
    CloneS(usize),
    DropS(usize),
    Incoming(usize),
    Poll(usize),
}

const RULES: [Option<&str>; 4] = [None, Some("type='signal',interface='c20.A'"), Some("type='signal',interface='c20.B'"), Some("type='signal',member='Ping'")];

fn rule_matches(rule: usize, kind: usize) -> bool {
    // message kinds: 0 = c20.A.Ping, 1 = c20.A.Pong, 2 = c20.B.Ping, 3 = c20.C.Other
    match rule {
        0 => true,
        1 => kind == 0 || kind == 1,
        2 => kind == 2,
        _ => kind == 0 || kind == 2,
    }
}

pub fn c20_case(src: &mut Src, obs: &mut Obs) -> CaseResult {
    let maxq = 1 + src.below(3);
    let Some((conn, sh)) = new_p2p(Some(maxq.max(1))) else { return Err(Failure::new("harness: p2p connection could not be built")) };
    let nops = 2 + src.below(24);
    let mut ops = vec![];
    // per-operation choices (queue size asked for, way of disposal), drawn here: everything after
    // the operations is the schedule
    let mut extra: Vec<(u8, u8)> = vec![];
    // messages are not always consumed at once: within the capacity they may sit in the queue
    let lazy = src.chance(110);
    for _ in 0..nops {
        extra.push((src.u8(), src.u8()));
        ops.push(match src.weighted(&[4, 2, 3, 8, 4]) {
            0 => Op::Create(src.below(4)),
            1 => Op::CloneS(src.below(8)),
            2 => Op::DropS(src.below(8)),
            3 => Op::Incoming(src.below(4)),
            _ => Op::Poll(src.below(8)),
        });
    }
    let mut peer = Peer::new(sh.clone(), false);
    let mut sched = Sched::new();
    sched.spawn_ticker("exec", conn.executor().clone());
    // live streams: (rule, expected queue (serials), received (serials), the stream)
    struct Live {
        rule: usize,
        expect: Vec<u32>,
        got: Arc<Mutex<Vec<u32>>>,
        stream: Arc<Mutex<Option<zbus::MessageStream>>>,
        small_queue: bool,
    }
    let mut live: Vec<Live> = vec![];
    // capacity of the queue the streams of one rule share (documented: the queue of a rule is as
    // long as its first subscriber asked for and only ever grows with later ones; the unfiltered
    // stream has the connection's max_queued)
    let mut cap: [usize; 4] = [maxq, 0, 0, 0];
    let rest: Vec<u8> = src.rest().to_vec();
    let mut sch = Sch::new(rest);
    let mut serial = 500u32;
    let mut dropped_between = false;
    let mut describe_ops = vec![];
    let quiesce = |sched: &mut Sched, sch: &mut Sch| {
        let _ = sched.run(&mut || sch.next(), 200_000, &mut |_| false);
    };
    for (opi, op) in ops.iter().enumerate() {
        let (x0, x1) = extra[opi];
        match op {
            Op::Create(r) => {
                let c = conn.clone();
                let slot: Arc<Mutex<Option<zbus::MessageStream>>> = Default::default();
                let s2 = slot.clone();
                let r2 = *r;
                let small = x0 & 1 == 1;
                // (a later subscriber may ask for less than the queue already has: it must not shrink)
                let asked = if small { Some(1 + (x1 as usize % 4)) } else { None };
                if *r != 0 {
                    let want = asked.unwrap_or(64);
                    let exists = live.iter().any(|l| l.rule == *r);
                    cap[*r] = if exists { if asked.is_some() { cap[*r].max(want) } else { cap[*r] } } else { want };
                }
                let a = sched.spawn("create", async move {
                    let st = match RULES[r2] {
                        None => zbus::MessageStream::from(&c),
                        Some(rule) => zbus::MessageStream::for_match_rule(rule, &c, asked).await.expect("for_match_rule"),
                    };
                    *s2.lock().unwrap() = Some(st);
                });
                let oc = sched.run(&mut || sch.next(), 200_000, &mut |s| s.done(a));
                if oc != Outcome::Goal {
                    return Err(Failure::new(format!("creating a stream for rule {:?} does not complete ({oc:?})", RULES[*r])));
                }
                live.push(Live { rule: *r, expect: vec![], got: Default::default(), stream: slot, small_queue: small });
                describe_ops.push(format!("create(rule{r}, max_queued {asked:?})"));
            }
            Op::CloneS(i) => {
                if live.is_empty() {
                    continue;
                }
                let i = i % live.len();
                let cl = live[i].stream.lock().unwrap().as_ref().map(|s| s.clone());
                if let Some(cl) = cl {
                    // a clone shares the position of the original: it will see what the original
                    // has not consumed yet
                    let pending: Vec<u32> = {
                        let got = live[i].got.lock().unwrap();
                        live[i].expect[got.len()..].to_vec()
                    };
                    let rule = live[i].rule;
                    let small = live[i].small_queue;
                    live.push(Live { rule, expect: pending, got: Default::default(), stream: Arc::new(Mutex::new(Some(cl))), small_queue: small });
                    describe_ops.push(format!("clone({i})"));
                }
            }
            Op::DropS(i) => {
                if live.is_empty() {
                    continue;
                }
                let i = i % live.len();
                let l = live.remove(i);
                // everything it was owed so far must have been deliverable: drain first
                drain_stream(&mut sched, &mut sch, &l.stream, &l.got, l.expect.len());
                let got = l.got.lock().unwrap().clone();
                if got != l.expect {
                    return Err(Failure::new(format!("stream with rule {:?} received serials {got:?}, expected {:?} (ops so far {describe_ops:?}, max_queued {maxq})", RULES[l.rule], l.expect)));
                }
                let how = if x0 % 3 == 0 { "async_drop" } else { "drop" };
                if how == "async_drop" {
                    if let Some(st) = l.stream.lock().unwrap().take() {
                        let a = sched.spawn("async-drop", async move {
                            zbus::AsyncDrop::async_drop(st).await;
                        });
                        let _ = sched.run(&mut || sch.next(), 200_000, &mut |s| s.done(a));
                    }
                }
                drop(l);
                dropped_between = true;
                quiesce(&mut sched, &mut sch);
                describe_ops.push(format!("{how}({i})"));
            }
            Op::Incoming(kind) => {
                serial += 1;
                let (iface, member) = [("c20.A", "Ping"), ("c20.A", "Pong"), ("c20.B", "Ping"), ("c20.C", "Other")][*kind];
                // a queue that is full blocks the reader until its streams are polled (the property's
                // proviso): make room first where this message would not fit
                for r in 0..4 {
                    if !rule_matches(r, *kind) {
                        continue;
                    }
                    let unread = live.iter().filter(|l| l.rule == r).map(|l| l.expect.len() - l.got.lock().unwrap().len()).max().unwrap_or(0);
                    if unread + 1 > cap[r].max(1) {
                        for l in live.iter().filter(|l| l.rule == r) {
                            drain_stream(&mut sched, &mut sch, &l.stream, &l.got, l.expect.len());
                        }
                    }
                }
                let mut m = peer.signal("/c20", iface, member, None, vec![RVal::U(serial)]);
                m.serial = serial;
                peer.send(&m);
                for l in live.iter_mut() {
                    if rule_matches(l.rule, *kind) {
                        l.expect.push(serial);
                    }
                }
                describe_ops.push(format!("incoming({iface}.{member}#{serial})"));
                // the message "arrives" when the connection's reader has taken it in
                quiesce(&mut sched, &mut sch);
                // eager histories consume at once; lazy ones leave what fits in the queues
                if !lazy {
                    for _ in 0..3 {
                        for l in live.iter() {
                            drain_stream(&mut sched, &mut sch, &l.stream, &l.got, l.expect.len());
                        }
                    }
                }
            }
            Op::Poll(i) => {
                if live.is_empty() {
                    continue;
                }
                let i = i % live.len();
                let l = &live[i];
                drain_stream(&mut sched, &mut sch, &l.stream, &l.got, l.expect.len());
            }
        }
    }
    // final fair drain
    for _ in 0..3 {
        for l in live.iter() {
            drain_stream(&mut sched, &mut sch, &l.stream, &l.got, l.expect.len());
        }
    }
    for l in &live {
        let got = l.got.lock().unwrap().clone();
        if got != l.expect {
            return Err(Failure::new(format!("stream with rule {:?} received serials {got:?}, expected {:?}; ops {describe_ops:?}, max_queued {maxq}", RULES[l.rule], l.expect)));
        }
    }
    let same_rule = (0..live.len()).any(|i| (0..i).any(|j| live[i].rule == live[j].rule));
    obs.label(if same_rule { "streams-sharing-a-rule" } else { "distinct-rules" });
    obs.label(if lazy { "lazy-consumption" } else { "eager-consumption" });
    if describe_ops.iter().any(|d| d.starts_with("async_drop")) {
        obs.label("with-async-drop");
    }
    if describe_ops.iter().any(|d| d.contains("max_queued Some")) {
        obs.label("with-explicit-queue-size");
    }
    if dropped_between && ops.iter().filter(|o| matches!(o, Op::Incoming(_))).count() >= 2 {
        obs.nontrivial(fnv(format!("{describe_ops:?}{maxq}").as_bytes()));
        obs.sample("history", || format!("max_queued={maxq} ops={describe_ops:?}"));
    }
    Ok(())
}

/// poll one stream until it has received `upto` messages or nothing is left to run
fn drain_stream(sched: &mut Sched, sch: &mut Sch, stream: &Arc<Mutex<Option<zbus::MessageStream>>>, got: &Arc<Mutex<Vec<u32>>>, upto: usize) {
    if got.lock().unwrap().len() >= upto {
        // still give the connection a chance to run
        let _ = sched.run(&mut || sch.next(), 50_000, &mut |_| false);
        return;
    }
    if stream.lock().unwrap().is_none() {
        return;
    }
    let g = got.clone();
    let slot = stream.clone();
    // the stream stays in its slot (polled through it), so stopping this actor loses nothing
    let a = sched.spawn("drain", async move {
        loop {
            if g.lock().unwrap().len() >= upto {
                break;
            }
            let item = std::future::poll_fn(|cx| {
                let mut guard = slot.lock().unwrap();
                match guard.as_mut() {
                    Some(st) => st.poll_next_unpin(cx),
                    None => std::task::Poll::Ready(None),
                }
            })
            .await;
            match item {
                Some(Ok(m)) => g.lock().unwrap().push(m.primary_header().serial_num().get()),
                _ => break,
            }
        }
    });
    let oc = sched.run(&mut || sch.next(), 200_000, &mut |s| s.done(a));
    if oc != Outcome::Goal {
        // not everything arrived: stop the drain actor so that the stream is not lost; the
        // caller's comparison reports the shortfall
        sched.kill(a);
    }
}
