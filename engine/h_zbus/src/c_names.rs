//! C10: validated string types accept exactly their D-Bus grammar, through every construction route.

use std::borrow::Cow;
use std::sync::Arc;
use vcore::refmodel::names;
use vcore::run::{CaseResult, Failure, Obs};
use vcore::src::Src;
use zbus::names::{BusName, ErrorName, InterfaceName, MemberName, OwnedBusName, OwnedErrorName, OwnedInterfaceName, OwnedMemberName, OwnedUniqueName, OwnedWellKnownName, PropertyName, UniqueName, WellKnownName};
use zbus::zvariant::serialized::{Context, Data};
use zbus::zvariant::{ObjectPath, OwnedObjectPath, OwnedValue, Str, Value, LE};

/// class alphabet: letter, capital, digit, underscore, hyphen, dot, colon, slash, non-ASCII, space, NUL
pub const ALPHA: [&str; 11] = ["a", "Z", "0", "_", "-", ".", ":", "/", "é", " ", "\0"];

pub const KINDS: [&str; 9] = ["bus", "unique", "wellknown", "interface", "member", "error", "property", "path", "guid"];

pub fn count_upto(k: u64, l: u32) -> u64 {
    (0..=l).map(|i| k.pow(i)).sum()
}

pub fn nth_string(mut idx: u64) -> String {
    let k = ALPHA.len() as u64;
    let mut len = 0u32;
    loop {
        let n = k.pow(len);
        if idx < n {
            break;
        }
        idx -= n;
        len += 1;
    }
    let mut parts = vec![""; len as usize];
    for i in (0..len as usize).rev() {
        parts[i] = ALPHA[(idx % k) as usize];
        idx /= k;
    }
    parts.concat()
}

fn oracle(kind: &str, s: &str) -> bool {
    let b = s.as_bytes();
    match kind {
        // documented tolerance: zbus treats the bus driver's own name as a unique name
        "unique" => names::unique_name(b) || s == "org.freedesktop.DBus",
        "wellknown" => names::well_known_name(b),
        "bus" => names::bus_name(b),
        "interface" => names::interface_name(b),
        "member" => names::member_name(b),
        "error" => names::error_name(b),
        // PropertyName documents: any non-empty string of at most 255 bytes (the spec gives no grammar)
        "property" => !b.is_empty() && b.len() <= 255,
        "path" => names::object_path(b),
        "guid" => names::guid(b),
        _ => unreachable!(),
    }
}

/// how many grammar rules does the string break? (1 => near miss)
fn near_miss(kind: &str, s: &str) -> bool {
    // one edit away from an accepted string: delete / replace one char by 'a'
    let chars: Vec<char> = s.chars().collect();
    for i in 0..chars.len() {
        let mut t = chars.clone();
        t.remove(i);
        if oracle(kind, &t.iter().collect::<String>()) {
            return true;
        }
        let mut t = chars.clone();
        t[i] = 'a';
        if oracle(kind, &t.iter().collect::<String>()) {
            return true;
        }
    }
    false
}

fn dbus_string_bytes(s: &str) -> Vec<u8> {
    let mut b = (s.len() as u32).to_le_bytes().to_vec();
    b.extend_from_slice(s.as_bytes());
    b.push(0);
    b
}

macro_rules! name_routes {
    ($fnname:ident, $ty:ident, $owned:ident) => {
        fn $fnname(s: &str, sample: bool) -> Vec<(&'static str, bool)> {
            let mut v: Vec<(&'static str, bool)> = vec![
                ("try_from(&str)", $ty::try_from(s).is_ok()),
                ("try_from(String)", $ty::try_from(s.to_string()).is_ok()),
                ("try_from(Cow)", $ty::try_from(Cow::Borrowed(s)).is_ok()),
                ("try_from(Str)", $ty::try_from(Str::from(s)).is_ok()),
                ("try_from(Arc<str>)", $ty::try_from(Arc::<str>::from(s)).is_ok()),
                ("Owned::try_from(&str)", $owned::try_from(s).is_ok()),
                ("try_from(Value)", $ty::try_from(Value::from(s)).is_ok()),
                ("try_from(OwnedValue)", $ty::try_from(OwnedValue::try_from(Value::from(s)).unwrap()).is_ok()),
                ("Owned::try_from(OwnedValue)", $owned::try_from(OwnedValue::try_from(Value::from(s)).unwrap()).is_ok()),
            ];
            if !s.contains('\0') {
                let data = Data::new(dbus_string_bytes(s), Context::new_dbus(LE, 0));
                v.push(("Deserialize", data.deserialize::<$ty<'_>>().is_ok()));
                v.push(("Owned::Deserialize", data.deserialize::<$owned>().is_ok()));
            }
            if sample {
                let st: &'static str = Box::leak(s.to_string().into_boxed_str());
                v.push(("from_static_str", $ty::from_static_str(st).is_ok()));
            }
            v
        }
    };
}

name_routes!(routes_unique, UniqueName, OwnedUniqueName);
name_routes!(routes_wellknown, WellKnownName, OwnedWellKnownName);
name_routes!(routes_interface, InterfaceName, OwnedInterfaceName);
name_routes!(routes_member, MemberName, OwnedMemberName);
name_routes!(routes_error, ErrorName, OwnedErrorName);

fn routes_property(s: &str, sample: bool) -> Vec<(&'static str, bool)> {
    let mut v: Vec<(&'static str, bool)> = vec![
        ("try_from(&str)", PropertyName::try_from(s).is_ok()),
        ("try_from(String)", PropertyName::try_from(s.to_string()).is_ok()),
        ("try_from(Cow)", PropertyName::try_from(Cow::Borrowed(s)).is_ok()),
        ("try_from(Str)", PropertyName::try_from(Str::from(s)).is_ok()),
        ("try_from(Value)", PropertyName::try_from(Value::from(s)).is_ok()),
    ];
    if !s.contains('\0') {
        let data = Data::new(dbus_string_bytes(s), Context::new_dbus(LE, 0));
        v.push(("Deserialize", data.deserialize::<PropertyName<'_>>().is_ok()));
    }
    if sample {
        let st: &'static str = Box::leak(s.to_string().into_boxed_str());
        v.push(("from_static_str", PropertyName::from_static_str(st).is_ok()));
    }
    v
}

fn routes_bus(s: &str, _sample: bool) -> Vec<(&'static str, bool)> {
    let mut v: Vec<(&'static str, bool)> = vec![
        ("try_from(&str)", BusName::try_from(s).is_ok()),
        ("try_from(String)", BusName::try_from(s.to_string()).is_ok()),
        ("try_from(Str)", BusName::try_from(Str::from(s)).is_ok()),
        ("try_from(Arc<str>)", BusName::try_from(Arc::<str>::from(s)).is_ok()),
        ("Owned::try_from(&str)", OwnedBusName::try_from(s).is_ok()),
        ("try_from(Value)", BusName::try_from(Value::from(s)).is_ok()),
    ];
    if !s.contains('\0') {
        let data = Data::new(dbus_string_bytes(s), Context::new_dbus(LE, 0));
        v.push(("Deserialize", data.deserialize::<BusName<'_>>().is_ok()));
    }
    v
}

fn routes_path(s: &str, sample: bool) -> Vec<(&'static str, bool)> {
    let mut v: Vec<(&'static str, bool)> = vec![
        ("try_from(&str)", ObjectPath::try_from(s).is_ok()),
        ("try_from(String)", ObjectPath::try_from(s.to_string()).is_ok()),
        ("try_from(&[u8])", ObjectPath::try_from(s.as_bytes()).is_ok()),
        ("try_from(Cow)", ObjectPath::try_from(Cow::Borrowed(s)).is_ok()),
        ("Owned::try_from(&str)", OwnedObjectPath::try_from(s).is_ok()),
        ("Owned::try_from(String)", OwnedObjectPath::try_from(s.to_string()).is_ok()),
    ];
    if !s.contains('\0') {
        let data = Data::new(dbus_string_bytes(s), Context::new_dbus(LE, 0));
        v.push(("Deserialize", data.deserialize::<ObjectPath<'_>>().is_ok()));
        v.push(("Owned::Deserialize", data.deserialize::<OwnedObjectPath>().is_ok()));
        // inside a variant
        let mut vb = vec![1u8, b'o', 0, 0];
        vb.extend_from_slice(&dbus_string_bytes(s));
        let data = Data::new(vb, Context::new_dbus(LE, 0));
        v.push(("Deserialize(Value)", data.deserialize::<Value<'_>>().is_ok()));
    }
    if sample {
        let st: &'static str = Box::leak(s.to_string().into_boxed_str());
        v.push(("from_static_str", ObjectPath::from_static_str(st).is_ok()));
    }
    v
}

fn routes_guid(s: &str, sample: bool) -> Vec<(&'static str, bool)> {
    use std::str::FromStr;
    let mut v: Vec<(&'static str, bool)> = vec![
        ("try_from(&str)", zbus::Guid::try_from(s).is_ok()),
        ("try_from(String)", zbus::Guid::try_from(s.to_string()).is_ok()),
        ("try_from(Cow)", zbus::Guid::try_from(Cow::Borrowed(s)).is_ok()),
        ("try_from(Str)", zbus::Guid::try_from(Str::from(s)).is_ok()),
        ("from_str", zbus::Guid::from_str(s).is_ok()),
    ];
    if !s.contains('\0') {
        let data = Data::new(dbus_string_bytes(s), Context::new_dbus(LE, 0));
        v.push(("Deserialize", data.deserialize::<zbus::Guid<'_>>().is_ok()));
    }
    if sample {
        let st: &'static str = Box::leak(s.to_string().into_boxed_str());
        v.push(("from_static_str", zbus::Guid::from_static_str(st).is_ok()));
    }
    v
}

pub fn check_one(kind: &str, s: &str, sample: bool, obs: &mut Obs) -> CaseResult {
    let want = oracle(kind, s);
    let routes = match kind {
        "bus" => routes_bus(s, sample),
        "unique" => routes_unique(s, sample),
        "wellknown" => routes_wellknown(s, sample),
        "interface" => routes_interface(s, sample),
        "member" => routes_member(s, sample),
        "error" => routes_error(s, sample),
        "property" => routes_property(s, sample),
        "path" => routes_path(s, sample),
        "guid" => routes_guid(s, sample),
        _ => unreachable!(),
    };
    for (route, got) in &routes {
        if *got != want {
            let key = if !want && (route.contains("Value")) && kind != "bus" && kind != "path" { Some(format!("name-from-value-unvalidated")) } else { None };
            let msg = format!("{kind}: {route} {} {:?} but the grammar {} it", if *got { "accepts" } else { "rejects" }, s, if want { "allows" } else { "forbids" });
            return Err(Failure { key, msg });
        }
    }
    if kind == "bus" && want {
        let b = BusName::try_from(s).unwrap();
        let is_unique = matches!(b, BusName::Unique(_));
        let should = names::unique_name(s.as_bytes()) || s == "org.freedesktop.DBus";
        if is_unique != should {
            return Err(Failure::new(format!("bus name {s:?} classified as {} name", if is_unique { "unique" } else { "well-known" })));
        }
    }
    obs.label(&format!("{kind}:{}", if want { "accept" } else { "reject" }));
    if want || (s.len() <= 8 && near_miss(kind, s)) {
        obs.nontrivial_enumerated();
        obs.sample(&format!("{kind}-{}", if want { "accept" } else { "near-miss" }), || format!("{kind} {s:?} -> {}", if want { "accepted" } else { "rejected (one edit from valid)" }));
    }
    Ok(())
}

/// case bytes: [kind index][utf-8 string]
pub fn c10_one(src: &mut Src, obs: &mut Obs) -> CaseResult {
    let k = src.u8() as usize % KINDS.len();
    let raw = src.rest().to_vec();
    let s = match String::from_utf8(raw) {
        Ok(s) => s,
        Err(e) => String::from_utf8_lossy(e.as_bytes()).to_string(),
    };
    let sample = s.len() > 12 || vcore::src::fnv(s.as_bytes()) % 64 == 0;
    check_one(KINDS[k], &s, sample, obs)
}

pub fn make_enum_case(idx: u64, per_kind: u64) -> Vec<u8> {
    let k = (idx / per_kind) as u8;
    let mut b = vec![k];
    b.extend_from_slice(nth_string(idx % per_kind).as_bytes());
    b
}

/// constructed limit / UUID-like cases
pub fn limit_cases() -> Vec<Vec<u8>> {
    let mut out: Vec<(usize, String)> = vec![];
    for n in 250..=260usize {
        // element-structured strings of exactly n bytes
        out.push((0, format!("a.{}", "b".repeat(n - 2))));
        out.push((1, format!(":1.{}", "2".repeat(n - 3))));
        out.push((2, format!("a.{}", "b".repeat(n - 2))));
        out.push((3, format!("a.{}", "b".repeat(n - 2))));
        out.push((4, "m".repeat(n)));
        out.push((5, format!("a.{}", "b".repeat(n - 2))));
        out.push((6, "p".repeat(n)));
        out.push((7, format!("/{}", "p".repeat(n - 1))));
        out.push((3, format!("{}.x", "a.".repeat((n - 2) / 2))));
    }
    let hex32 = "0123456789abcdef0123456789ABCDEF";
    let g = |s: String| (8usize, s);
    out.push(g(hex32.to_string()));
    out.push(g(hex32[..31].to_string()));
    out.push(g(format!("{hex32}0")));
    out.push(g(format!("{}g", &hex32[..31])));
    out.push(g(format!("{}-{}-{}-{}-{}", &hex32[..8], &hex32[8..12], &hex32[12..16], &hex32[16..20], &hex32[20..32])));
    out.push(g(format!("{{{hex32}}}")));
    out.push(g(format!("{{{}-{}-{}-{}-{}}}", &hex32[..8], &hex32[8..12], &hex32[12..16], &hex32[16..20], &hex32[20..32])));
    out.push(g(format!("urn:uuid:{}-{}-{}-{}-{}", &hex32[..8], &hex32[8..12], &hex32[12..16], &hex32[16..20], &hex32[20..32])));
    out.push(g(format!(" {hex32}")));
    out.push(g(format!("{hex32} ")));
    out.push(g(String::new()));
    // per-position mutations of a valid GUID over {0 9 a f A F g -}
    for pos in 0..32 {
        // (every printable ASCII character: a lenient number parser lets '+', '_' or spaces through)
        let mut alphabet: Vec<char> = (0x20u8..0x7f).map(|b| b as char).collect();
        alphabet.push('é');
        for c in alphabet {
            let mut chars: Vec<char> = hex32.chars().collect();
            chars[pos] = c;
            out.push(g(chars.into_iter().collect()));
        }
    }
    out.into_iter()
        .map(|(k, s)| {
            let mut b = vec![k as u8];
            b.extend_from_slice(s.as_bytes());
            b
        })
        .collect()
}
