//! C16 (server-side SASL) and C17 (client-side handshake) over the scripted socket.

use crate::c_msg::gen_rmsg;
use crate::sched::*;
use vcore::refmodel::sasl::{self, Mech, ServerCfg};
use vcore::run::{CaseResult, Failure, Obs};
use vcore::src::{fnv, hex, Src};
use zbus::connection::Builder;
use zbus::AuthMechanism;

pub const GUID: &str = "0123456789abcdef0123456789abcdef";
pub const UID: u32 = 1000;

fn hexs(s: &str) -> String {
    hex(s.as_bytes())
}

/// the alternatives of the exhaustive campaign
pub fn alts() -> Vec<String> {
    vec![
        "AUTH".into(),
        "AUTH EXTERNAL".into(),
        format!("AUTH EXTERNAL {}", hexs("1000")),
        format!("AUTH EXTERNAL {}", hexs("1001")),
        format!("AUTH EXTERNAL {}", hexs("abc")),
        "AUTH EXTERNAL fffe".into(),
        "AUTH EXTERNAL zz".into(),
        "AUTH ANONYMOUS".into(),
        format!("AUTH ANONYMOUS {}", hexs("trace")),
        format!("AUTH DBUS_COOKIE_SHA1 {}", hexs("1000")),
        "AUTH FOO".into(),
        "DATA".into(),
        format!("DATA {}", hexs("1000")),
        format!("DATA {}", hexs("1001")),
        format!("DATA {}", hexs("abc")),
        "DATA zz".into(),
        "BEGIN".into(),
        "CANCEL".into(),
        "ERROR".into(),
        "ERROR not feeling well".into(),
        "NEGOTIATE_UNIX_FD".into(),
        "FOO".into(),
        "".into(),
    ]
}

pub fn configs() -> Vec<ServerCfg> {
    let mut v = vec![];
    for mech in [Mech::External, Mech::Anonymous] {
        for peer_uid in [Some(UID), None] {
            for fd in [true, false] {
                v.push(ServerCfg { mech, peer_uid, fd_capable: fd });
            }
        }
    }
    v
}

pub struct ServerRun {
    pub built: bool,
    pub error: String,
    pub replies: Vec<String>,
    pub raw_out: Vec<u8>,
}

/// run the server handshake against a byte stream cut into chunks
pub fn run_server(cfg: &ServerCfg, chunks: Vec<Vec<u8>>) -> ServerRun {
    let (sock, sh) = SSocket::new();
    {
        let mut s = sh.lock().unwrap();
        s.uid = cfg.peer_uid;
        s.can_pass_fd = cfg.fd_capable;
        s.mechanism_anonymous = cfg.mech == Mech::Anonymous;
    }
    for c in chunks {
        feed(&sh, c, vec![]);
    }
    set_eof(&sh);
    let mech = match cfg.mech {
        Mech::External => AuthMechanism::External,
        Mech::Anonymous => AuthMechanism::Anonymous,
    };
    let fut = async move {
        let b = Builder::socket(sock).server(GUID).expect("guid").p2p().auth_mechanism(mech).internal_executor(false);
        b.build().await
    };
    let r = block_on_simple(fut, 100_000);
    let (built, error) = match r {
        Some(Ok(conn)) => {
            drop(conn);
            (true, String::new())
        }
        Some(Err(e)) => (false, e.to_string()),
        None => (false, "HANG".into()),
    };
    let raw_out = sent_bytes(&sh);
    let text = String::from_utf8_lossy(&raw_out).to_string();
    let replies: Vec<String> = text.split("\r\n").filter(|l| !l.is_empty()).map(|l| l.split_ascii_whitespace().next().unwrap_or("").to_string()).collect();
    ServerRun { built, error, replies, raw_out }
}

fn cut(src: &mut Src, bytes: &[u8]) -> Vec<Vec<u8>> {
    match src.below(4) {
        0 => vec![bytes.to_vec()],
        1 => bytes.iter().map(|b| vec![*b]).collect(),
        _ => {
            let k = 1 + src.below(5);
            let mut cuts: Vec<usize> = (0..k).map(|_| src.below(bytes.len() + 1)).collect();
            cuts.push(0);
            cuts.push(bytes.len());
            cuts.sort();
            cuts.dedup();
            cuts.windows(2).map(|w| bytes[w[0]..w[1]].to_vec()).filter(|c| !c.is_empty()).collect()
        }
    }
}

fn check_server(cfg: &ServerCfg, lines: &[String], chunks: Vec<Vec<u8>>, describe: &dyn Fn() -> String) -> Result<ServerRun, Failure> {
    let run = run_server(cfg, chunks);
    if run.error == "HANG" {
        return Err(Failure::new(format!("the server handshake neither completes nor fails although the client closed the stream; {}", describe())));
    }
    // the OK reply must carry the server GUID
    if run.replies.iter().any(|r| r == "OK") {
        let text = String::from_utf8_lossy(&run.raw_out).to_string();
        if !text.contains(&format!("OK {GUID}\r\n")) {
            return Err(Failure::new(format!("OK without the server GUID: {text:?}; {}", describe())));
        }
    }
    match sasl::validate_server(cfg, lines, &run.replies, run.built) {
        Ok(_) => Ok(run),
        Err(e) => {
            // classification of the deviations found so far
            let key = if run.built && cfg.peer_uid.is_none() && cfg.mech == Mech::External {
                Some("sasl-server-external-without-credentials".to_string())
            } else if !run.built && run.error.contains("Unknown command") {
                Some("sasl-server-unknown-command-aborts".to_string())
            } else if !run.built && (run.error.contains("mechanism") || run.error.contains("Mechanism")) {
                Some("sasl-server-unsupported-mechanism-aborts".to_string())
            } else {
                None
            };
            Err(Failure { key, msg: format!("{e}; server error={:?}; {}", run.error, describe()) })
        }
    }
}

/// exhaustive campaign: case = [config index][line indices...]
pub fn c16_enum_case(src: &mut Src, obs: &mut Obs) -> CaseResult {
    let cfgs = configs();
    let a = alts();
    let ci = src.u8() as usize % cfgs.len();
    let cfg = &cfgs[ci];
    let idx: Vec<usize> = src.rest().iter().map(|b| *b as usize % a.len()).collect();
    let lines: Vec<String> = idx.iter().map(|i| a[*i].clone()).collect();
    let mut bytes = vec![0u8];
    for l in &lines {
        bytes.extend_from_slice(l.as_bytes());
        bytes.extend_from_slice(b"\r\n");
    }
    let describe = || format!("config={cfg:?} client lines={lines:?}");
    let run = check_server(cfg, &lines, vec![bytes], &describe)?;
    obs.label(if run.built { "authenticated" } else { "not-authenticated" });
    if lines.iter().any(|l| l.starts_with("AUTH")) && lines.len() >= 3 {
        obs.nontrivial_enumerated();
        obs.sample(if run.built { "authenticated" } else { "refused" }, || format!("{} -> replies {:?} built={}", describe(), run.replies, run.built));
    }
    Ok(())
}

/// random campaign: longer transcripts, arbitrary splits, odd line endings, missing leading NUL
pub fn c16_random_case(src: &mut Src, obs: &mut Obs) -> CaseResult {
    let cfgs = configs();
    let a = alts();
    let cfg = cfgs[src.below(cfgs.len())].clone();
    let n = 1 + src.below(10);
    let mut lines: Vec<String> = vec![];
    // bias towards transcripts that get somewhere: a plausible prefix, then noise
    if src.bool() {
        match cfg.mech {
            Mech::External => lines.push(if src.bool() { format!("AUTH EXTERNAL {}", hexs("1000")) } else { "AUTH EXTERNAL".into() }),
            Mech::Anonymous => lines.push("AUTH ANONYMOUS".into()),
        }
    }
    for _ in 0..n {
        lines.push(a[src.below(a.len())].clone());
    }
    if src.chance(120) {
        lines.push("BEGIN".into());
    }
    let odd = src.below(10);
    let mut bytes = if odd == 0 { vec![] } else { vec![0u8] };
    let mut framing_ok = odd != 0;
    for (i, l) in lines.iter().enumerate() {
        bytes.extend_from_slice(l.as_bytes());
        if odd == 1 && i == src.below(lines.len()) {
            bytes.extend_from_slice(b"\n");
            framing_ok = false;
        } else {
            bytes.extend_from_slice(b"\r\n");
        }
    }
    if odd == 2 {
        // stream starting with a bare LF / CR LF before the NUL
        let mut b2 = if src.bool() { b"\n".to_vec() } else { b"\r\n".to_vec() };
        b2.extend_from_slice(&bytes);
        bytes = b2;
        framing_ok = false;
    }
    if odd == 3 {
        bytes.insert(1 + src.below(bytes.len().max(2) - 1), 0xff);
        framing_ok = false;
    }
    let chunks = cut(src, &bytes);
    let nchunks = chunks.len();
    let describe = || format!("config={cfg:?} client lines={lines:?} stream={} in {nchunks} chunks", hex(&bytes[..bytes.len().min(120)]));
    if framing_ok {
        let run = check_server(&cfg, &lines, chunks, &describe)?;
        obs.label(if run.built { "authenticated" } else { "not-authenticated" });
    } else {
        // outside the protocol's framing: only "no panic, no hang, not authenticated unless a
        // complete valid exchange is present" is demanded
        let run = run_server(&cfg, chunks);
        if run.error == "HANG" {
            return Err(Failure::new(format!("hang; {}", describe())));
        }
        if run.built {
            // completing is only acceptable if the cleaned-up transcript authenticates
            if sasl::validate_server(&cfg, &lines, &run.replies, true).is_err() {
                return Err(Failure::new(format!("authenticated on a malformed stream that contains no valid exchange; {}", describe())));
            }
        }
        obs.label("malformed-framing");
    }
    if lines.iter().any(|l| l.starts_with("AUTH")) && lines.len() >= 3 {
        obs.nontrivial(fnv(format!("{cfg:?}{}{nchunks}", hex(&bytes)).as_bytes()));
        obs.sample("random", describe);
    }
    Ok(())
}

// ------------------------------------------------------------------------------------------------
// C17: client side

fn server_alts() -> Vec<String> {
    vec![
        format!("OK {GUID}"),
        format!("OK {}", &GUID[..31]),
        format!("OK {GUID}0"),
        format!("OK {}g", &GUID[..31]),
        format!("OK +{}", &GUID[..31]),
        format!("OK -{}", &GUID[..31]),
        format!("OK {}_{}", &GUID[..15], &GUID[..16]),
        format!("OK 0x{}", &GUID[..30]),
        format!("OK {} ", &GUID[..31]),
        format!("OK {}-{}-{}-{}-{}", &GUID[..8], &GUID[8..12], &GUID[12..16], &GUID[16..20], &GUID[20..]),
        "OK".into(),
        "REJECTED EXTERNAL".into(),
        "REJECTED".into(),
        "ERROR".into(),
        "ERROR nope".into(),
        "DATA".into(),
        "DATA 00".into(),
        "AGREE_UNIX_FD".into(),
        "FOO".into(),
        "BEGIN".into(),
        "".into(),
    ]
}

pub fn c17_case(src: &mut Src, obs: &mut Obs) -> CaseResult {
    let a = server_alts();
    let fd_capable = src.bool();
    let n = src.below(4);
    let mut replies: Vec<String> = vec![];
    // bias towards the successful shapes
    if src.chance(170) {
        replies.push(a[0].clone());
        if fd_capable && src.chance(200) {
            replies.push(if src.chance(170) { "AGREE_UNIX_FD".into() } else { "ERROR fd passing not supported".into() });
        }
    }
    for _ in 0..n {
        replies.push(a[src.below(a.len())].clone());
    }
    // message bytes right behind the handshake lines
    let trailing = src.chance(150);
    let mut stream = vec![];
    let expect = sasl::client_expect(&replies, fd_capable, None);
    let used = if fd_capable { 2 } else { 1 };
    for (i, r) in replies.iter().enumerate() {
        if i >= used {
            break;
        }
        stream.extend_from_slice(r.as_bytes());
        stream.extend_from_slice(b"\r\n");
    }
    // replies beyond what the client waits for are not part of a valid server's behaviour when
    // followed by messages; they are only sent when the handshake fails earlier
    let msgs: Vec<vcore::refmodel::msg::RMsg> = if trailing {
        (0..1 + src.below(2))
            .map(|i| {
                let mut m = gen_rmsg(src, false);
                m.mtype = 4;
                m.fields.retain(|(c, _)| ![5u8, 4].contains(c));
                for (c, v) in [(1u8, vcore::refmodel::val::RVal::O("/t".into())), (2, vcore::refmodel::val::RVal::S("t.T".into())), (3, vcore::refmodel::val::RVal::S("Sig".into()))] {
                    if m.get(c).is_none() {
                        m.fields.push((c, v));
                    }
                }
                m.flags = 0;
                m.serial = 50 + i as u32;
                m
            })
            .collect()
    } else {
        vec![]
    };
    let mut msg_bytes: Vec<Vec<u8>> = vec![];
    for m in &msgs {
        let b = m.build().bytes;
        stream.extend_from_slice(&b);
        msg_bytes.push(b);
    }
    let chunks = cut(src, &stream);
    let nchunks = chunks.len();
    let (sock, sh) = SSocket::new();
    sh.lock().unwrap().can_pass_fd = fd_capable;
    for c in chunks {
        feed(&sh, c, vec![]);
    }
    // the stream stays open after a successful handshake only if we say so; EOF keeps failures finite
    set_eof(&sh);
    let describe = || format!("fd_capable={fd_capable} server lines={:?} + {} message(s), {nchunks} chunks; stream={}", &replies[..replies.len().min(used)], msgs.len(), hex(&stream[..stream.len().min(100)]));
    let fut = async move { Builder::socket(sock).p2p().internal_executor(false).build().await };
    let r = block_on_simple(fut, 200_000);
    let conn = match r {
        None => return Err(Failure::new(format!("the client handshake hangs; {}", describe()))),
        Some(r) => r,
    };
    // what the client wrote: AUTH line first, beginning with NUL
    let out = sent_bytes(&sh);
    if !out.starts_with(b"\0AUTH ") {
        return Err(Failure::new(format!("the client did not start with NUL + AUTH: {:?}", String::from_utf8_lossy(&out[..out.len().min(40)]))));
    }
    let Some(exp) = expect else {
        obs.label("lenient-shape");
        return Ok(());
    };
    match (&conn, exp.success) {
        (Ok(_), false) => return Err(Failure::new(format!("the client completed the handshake without a proper acceptance; {}", describe()))),
        (Err(e), true) => return Err(Failure::new(format!("the client failed ({e}) although the server accepted; {}", describe()))),
        _ => {}
    }
    obs.label(if exp.success { "success" } else { "refused" });
    if let Ok(conn) = conn {
        // leftover bytes become the first messages
        let conn2 = conn.clone();
        let want = msg_bytes.clone();
        let got: std::sync::Arc<std::sync::Mutex<Vec<Vec<u8>>>> = Default::default();
        let g2 = got.clone();
        let mut s = Sched::new();
        s.spawn_ticker("exec", conn.executor().clone());
        let n_want = want.len();
        // the stream exists before the connection's reader task runs for the first time
        let mut st = zbus::MessageStream::from(&conn2);
        s.spawn("stream", async move {
            use futures_util::StreamExt;
            for _ in 0..n_want {
                match st.next().await {
                    Some(Ok(m)) => g2.lock().unwrap().push(m.data().bytes().to_vec()),
                    _ => break,
                }
            }
        });
        let mut sched = {
            let mut i = 0u32;
            move || {
                i = i.wrapping_mul(1664525).wrapping_add(1013904223);
                (i >> 24) as u8
            }
        };
        let _ = s.run(&mut sched, 50_000, &mut |s| s.done(1));
        let got = got.lock().unwrap().clone();
        if got != want {
            return Err(Failure::new(format!("bytes sent right after the handshake were not delivered as the first messages: got {} of {} ({:?}); {}", got.len(), want.len(), got.iter().map(|b| hex(&b[..b.len().min(16)])).collect::<Vec<_>>(), describe())));
        }
        // fd capability: sending a message with an fd is refused unless the server agreed
        let fdmsg = zbus::message::Message::method_call("/", "M").unwrap().build(&(zbus::zvariant::Fd::from(std::os::fd::AsFd::as_fd(&crate::bridge::fd_table().fds[0])),)).unwrap();
        let c3 = conn.clone();
        let res: std::sync::Arc<std::sync::Mutex<Option<bool>>> = Default::default();
        let r2 = res.clone();
        let mut s = Sched::new();
        s.spawn_ticker("exec", conn.executor().clone());
        s.spawn("send", async move {
            let ok = c3.send(&fdmsg).await.is_ok();
            *r2.lock().unwrap() = Some(ok);
        });
        let mut sched = || 0u8;
        let _ = s.run(&mut sched, 50_000, &mut |s| s.done(1));
        let sent_ok = res.lock().unwrap().unwrap_or(false);
        if sent_ok != exp.fd_cap {
            return Err(Failure::new(format!("fd passing is {} but the server {} it; {}", if sent_ok { "enabled" } else { "disabled" }, if exp.fd_cap { "agreed to" } else { "did not agree to" }, describe())));
        }
        if !want.is_empty() {
            obs.label("leftover-messages-delivered");
        }
    }
    if replies.len() >= 2 && nchunks > 1 {
        obs.nontrivial(fnv(format!("{fd_capable}{}{nchunks}", hex(&stream)).as_bytes()));
        obs.sample(if exp.success { "success" } else { "refused" }, describe);
    }
    Ok(())
}
