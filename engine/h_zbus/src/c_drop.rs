//! C39: the transport closes exactly when the last handle to a connection is dropped; graceful
//! shutdown completes only after in-flight handlers have replied, and does complete then.

use crate::env::*;
use crate::sched::*;
use std::sync::atomic::{AtomicBool, AtomicUsize, Ordering};
use std::sync::{Arc, Mutex};
use std::task::{Poll, Waker};
use vcore::refmodel::msg;
use vcore::refmodel::val::RVal;
use vcore::run::{CaseResult, Failure, Obs};
use vcore::src::{fnv, Src};
use zbus::proxy::CacheProperties;

/// a gate the harness opens; handlers await it
#[derive(Clone, Default)]
pub struct Gate(Arc<(AtomicBool, Mutex<Vec<Waker>>)>);
impl Gate {
    pub fn open(&self) {
        self.0 .0.store(true, Ordering::SeqCst);
        for w in self.0 .1.lock().unwrap().drain(..) {
            w.wake();
        }
    }
    pub fn wait(&self) -> impl std::future::Future<Output = ()> {
        let g = self.clone();
        std::future::poll_fn(move |cx| {
            if g.0 .0.load(Ordering::SeqCst) {
                Poll::Ready(())
            } else {
                g.0 .1.lock().unwrap().push(cx.waker().clone());
                Poll::Pending
            }
        })
    }
}

pub struct Slow {
    pub gate: Gate,
    pub started: Arc<AtomicUsize>,
    pub finished: Arc<AtomicUsize>,
}

#[zbus::interface(name = "c39.Slow")]
impl Slow {
    async fn slow(&self, x: u32) -> u32 {
        self.started.fetch_add(1, Ordering::SeqCst);
        self.gate.wait().await;
        self.finished.fetch_add(1, Ordering::SeqCst);
        x + 1
    }
    fn quick(&self) -> u32 {
        7
    }
}

enum Handle {
    Conn(zbus::Connection),
    Stream(zbus::MessageStream),
    Proxy(zbus::Proxy<'static>),
    Signals(zbus::proxy::SignalStream<'static>),
}
impl Handle {
    fn kind(&self) -> &'static str {
        match self {
            Handle::Conn(_) => "connection-clone",
            Handle::Stream(_) => "message-stream",
            Handle::Proxy(_) => "proxy",
            Handle::Signals(_) => "signal-stream",
        }
    }
}

pub fn c39_drop_case(src: &mut Src, obs: &mut Obs) -> CaseResult {
    let with_server = src.bool();
    let Some((conn, sh)) = new_p2p(None) else { return Err(Failure::new("harness: connection")) };
    let mut sched = Sched::new();
    let ticker = sched.spawn_ticker("exec", conn.executor().clone());
    let rest_for_sched: Vec<u8> = vec![];
    let mut sch = Sch::new(rest_for_sched);
    let n = 1 + src.below(7);
    let kinds: Vec<usize> = (0..n).map(|_| src.below(6)).collect();
    // signals arriving for the rule streams (one kind of which has room for a single message and is
    // never polled: the reader stalls on it), and a first use of the object server in the middle
    let nsig = src.below(4);
    let late_server_at = if src.chance(100) { Some(src.below(8)) } else { None };
    let handles: Arc<Mutex<Vec<Handle>>> = Default::default();
    let h2 = handles.clone();
    let c2 = conn.clone();
    let kinds2 = kinds.clone();
    let a = sched.spawn("make", async move {
        if with_server {
            // issue #308: an object server must not keep the connection alive
            let _ = c2.object_server().at("/c39", Slow { gate: Gate::default(), started: Default::default(), finished: Default::default() }).await;
        }
        for k in kinds2 {
            let h = match k {
                0 => Handle::Conn(c2.clone()),
                1 => Handle::Stream(zbus::MessageStream::from(&c2)),
                2 => Handle::Stream(zbus::MessageStream::for_match_rule("type='signal',interface='c39.S'", &c2, None).await.expect("stream")),
                5 => Handle::Stream(zbus::MessageStream::for_match_rule("type='signal',interface='c39.S',member='Tick'", &c2, Some(1)).await.expect("stream")),
                3 => Handle::Proxy(zbus::proxy::Builder::new(&c2).destination(":1.5").unwrap().path("/c39").unwrap().interface("c39.I").unwrap().cache_properties(CacheProperties::No).build().await.expect("proxy")),
                _ => {
                    let p: zbus::Proxy<'static> = zbus::proxy::Builder::new(&c2).destination(":1.5").unwrap().path("/c39").unwrap().interface("c39.I").unwrap().cache_properties(CacheProperties::No).build().await.expect("proxy");
                    Handle::Signals(p.receive_all_signals().await.expect("signal stream"))
                }
            };
            h2.lock().unwrap().push(h);
        }
    });
    if sched.run(&mut || sch.next(), 200_000, &mut |s| s.done(a)) != Outcome::Goal {
        return Err(Failure::new(format!("creating handles {kinds:?} does not complete")));
    }
    let mut hs: Vec<Handle> = std::mem::take(&mut *handles.lock().unwrap());
    hs.push(Handle::Conn(conn));
    if nsig > 0 {
        let mut peer = Peer::new(sh.clone(), false);
        for i in 0..nsig {
            let m = peer.signal("/c39", "c39.S", "Tick", None, vec![RVal::U(i as u32)]);
            peer.send(&m);
        }
        let _ = sched.run(&mut || sch.next(), 50_000, &mut |_| false);
    }
    let mut late_server_done = false;
    let names: Vec<&str> = hs.iter().map(|h| h.kind()).collect();
    let mut order = vec![];
    // drop in a generated order, running the connection in between
    while !hs.is_empty() {
        if !with_server && !late_server_done && late_server_at.map(|n| order.len() >= n).unwrap_or(false) {
            // the object server comes into being only now, through whichever connection handle is left
            if let Some(Handle::Conn(c)) = hs.iter().find(|h| matches!(h, Handle::Conn(_))) {
                let _ = c.object_server();
                late_server_done = true;
                order.push("(object server first used)");
            }
        }
        let i = src.below(hs.len());
        let h = hs.remove(i);
        order.push(h.kind());
        drop(h);
        let steps = src.below(6);
        let mut k = 0;
        let _ = sched.run(&mut || sch.next(), 50_000, &mut |_| {
            k += 1;
            k > steps
        });
        let st = sh.lock().unwrap();
        if !hs.is_empty() && (st.read_dropped || st.write_dropped || st.closed) {
            return Err(Failure::new(format!("the transport was closed although {} handle(s) are still alive ({:?}); handles {names:?}, dropped so far {order:?}, object server: {with_server}", hs.len(), hs.iter().map(|h| h.kind()).collect::<Vec<_>>())));
        }
    }
    // everything is gone: the connection's tasks wind down and the socket closes
    let _ = sched.run(&mut || sch.next(), 200_000, &mut |_| false);
    // the harness's ticker owns a clone of the executor; the connection's own executor thread
    // would end here ("while !executor.is_empty()")
    sched.kill(ticker);
    let st = sh.lock().unwrap();
    if !(st.read_dropped && st.write_dropped) {
        return Err(Failure::new(format!("every handle was dropped but the peer does not see the transport closing (read half dropped: {}, write half dropped: {}); handles {names:?}, drop order {order:?}, object server: {with_server}", st.read_dropped, st.write_dropped)));
    }
    drop(st);
    let kinds_n = {
        let mut k = names.clone();
        k.sort();
        k.dedup();
        k.len()
    };
    obs.label(if with_server { "with-object-server" } else { "no-object-server" });
    if late_server_done {
        obs.label("object-server-first-used-while-dropping");
    }
    if nsig >= 2 && kinds.contains(&5) {
        obs.label("reader-stalled-on-a-full-unpolled-stream");
    }
    if names.len() >= 3 && kinds_n >= 2 {
        obs.nontrivial(fnv(format!("{names:?}{order:?}{with_server}").as_bytes()));
        obs.sample("drop-order", || format!("handles {names:?}, drop order {order:?}, object server: {with_server}"));
    }
    Ok(())
}

pub fn c39_shutdown_case(src: &mut Src, obs: &mut Obs) -> CaseResult {
    let Some((conn, sh)) = new_p2p(None) else { return Err(Failure::new("harness: connection")) };
    let mut sched = Sched::new();
    let ticker = sched.spawn_ticker("exec", conn.executor().clone());
    let sbytes: Vec<u8> = src.bytes(24);
    let mut sch = Sch::new(sbytes);
    let gate = Gate::default();
    let started: Arc<AtomicUsize> = Default::default();
    let finished: Arc<AtomicUsize> = Default::default();
    let c2 = conn.clone();
    let iface = Slow { gate: gate.clone(), started: started.clone(), finished: finished.clone() };
    let a = sched.spawn("serve", async move {
        c2.object_server().at("/c39", iface).await.expect("at");
    });
    if sched.run(&mut || sch.next(), 100_000, &mut |s| s.done(a)) != Outcome::Goal {
        return Err(Failure::new("registering the interface does not complete"));
    }
    // let the object server's dispatch task settle (calls racing with its start-up are C30's topic)
    let _ = sched.run(&mut || sch.next(), 100_000, &mut |_| false);
    let mut peer = Peer::new(sh.clone(), false);
    let ncalls = 1 + src.below(3);
    let mut calls = vec![];
    for i in 0..ncalls {
        let c = peer.call("/c39", Some("c39.Slow"), "Slow", vec![RVal::U(10 * i as u32)]);
        peer.send(&c);
        calls.push(c);
    }
    // wait until the handlers are in flight
    let st2 = started.clone();
    let oc = sched.run(&mut || sch.next(), 200_000, &mut |_| st2.load(Ordering::SeqCst) == ncalls);
    if oc != Outcome::Goal {
        return Err(Failure::new(format!("only {} of {ncalls} handlers started ({oc:?})", started.load(Ordering::SeqCst))));
    }
    let done = Arc::new(AtomicBool::new(false));
    let d2 = done.clone();
    // now and then a second handle shuts down gracefully at the same time: both must complete
    let twin = if src.chance(100) { Some(conn.clone()) } else { None };
    let twins = twin.is_some();
    let done_twin = Arc::new(AtomicBool::new(!twins));
    let sd2 = twin.map(|c| {
        let d3 = done_twin.clone();
        sched.spawn("shutdown-twin", async move {
            c.graceful_shutdown().await;
            d3.store(true, Ordering::SeqCst);
        })
    });
    let sd = sched.spawn("shutdown", async move {
        conn.graceful_shutdown().await;
        d2.store(true, Ordering::SeqCst);
    });
    // with the handlers gated, shutdown must stay pending
    let extra = src.below(40) as u64;
    let mut k = 0u64;
    let oc = sched.run(&mut || sch.next(), 100_000, &mut |_| {
        k += 1;
        k > 200 + extra
    });
    let _ = oc;
    let replies_before = {
        peer.pump();
        peer.out.iter().filter(|m| m.mtype == msg::T_RETURN).count()
    };
    if done.load(Ordering::SeqCst) {
        return Err(Failure::new(format!("graceful_shutdown() completed while {ncalls} method handler(s) were still running ({replies_before} replies written)")));
    }
    if sh.lock().unwrap().write_dropped {
        return Err(Failure::new("the transport was closed while method handlers were still running"));
    }
    gate.open();
    let oc = sched.run(&mut || sch.next(), 400_000, &mut |s| s.done(sd) && sd2.map(|a| s.done(a)).unwrap_or(true));
    peer.pump();
    let replies: Vec<u32> = peer.out.iter().filter(|m| m.mtype == msg::T_RETURN).filter_map(|m| match m.body.first() { Some(RVal::U(x)) => Some(*x), _ => None }).collect();
    if oc != Outcome::Goal {
        return Err(Failure::new(format!("graceful_shutdown() never completes after the handlers finished ({oc:?}; first handle done: {}, second handle shutting down at the same time: {twins}, done: {}); handlers finished: {}, replies written: {replies:?}", done.load(Ordering::SeqCst), done_twin.load(Ordering::SeqCst), finished.load(Ordering::SeqCst))));
    }
    let mut want: Vec<u32> = (0..ncalls).map(|i| 10 * i as u32 + 1).collect();
    let mut got = replies.clone();
    got.sort();
    want.sort();
    if got != want {
        return Err(Failure::new(format!("graceful_shutdown() completed but the replies written are {replies:?}, expected {want:?}")));
    }
    sched.kill(ticker);
    let st = sh.lock().unwrap();
    if !(st.read_dropped && st.write_dropped) {
        return Err(Failure::new("graceful_shutdown() completed but the transport is not closed"));
    }
    drop(st);
    obs.label("graceful-shutdown");
    if twins {
        obs.label("two-handles-shutting-down-at-once");
    }
    obs.nontrivial(fnv(format!("{ncalls}{extra}{}", sched.steps).as_bytes()));
    obs.sample("shutdown", || format!("{ncalls} gated handler(s); shutdown pending while gated, completed after the replies {replies:?}"));
    Ok(())
}
