//! C23: addresses round-trip through their string form; parsing percent-decodes every value.

use std::ffi::OsString;
use std::os::unix::ffi::{OsStrExt, OsStringExt};
use std::path::PathBuf;
use std::str::FromStr;
use vcore::refmodel::addr::{self, RAddr};
use vcore::run::{CaseResult, Failure, Obs};
use vcore::src::{fnv, Src};
use zbus::address::transport::{Tcp, TcpTransportFamily, Transport, Unix, UnixSocket, Unixexec};
use zbus::Address;

fn gen_bytes(src: &mut Src, nonempty: bool) -> Vec<u8> {
    let n = if nonempty { 1 + src.below(12) } else { src.below(12) };
    (0..n)
        .map(|_| match src.below(6) {
            0 => *src.pick(b"/tmp/abc.sock_-*\\"),
            1 => *src.pick(b" ,=%:;'\"+~"),
            2 => 0x80 + src.below(128) as u8,
            3 => 1 + src.below(31) as u8,
            _ => b'a' + src.below(26) as u8,
        })
        .collect()
}

fn gen_text(src: &mut Src) -> String {
    let n = 1 + src.below(10);
    (0..n)
        .map(|_| match src.below(5) {
            0 => *src.pick(&[' ', ',', '=', '%', ':', 'é', '日']),
            1 => *src.pick(&['.', '-', '_', '0', '9']),
            _ => (b'a' + src.below(26) as u8) as char,
        })
        .collect()
}

const GUID: &str = "0123456789abcdef0123456789abcdef";

pub fn gen_address(src: &mut Src) -> (Address, String) {
    let t = match src.below(7) {
        0 => Transport::Unix(Unix::new(UnixSocket::File(PathBuf::from(OsString::from_vec(gen_bytes(src, true)))))),
        1 => Transport::Unix(Unix::new(UnixSocket::Abstract(OsString::from_vec(gen_bytes(src, true))))),
        2 => Transport::Unix(Unix::new(UnixSocket::Dir(PathBuf::from(OsString::from_vec(gen_bytes(src, true)))))),
        3 => Transport::Unix(Unix::new(UnixSocket::TmpDir(PathBuf::from(OsString::from_vec(gen_bytes(src, true)))))),
        4 => {
            let path = PathBuf::from(OsString::from_vec(gen_bytes(src, true)));
            let arg0 = if src.bool() { Some(OsString::from_vec(gen_bytes(src, true))) } else { None };
            // (ten and more arguments too: argv10 sorts before argv2 as a string)
            let n = if src.chance(50) { 9 + src.below(5) } else { src.below(4) };
            let args = (0..n).map(|_| OsString::from_vec(gen_bytes(src, true))).collect();
            Transport::Unixexec(Unixexec::new(path, arg0, args))
        }
        _ => {
            let host = if src.bool() { "localhost".to_string() } else { gen_text(src) };
            let mut tcp = Tcp::new(&host, src.u16());
            if src.bool() {
                tcp = tcp.set_family(Some(if src.bool() { TcpTransportFamily::Ipv4 } else { TcpTransportFamily::Ipv6 }));
            }
            if src.chance(80) {
                tcp = tcp.set_nonce_file(Some(gen_bytes(src, true)));
            }
            if src.chance(50) {
                tcp = tcp.set_bind(Some(gen_text(src)));
            }
            Transport::Tcp(tcp)
        }
    };
    let mut a = Address::new(t);
    if src.chance(80) {
        a = a.set_guid(zbus::OwnedGuid::from(zbus::Guid::try_from(GUID).expect("guid"))).expect("guid");
    }
    let d = format!("{a:?}");
    (a, d)
}

pub fn c23_value_case(src: &mut Src, obs: &mut Obs) -> CaseResult {
    let (a, dbg) = gen_address(src);
    let s = a.to_string();
    let special = s.contains('%');
    let key = |a: &Address| -> Option<String> {
        match a.transport() {
            Transport::Tcp(t) if t.bind().is_some() => Some("address-tcp-bind-printed-but-rejected".into()),
            _ => None,
        }
    };
    // the string must be a valid address per the specification
    let r = match addr::parse(&s) {
        Ok(r) => r,
        Err(e) => return Err(Failure::new(format!("the string form {s:?} of {dbg} is not a valid D-Bus address: {e}"))),
    };
    let _ = r;
    match Address::from_str(&s) {
        Ok(back) => {
            if back != a {
                return Err(Failure { key: if special { Some("address-values-not-percent-decoded".into()) } else { key(&a) }, msg: format!("parse(format(a)) != a: a={dbg} string={s:?} parsed back={back:?}") });
            }
        }
        Err(e) => {
            return Err(Failure { key: key(&a), msg: format!("the string form {s:?} of {dbg} does not parse: {e}") });
        }
    }
    obs.label(match a.transport() {
        Transport::Unix(_) => "unix",
        Transport::Unixexec(_) => "unixexec",
        Transport::Tcp(t) if t.nonce_file().is_some() => "nonce-tcp",
        _ => "tcp",
    });
    if special {
        obs.nontrivial(fnv(s.as_bytes()));
        obs.sample(if matches!(a.transport(), Transport::Tcp(_)) { "tcp" } else { "unix" }, || format!("{dbg} <-> {s:?}"));
    }
    Ok(())
}

/// address strings from the specification grammar, with escapes also of characters that need none
pub fn c23_string_case(src: &mut Src, obs: &mut Obs) -> CaseResult {
    let kind = src.below(7);
    let mut opts: Vec<(String, Vec<u8>)> = vec![];
    let transport;
    match kind {
        0 => {
            transport = "unix";
            opts.push(("path".into(), gen_bytes(src, true)));
        }
        1 => {
            transport = "unix";
            opts.push(("abstract".into(), gen_bytes(src, true)));
        }
        2 => {
            transport = "unix";
            opts.push((if src.bool() { "dir" } else { "tmpdir" }.into(), gen_bytes(src, true)));
        }
        3 => {
            transport = "unixexec";
            opts.push(("path".into(), gen_bytes(src, true)));
            if src.bool() {
                opts.push(("argv0".into(), gen_bytes(src, true)));
            }
            for i in 0..src.below(3) {
                opts.push((format!("argv{}", i + 1), gen_bytes(src, true)));
            }
        }
        4 => {
            transport = "nonce-tcp";
            opts.push(("host".into(), gen_text(src).into_bytes()));
            opts.push(("port".into(), format!("{}", src.u16()).into_bytes()));
            opts.push(("noncefile".into(), gen_bytes(src, true)));
        }
        _ => {
            transport = "tcp";
            opts.push(("host".into(), gen_text(src).into_bytes()));
            opts.push(("port".into(), format!("{}", src.u16()).into_bytes()));
            if src.bool() {
                opts.push(("family".into(), if src.bool() { b"ipv4".to_vec() } else { b"ipv6".to_vec() }));
            }
        }
    }
    if src.chance(60) {
        opts.push(("guid".into(), GUID.as_bytes().to_vec()));
    }
    // option order is free
    if src.bool() && opts.len() > 1 {
        let i = src.below(opts.len());
        opts.swap(0, i);
    }
    let ra = RAddr { transport: transport.to_string(), opts };
    let over = src.below(3);
    let upper = src.bool();
    let s = addr::print(&ra, &|c| over == 1 && c.is_ascii_alphabetic() || over == 2 && c == b'/', upper);
    let a = match Address::from_str(&s) {
        Ok(a) => a,
        Err(e) => return Err(Failure::new(format!("a valid address string is rejected: {s:?} ({e})"))),
    };
    let get = |k: &str| ra.get(k).map(|v| v.to_vec());
    let bytes_of = |p: &std::path::Path| p.as_os_str().as_bytes().to_vec();
    let mismatch = |what: &str, got: Vec<u8>, want: Vec<u8>| -> Result<(), Failure> {
        if got != want {
            let escaped = s.contains('%');
            return Err(Failure { key: if escaped { Some("address-values-not-percent-decoded".into()) } else { None }, msg: format!("{what} of {s:?} is {:?}, expected {:?}", String::from_utf8_lossy(&got), String::from_utf8_lossy(&want)) });
        }
        Ok(())
    };
    match a.transport() {
        Transport::Unix(u) => match u.path() {
            UnixSocket::File(p) => mismatch("path", bytes_of(p), get("path").unwrap_or_default())?,
            UnixSocket::Abstract(n) => mismatch("abstract", n.as_bytes().to_vec(), get("abstract").unwrap_or_default())?,
            UnixSocket::Dir(p) => mismatch("dir", bytes_of(p), get("dir").unwrap_or_default())?,
            UnixSocket::TmpDir(p) => mismatch("tmpdir", bytes_of(p), get("tmpdir").unwrap_or_default())?,
            _ => {}
        },
        Transport::Unixexec(x) => {
            mismatch("path", bytes_of(x.path()), get("path").unwrap_or_default())?;
            mismatch("argv0", x.arg0().map(|a| a.as_bytes().to_vec()).unwrap_or_default(), get("argv0").unwrap_or_default())?;
            for (i, arg) in x.args().iter().enumerate() {
                mismatch(&format!("argv{}", i + 1), arg.as_bytes().to_vec(), get(&format!("argv{}", i + 1)).unwrap_or_default())?;
            }
        }
        Transport::Tcp(t) => {
            mismatch("host", t.host().as_bytes().to_vec(), get("host").unwrap_or_default())?;
            mismatch("noncefile", t.nonce_file().map(|x| x.to_vec()).unwrap_or_default(), get("noncefile").unwrap_or_default())?;
            let port: u16 = String::from_utf8(get("port").unwrap()).unwrap().parse().unwrap();
            if t.port() != port {
                return Err(Failure::new(format!("port of {s:?} is {}", t.port())));
            }
        }
        _ => {}
    }
    if a.guid().map(|g| g.as_str().to_string()) != get("guid").map(|g| String::from_utf8(g).unwrap()) {
        return Err(Failure::new(format!("guid of {s:?} is {:?}", a.guid())));
    }
    obs.label(transport);
    if s.contains('%') {
        obs.nontrivial(fnv(s.as_bytes()));
        obs.sample(transport, || format!("{s:?} -> {a:?}"));
    }
    Ok(())
}
