//! C34: introspection documents round-trip through the zbus_xml model.

use vcore::gen::*;
use vcore::run::{CaseResult, Failure, Obs};
use vcore::src::{fnv, Src};
use vcore::vensure;
use zbus_xml::{ArgDirection, Node, PropertyAccess};

#[derive(Debug, Clone, PartialEq)]
pub struct GAnn {
    name: String,
    value: String,
}
#[derive(Debug, Clone, PartialEq)]
pub struct GArg {
    name: Option<String>,
    ty: String,
    dir: Option<bool>,
    anns: Vec<GAnn>,
}
#[derive(Debug, Clone, PartialEq)]
pub struct GMember {
    name: String,
    args: Vec<GArg>,
    anns: Vec<GAnn>,
}
#[derive(Debug, Clone, PartialEq)]
pub struct GProp {
    name: String,
    ty: String,
    access: u8,
    anns: Vec<GAnn>,
}
#[derive(Debug, Clone, PartialEq)]
pub struct GIface {
    name: String,
    methods: Vec<GMember>,
    props: Vec<GProp>,
    signals: Vec<GMember>,
    anns: Vec<GAnn>,
}
#[derive(Debug, Clone, PartialEq)]
pub struct GNode {
    name: Option<String>,
    ifaces: Vec<GIface>,
    nodes: Vec<GNode>,
}

fn gen_text(src: &mut Src) -> String {
    let n = src.below(8);
    (0..n)
        .map(|_| match src.below(6) {
            0 => src.pick(&["<", ">", "&", "\"", "'", "&amp;", "]]>", "--", "<!--"]).to_string(),
            1 => src.pick(&["é", "日本", " ", "  ", "\u{a0}"]).to_string(),
            _ => ((b'a' + src.below(26) as u8) as char).to_string(),
        })
        .collect::<String>()
        .trim()
        .to_string()
}

fn gen_anns(src: &mut Src) -> Vec<GAnn> {
    let n = src.weighted(&[6, 3, 1]);
    (0..n)
        .map(|_| GAnn {
            name: if src.bool() { "org.freedesktop.DBus.Deprecated".into() } else { gen_interface_name(src) },
            value: if src.below(4) == 0 { "true".into() } else { gen_text(src) },
        })
        .collect()
}

fn gen_type(src: &mut Src) -> String {
    let mut fuel = 1 + src.below(4);
    let t = gen_sig(src, &SigOpts { maybe: false, fd: true, variant: true, max_depth: 3 }, 0, &mut fuel).to_string();
    // now and then a structure with exactly one field (its parentheses are part of the type)
    if src.chance(30) {
        format!("({t})")
    } else {
        t
    }
}

fn gen_args(src: &mut Src, signal: bool) -> Vec<GArg> {
    let n = src.below(4);
    (0..n)
        .map(|_| GArg {
            name: if src.below(3) == 0 { None } else if src.below(5) == 0 { Some(if src.chance(60) { String::new() } else { gen_text(src) }) } else { Some(gen_member_name(src)) },
            ty: gen_type(src),
            dir: if src.below(3) == 0 { None } else if signal { Some(false) } else { Some(src.bool()) },
            anns: if src.below(4) == 0 { gen_anns(src) } else { vec![] },
        })
        .collect()
}

fn gen_iface(src: &mut Src) -> GIface {
    GIface {
        name: gen_interface_name(src),
        methods: (0..src.below(4)).map(|_| GMember { name: gen_member_name(src), args: gen_args(src, false), anns: gen_anns(src) }).collect(),
        props: (0..src.below(3)).map(|_| GProp { name: gen_member_name(src), ty: gen_type(src), access: src.below(3) as u8, anns: gen_anns(src) }).collect(),
        signals: (0..src.below(3)).map(|_| GMember { name: gen_member_name(src), args: gen_args(src, true), anns: gen_anns(src) }).collect(),
        anns: gen_anns(src),
    }
}

pub fn gen_node(src: &mut Src, depth: usize) -> GNode {
    GNode {
        name: if depth == 0 { if src.chance(24) { Some(String::new()) } else if src.bool() { Some(gen_object_path(src)) } else { None } } else { Some(gen_path_element(src)) },
        ifaces: (0..src.below(3)).map(|_| gen_iface(src)).collect(),
        nodes: if depth < 2 { (0..src.below(3)).map(|_| gen_node(src, depth + 1)).collect() } else { vec![] },
    }
}

fn esc(s: &str) -> String {
    s.replace('&', "&amp;").replace('<', "&lt;").replace('>', "&gt;").replace('"', "&quot;").replace('\'', "&apos;")
}

fn w_anns(out: &mut String, a: &[GAnn], ind: &str) {
    for x in a {
        out.push_str(&format!("{ind}<annotation name=\"{}\" value=\"{}\"/>\n", esc(&x.name), esc(&x.value)));
    }
}
fn w_args(out: &mut String, a: &[GArg], ind: &str) {
    for x in a {
        out.push_str(&format!("{ind}<arg"));
        if let Some(n) = &x.name {
            out.push_str(&format!(" name=\"{}\"", esc(n)));
        }
        out.push_str(&format!(" type=\"{}\"", esc(&x.ty)));
        if let Some(d) = x.dir {
            out.push_str(&format!(" direction=\"{}\"", if d { "in" } else { "out" }));
        }
        if x.anns.is_empty() {
            out.push_str("/>\n");
        } else {
            out.push_str(">\n");
            w_anns(out, &x.anns, &format!("{ind}  "));
            out.push_str(&format!("{ind}</arg>\n"));
        }
    }
}

pub fn write_xml(n: &GNode, out: &mut String, ind: &str, elements_interleaved: bool) {
    out.push_str(&format!("{ind}<node"));
    if let Some(name) = &n.name {
        out.push_str(&format!(" name=\"{}\"", esc(name)));
    }
    out.push_str(">\n");
    let i2 = format!("{ind}  ");
    let i3 = format!("{ind}    ");
    for f in &n.ifaces {
        out.push_str(&format!("{i2}<interface name=\"{}\">\n", esc(&f.name)));
        let mut chunks: Vec<String> = vec![];
        for m in &f.methods {
            let mut s = format!("{i3}<method name=\"{}\">\n", esc(&m.name));
            w_args(&mut s, &m.args, &format!("{i3}  "));
            w_anns(&mut s, &m.anns, &format!("{i3}  "));
            s.push_str(&format!("{i3}</method>\n"));
            chunks.push(s);
        }
        for p in &f.props {
            let mut s = format!("{i3}<property name=\"{}\" type=\"{}\" access=\"{}\"", esc(&p.name), esc(&p.ty), ["read", "write", "readwrite"][p.access as usize]);
            if p.anns.is_empty() {
                s.push_str("/>\n");
            } else {
                s.push_str(">\n");
                w_anns(&mut s, &p.anns, &format!("{i3}  "));
                s.push_str(&format!("{i3}</property>\n"));
            }
            chunks.push(s);
        }
        for m in &f.signals {
            let mut s = format!("{i3}<signal name=\"{}\">\n", esc(&m.name));
            w_args(&mut s, &m.args, &format!("{i3}  "));
            w_anns(&mut s, &m.anns, &format!("{i3}  "));
            s.push_str(&format!("{i3}</signal>\n"));
            chunks.push(s);
        }
        let mut a = String::new();
        w_anns(&mut a, &f.anns, &i3);
        if !a.is_empty() {
            chunks.push(a);
        }
        if elements_interleaved && chunks.len() > 2 {
            // the DTD allows methods, signals, properties and annotations in any order: round-robin
            // over the kinds, keeping the order within each kind
            let nm = f.methods.len();
            let np = f.props.len();
            let ns = f.signals.len();
            let mut queues: Vec<std::collections::VecDeque<String>> = vec![
                chunks[..nm].iter().cloned().collect(),
                chunks[nm..nm + np].iter().cloned().collect(),
                chunks[nm + np..nm + np + ns].iter().cloned().collect(),
                chunks[nm + np + ns..].iter().cloned().collect(),
            ];
            queues.reverse();
            let mut out2 = vec![];
            while queues.iter().any(|q| !q.is_empty()) {
                for q in queues.iter_mut() {
                    if let Some(c) = q.pop_front() {
                        out2.push(c);
                    }
                }
            }
            chunks = out2;
        }
        for c in chunks {
            out.push_str(&c);
        }
        out.push_str(&format!("{i2}</interface>\n"));
    }
    for c in &n.nodes {
        write_xml(c, out, &i2, elements_interleaved);
    }
    out.push_str(&format!("{ind}</node>\n"));
}

fn cmp_anns(got: &[zbus_xml::Annotation], want: &[GAnn], ctx: &str) -> Result<(), Failure> {
    vensure!(got.len() == want.len(), "{ctx}: {} annotations, expected {}", got.len(), want.len());
    for (g, w) in got.iter().zip(want) {
        vensure!(g.name() == w.name && g.value() == w.value, "{ctx}: annotation ({:?},{:?}) != ({:?},{:?})", g.name(), g.value(), w.name, w.value);
    }
    Ok(())
}
fn cmp_args(got: &[zbus_xml::Arg], want: &[GArg], ctx: &str) -> Result<(), Failure> {
    vensure!(got.len() == want.len(), "{ctx}: {} args, expected {}", got.len(), want.len());
    for (g, w) in got.iter().zip(want) {
        vensure!(g.name() == w.name.as_deref(), "{ctx}: arg name {:?} != {:?}", g.name(), w.name);
        vensure!(g.ty().to_string() == w.ty, "{ctx}: arg type {} != {}", g.ty().to_string(), w.ty);
        let d = g.direction().map(|d| matches!(d, ArgDirection::In));
        vensure!(d == w.dir, "{ctx}: arg direction {:?} != {:?}", d, w.dir);
        cmp_anns(g.annotations(), &w.anns, ctx)?;
    }
    Ok(())
}

/// compare the model's accessors with the generated tree; member order within a kind is kept,
/// kinds may have been interleaved in the text
pub fn cmp_node(got: &Node<'_>, want: &GNode, ctx: &str) -> Result<(), Failure> {
    vensure!(got.name() == want.name.as_deref(), "{ctx}: node name {:?} != {:?}", got.name(), want.name);
    vensure!(got.interfaces().len() == want.ifaces.len(), "{ctx}: {} interfaces, expected {}", got.interfaces().len(), want.ifaces.len());
    for (g, w) in got.interfaces().iter().zip(&want.ifaces) {
        let c = format!("{ctx}/{}", w.name);
        vensure!(g.name().as_str() == w.name, "{c}: interface name {}", g.name());
        vensure!(g.methods().len() == w.methods.len() && g.signals().len() == w.signals.len() && g.properties().len() == w.props.len(), "{c}: member counts differ");
        for (gm, wm) in g.methods().iter().zip(&w.methods) {
            vensure!(gm.name().as_str() == wm.name, "{c}: method name {} != {}", gm.name(), wm.name);
            cmp_args(gm.args(), &wm.args, &c)?;
            cmp_anns(gm.annotations(), &wm.anns, &c)?;
        }
        for (gm, wm) in g.signals().iter().zip(&w.signals) {
            vensure!(gm.name().as_str() == wm.name, "{c}: signal name {} != {}", gm.name(), wm.name);
            cmp_args(gm.args(), &wm.args, &c)?;
            cmp_anns(gm.annotations(), &wm.anns, &c)?;
        }
        for (gp, wp) in g.properties().iter().zip(&w.props) {
            vensure!(gp.name().as_str() == wp.name && gp.ty().to_string() == wp.ty, "{c}: property {} {} != {} {}", gp.name(), gp.ty().to_string(), wp.name, wp.ty);
            let a = match gp.access() {
                PropertyAccess::Read => 0,
                PropertyAccess::Write => 1,
                PropertyAccess::ReadWrite => 2,
            };
            vensure!(a == wp.access, "{c}: property access differs");
            cmp_anns(gp.annotations(), &wp.anns, &c)?;
        }
        cmp_anns(g.annotations(), &w.anns, &c)?;
    }
    vensure!(got.nodes().len() == want.nodes.len(), "{ctx}: {} child nodes, expected {}", got.nodes().len(), want.nodes.len());
    for (g, w) in got.nodes().iter().zip(&want.nodes) {
        cmp_node(g, w, &format!("{ctx}/{}", w.name.clone().unwrap_or_default()))?;
    }
    Ok(())
}

pub fn c34_case(src: &mut Src, obs: &mut Obs) -> CaseResult {
    let tree = gen_node(src, 0);
    let interleave = src.chance(60);
    let mut xml = String::from("<!DOCTYPE node PUBLIC \"-//freedesktop//DTD D-BUS Object Introspection 1.0//EN\" \"http://www.freedesktop.org/standards/dbus/1.0/introspect.dtd\">\n");
    write_xml(&tree, &mut xml, "", interleave);
    let n = match Node::try_from(xml.as_str()) {
        Ok(n) => n,
        Err(e) => return Err(Failure::new(format!("a well-formed introspection document is rejected: {e}\n{xml}"))),
    };
    cmp_node(&n, &tree, "").map_err(|f| Failure { key: f.key, msg: format!("{} ; document:\n{xml}", f.msg) })?;
    // value -> text -> value
    let mut out = vec![];
    n.to_writer(&mut out).map_err(|e| Failure::new(format!("to_writer failed: {e} for\n{xml}")))?;
    let text = String::from_utf8(out).map_err(|_| Failure::new("to_writer produced invalid UTF-8"))?;
    let back = match Node::try_from(text.as_str()) {
        Ok(b) => b,
        Err(e) => return Err(Failure::new(format!("the written document does not read back: {e}\nwritten:\n{text}\noriginal:\n{xml}"))),
    };
    if back != n {
        return Err(Failure::new(format!("write -> read changed the value\nwritten:\n{text}\noriginal:\n{xml}")));
    }
    cmp_node(&back, &tree, "").map_err(|f| Failure { key: f.key, msg: format!("after write -> read: {} ; written:\n{text}", f.msg) })?;
    // from_reader agrees with try_from
    let r = Node::from_reader(xml.as_bytes()).map_err(|e| Failure::new(format!("from_reader failed: {e}")))?;
    if r != n {
        return Err(Failure::new(format!("from_reader and try_from disagree on\n{xml}")));
    }
    let special_ann = xml.contains("&lt;") || xml.contains("&amp;") || xml.contains("&quot;") || xml.contains("&apos;");
    let bare_arg = xml.contains("<arg type=");
    obs.label(if special_ann { "special-characters" } else { "plain" });
    if interleave {
        obs.label("interleaved-elements");
    }
    if special_ann && bare_arg {
        obs.nontrivial(fnv(xml.as_bytes()));
        obs.sample("special", || xml.chars().take(500).collect());
    }
    Ok(())
}
