//! C29 (spawn = false handles calls in arrival order) and C30 (object server use from handlers and
//! right after setup does not hang).

use crate::c_drop::Gate;
use crate::env::*;
use crate::sched::*;
use std::sync::{Arc, Mutex};
use vcore::refmodel::msg::{self, RMsg};
use vcore::refmodel::val::RVal;
use vcore::run::{CaseResult, Failure, Obs};
use vcore::src::{fnv, Src};
use zbus::object_server::SignalEmitter;
use zbus::ObjectServer;

#[derive(Clone, Default)]
pub struct Log(pub Arc<Mutex<Vec<(char, u32)>>>);

pub struct Seq {
    pub log: Log,
    pub gates: Vec<Gate>,
}
pub struct Par {
    pub log: Log,
    pub gates: Vec<Gate>,
}

async fn work(log: &Log, gates: &[Gate], id: u32, yields: u32, gated: bool) -> u32 {
    log.0.lock().unwrap().push(('s', id));
    for _ in 0..yields {
        yield_now().await;
    }
    if gated {
        gates[id as usize % gates.len()].wait().await;
    }
    log.0.lock().unwrap().push(('e', id));
    id
}

#[zbus::interface(name = "c29.Seq", spawn = false)]
impl Seq {
    async fn work(&self, id: u32, yields: u32, gated: bool) -> u32 {
        work(&self.log, &self.gates, id, yields, gated).await
    }
    async fn work_mut(&mut self, id: u32, yields: u32, gated: bool) -> u32 {
        work(&self.log, &self.gates, id, yields, gated).await
    }
}

#[zbus::interface(name = "c29.Par")]
impl Par {
    async fn work(&self, id: u32, yields: u32, gated: bool) -> u32 {
        work(&self.log, &self.gates, id, yields, gated).await
    }
    async fn work_mut(&mut self, id: u32, yields: u32, gated: bool) -> u32 {
        work(&self.log, &self.gates, id, yields, gated).await
    }
}

pub fn c29_case(src: &mut Src, obs: &mut Obs) -> CaseResult {
    let Some((conn, sh)) = new_p2p(None) else { return Err(Failure::new("harness: connection")) };
    let mut sched = Sched::new();
    sched.spawn_ticker("exec", conn.executor().clone());
    let sb = src.bytes(20);
    let mut sch = Sch::new(sb);
    let seq = src.chance(180);
    // now and then a burst longer than the queue of pending calls (64): calls wait in the transport,
    // none may be dropped
    let big = src.chance(20);
    let k = if big { 65 + src.below(40) } else { 1 + src.below(8) };
    let gates: Vec<Gate> = (0..k).map(|_| Gate::default()).collect();
    let log = Log::default();
    let c = conn.clone();
    let (l2, g2) = (log.clone(), gates.clone());
    let a = sched.spawn("serve", async move {
        if seq {
            c.object_server().at("/c29", Seq { log: l2, gates: g2 }).await.expect("at");
        } else {
            c.object_server().at("/c29", Par { log: l2, gates: g2 }).await.expect("at");
        }
    });
    if sched.run(&mut || sch.next(), 100_000, &mut |s| s.done(a)) != Outcome::Goal {
        return Err(Failure::new("registering the interface does not complete"));
    }
    let _ = sched.run(&mut || sch.next(), 100_000, &mut |_| false);
    let mut peer = Peer::new(sh, false);
    let iface = if seq { "c29.Seq" } else { "c29.Par" };
    let mut calls: Vec<(RMsg, u32, bool)> = vec![];
    let mut ys = vec![];
    for id in 0..k as u32 {
        let yields = if big { 0 } else { src.below(6) as u32 };
        let gated = !big && src.chance(60);
        let member = if src.chance(60) { "WorkMut" } else { "Work" };
        let mut m = peer.call("/c29", Some(iface), member, vec![RVal::U(id), RVal::U(yields), RVal::B(gated)]);
        // some calls expect no reply: they are handled like the others (in order, when the interface
        // does not spawn), only unanswered
        if src.chance(60) {
            m.flags |= 1;
        }
        calls.push((m, yields, gated));
        ys.push(yields);
    }
    // the burst arrives in one chunk or call by call
    if src.bool() {
        let mut all = vec![];
        for (m, _, _) in &calls {
            all.extend_from_slice(&m.build().bytes);
        }
        feed(&peer.sh, all, vec![]);
    } else {
        for (m, _, _) in &calls {
            peer.send(m);
        }
    }
    // open the gates in a generated order, each after things have come to rest
    let mut order: Vec<usize> = (0..k).collect();
    for i in (1..k).rev() {
        let j = src.below(i + 1);
        order.swap(i, j);
    }
    let mut opened = 0usize;
    let want = calls.iter().filter(|c| c.0.flags & 1 == 0).count();
    let log_done = log.clone();
    let all_finished = move || log_done.0.lock().unwrap().iter().filter(|e| e.0 == 'e').count() >= k;
    sched.idle_grace = 1;
    let oc = sched.run(&mut || sch.next(), 600_000, &mut |s| {
        peer.pump();
        let replies = peer.out.iter().filter(|m| m.mtype == msg::T_RETURN || m.mtype == msg::T_ERROR).count();
        if replies >= want && all_finished() {
            return true;
        }
        // when nothing is runnable, open the next gate
        if s.actors.iter().all(|a| a.daemon || a.polls > 0) && opened < order.len() {
            let nothing_runnable = true;
            if nothing_runnable {
                // (opening early is harmless: gates only ever delay)
            }
        }
        false
    });
    // the run above ends at quiescence when handlers wait on gates: open them one by one
    let mut oc = oc;
    while oc != Outcome::Goal && opened < order.len() {
        gates[order[opened]].open();
        opened += 1;
        let lg2 = log.clone();
        oc = sched.run(&mut || sch.next(), 600_000, &mut |_| {
            peer.pump();
            peer.out.iter().filter(|m| m.mtype == msg::T_RETURN || m.mtype == msg::T_ERROR).count() >= want && lg2.0.lock().unwrap().iter().filter(|e| e.0 == 'e').count() >= k
        });
    }
    let lg = log.0.lock().unwrap().clone();
    let describe = || format!("{} interface, {k} calls (yields {ys:?}, gated {:?}, no reply expected {:?}), gate order {order:?}, log {lg:?}", if seq { "spawn=false" } else { "spawn=true" }, calls.iter().map(|c| c.2).collect::<Vec<_>>(), calls.iter().map(|c| c.0.flags & 1 == 1).collect::<Vec<_>>());
    if oc != Outcome::Goal {
        let n = peer.out.iter().filter(|m| m.mtype == msg::T_RETURN || m.mtype == msg::T_ERROR).count();
        return Err(Failure::new(format!("only {n} of {k} calls were answered ({oc:?}); {}", describe())));
    }
    // exactly one reply per call, carrying its id
    for (i, (m, _, _)) in calls.iter().enumerate() {
        let rs: Vec<&RMsg> = peer.out.iter().filter(|r| r.get(msg::F_REPLY_SERIAL) == Some(&RVal::U(m.serial))).collect();
        if m.flags & 1 == 1 {
            if !rs.is_empty() {
                return Err(Failure::new(format!("call {i} expects no reply but got {rs:?}; {}", describe())));
            }
            continue;
        }
        if rs.len() != 1 || rs[0].mtype != msg::T_RETURN || rs[0].body.first() != Some(&RVal::U(i as u32)) {
            return Err(Failure::new(format!("call {i} got replies {rs:?}; {}", describe())));
        }
    }
    if seq {
        let want_log: Vec<(char, u32)> = (0..k as u32).flat_map(|i| [('s', i), ('e', i)]).collect();
        if lg != want_log {
            return Err(Failure::new(format!("with task spawning disabled the handlers did not run one after another in arrival order; {}", describe())));
        }
    }
    obs.label(if seq { "spawn=false" } else { "spawn=true" });
    if big {
        obs.label("burst-longer-than-the-call-queue");
    }
    let earlier_yields_more = (0..k).any(|i| (i + 1..k).any(|j| ys[i] > ys[j]));
    if k >= 3 && earlier_yields_more {
        obs.nontrivial(fnv(describe().as_bytes()));
        obs.sample(if seq { "sequential" } else { "parallel" }, describe);
    }
    Ok(())
}

// ------------------------------------------------------------------------------------------------
// C30

pub struct Leaf(pub u32);
#[zbus::interface(name = "c30.Leaf")]
impl Leaf {
    fn id(&self) -> u32 {
        self.0
    }
}

pub struct Reenter {
    pub value: u32,
}

macro_rules! reenter_impl {
    ($name:literal $(, $spawn:ident = $val:literal)?) => {
        #[zbus::interface(name = $name $(, $spawn = $val)?)]
        impl Reenter {
            async fn add(&self, path: &str, #[zbus(object_server)] server: &ObjectServer) -> zbus::fdo::Result<bool> {
                server.at(path.to_string(), Leaf(1)).await.map_err(|e| zbus::fdo::Error::Failed(e.to_string()))
            }
            async fn del(&self, path: &str, #[zbus(object_server)] server: &ObjectServer) -> zbus::fdo::Result<bool> {
                server.remove::<Leaf, _>(path.to_string()).await.map_err(|e| zbus::fdo::Error::Failed(e.to_string()))
            }
            async fn emit(&self, #[zbus(signal_emitter)] emitter: SignalEmitter<'_>) -> zbus::fdo::Result<()> {
                Self::poked(&emitter, 5).await.map_err(|e| zbus::fdo::Error::Failed(e.to_string()))
            }
            async fn add_mut(&mut self, path: &str, #[zbus(object_server)] server: &ObjectServer) -> zbus::fdo::Result<bool> {
                self.value += 1;
                server.at(path.to_string(), Leaf(2)).await.map_err(|e| zbus::fdo::Error::Failed(e.to_string()))
            }
            /// a `&mut self` handler that does something else first (here: lets others run) and then registers
            async fn add_mut_later(&mut self, path: &str, #[zbus(object_server)] server: &ObjectServer) -> zbus::fdo::Result<bool> {
                self.value += 1;
                crate::sched::yield_now().await;
                server.at(path.to_string(), Leaf(4)).await.map_err(|e| zbus::fdo::Error::Failed(e.to_string()))
            }
            /// the common `Close()` pattern: a handler that removes its own object
            async fn close(&mut self, #[zbus(object_server)] server: &ObjectServer, #[zbus(header)] hdr: zbus::message::Header<'_>) -> zbus::fdo::Result<bool> {
                self.value += 1;
                let path = hdr.path().expect("path").to_owned();
                server.remove::<Self, _>(path).await.map_err(|e| zbus::fdo::Error::Failed(e.to_string()))
            }
            async fn close_ro(&self, #[zbus(object_server)] server: &ObjectServer, #[zbus(header)] hdr: zbus::message::Header<'_>) -> zbus::fdo::Result<bool> {
                let path = hdr.path().expect("path").to_owned();
                server.remove::<Self, _>(path).await.map_err(|e| zbus::fdo::Error::Failed(e.to_string()))
            }
            #[zbus(signal)]
            async fn poked(emitter: &SignalEmitter<'_>, x: u32) -> zbus::Result<()>;
            #[zbus(property)]
            async fn probe(&self, #[zbus(object_server)] server: &ObjectServer) -> zbus::fdo::Result<u32> {
                // a getter that looks into the object server
                let there = server.interface::<_, Leaf>("/c30/getter").await.is_ok();
                if !there {
                    let _ = server.at("/c30/getter", Leaf(3)).await;
                }
                Ok(self.value)
            }
            #[zbus(property)]
            async fn knob(&self) -> u32 {
                self.value
            }
            #[zbus(property)]
            async fn set_knob(&mut self, v: u32, #[zbus(object_server)] server: &ObjectServer) -> zbus::fdo::Result<()> {
                self.value = v;
                let _ = server.at(format!("/c30/set{v}"), Leaf(v)).await;
                Ok(())
            }
        }
    };
}

mod spawned {
    use super::*;
    pub struct Reenter {
        pub value: u32,
    }
    reenter_impl!("c30.Reenter");
}
mod inline {
    use super::*;
    pub struct Reenter {
        pub value: u32,
    }
    reenter_impl!("c30.ReenterSeq", spawn = false);
}

pub fn c30_reenter_case(src: &mut Src, obs: &mut Obs) -> CaseResult {
    let Some((conn, sh)) = new_p2p(None) else { return Err(Failure::new("harness: connection")) };
    let mut sched = Sched::new();
    sched.spawn_ticker("exec", conn.executor().clone());
    let sb = src.bytes(20);
    let mut sch = Sch::new(sb);
    let seq = src.bool();
    // an object manager above the object: GetManagedObjects reads every property below it
    let managed = src.chance(128);
    let c = conn.clone();
    let a = sched.spawn("serve", async move {
        if managed {
            c.object_server().at("/", zbus::fdo::ObjectManager).await.expect("at");
        }
        if seq {
            c.object_server().at("/c30", inline::Reenter { value: 1 }).await.expect("at");
        } else {
            c.object_server().at("/c30", spawned::Reenter { value: 1 }).await.expect("at");
        }
    });
    if sched.run(&mut || sch.next(), 100_000, &mut |s| s.done(a)) != Outcome::Goal {
        return Err(Failure::new("registering the interface does not complete"));
    }
    let _ = sched.run(&mut || sch.next(), 100_000, &mut |_| false);
    let mut peer = Peer::new(sh, false);
    let iface = if seq { "c30.ReenterSeq" } else { "c30.Reenter" };
    let n = 1 + src.below(6);
    let spaced = src.bool();
    let mut calls = vec![];
    let mut kinds = vec![];
    for i in 0..n {
        // (a handler that removes its own object comes last in the burst when it comes at all)
        let kind = if i + 1 == n && src.chance(60) { 7 + src.below(2) } else { src.below(if managed { 12 } else { 11 }) };
        let kind = if i + 1 != n && (kind == 7 || kind == 8) { 9 } else { kind };
        let m = match kind {
            // calls that walk the tree (and look into every interface on the way) while handlers run
            9 => peer.call("/c30", Some("org.freedesktop.DBus.Introspectable"), "Introspect", vec![]),
            11 => peer.call("/", Some("org.freedesktop.DBus.ObjectManager"), "GetManagedObjects", vec![]),
            10 => peer.call("/c30", Some(iface), "AddMutLater", vec![RVal::S(format!("/c30/l{i}"))]),
            7 => peer.call("/c30", Some(iface), "Close", vec![]),
            8 => peer.call("/c30", Some(iface), "CloseRo", vec![]),
            0 => peer.call("/c30", Some(iface), "Add", vec![RVal::S(format!("/c30/n{i}"))]),
            1 => peer.call("/c30", Some(iface), "Del", vec![RVal::S(format!("/c30/n{}", src.below(n)))]),
            2 => peer.call("/c30", Some(iface), "Emit", vec![]),
            3 => peer.call("/c30", Some(iface), "AddMut", vec![RVal::S(format!("/c30/m{i}"))]),
            4 => peer.call("/c30", Some("org.freedesktop.DBus.Properties"), "Get", vec![RVal::S(iface.into()), RVal::S("Probe".into())]),
            5 => peer.call("/c30", Some("org.freedesktop.DBus.Properties"), "Set", vec![RVal::S(iface.into()), RVal::S("Knob".into()), RVal::V(Box::new((vcore::refmodel::sig::RSig::U, RVal::U(10 + i as u32))))]),
            _ => peer.call("/c30", Some("org.freedesktop.DBus.Properties"), "GetAll", vec![RVal::S(iface.into())]),
        };
        kinds.push(["Add", "Del", "Emit", "AddMut", "Get(Probe)", "Set(Knob)", "GetAll", "Close", "CloseRo", "Introspect", "AddMutLater", "GetManagedObjects"][kind]);
        peer.send(&m);
        calls.push(m);
        // the calls arrive together, or with the connection at work in between (an earlier handler
        // may be under way, holding its interface, when the next call is taken in)
        if spaced {
            let gap = src.below(12);
            let mut k = 0;
            let _ = sched.run(&mut || sch.next(), 10_000, &mut |_| {
                k += 1;
                k > gap
            });
        }
    }
    // now and then somebody outside the handlers looks the interface up while the calls are served
    let lookup = if src.chance(100) {
        let c = conn.clone();
        Some(sched.spawn("lookup", async move {
            if seq {
                let _ = c.object_server().interface::<_, inline::Reenter>("/c30").await;
            } else {
                let _ = c.object_server().interface::<_, spawned::Reenter>("/c30").await;
            }
        }))
    } else {
        None
    };
    // ... or puts an object manager above the object while the calls are served
    let late_manager = if !managed && src.chance(100) {
        let c = conn.clone();
        Some(sched.spawn("late-manager", async move {
            let _ = c.object_server().at("/", zbus::fdo::ObjectManager).await;
        }))
    } else {
        None
    };
    let oc = sched.run(&mut || sch.next(), 600_000, &mut |s| {
        peer.pump();
        calls.iter().all(|c| peer.out.iter().any(|r| r.get(msg::F_REPLY_SERIAL) == Some(&RVal::U(c.serial)))) && lookup.map(|l| s.done(l)).unwrap_or(true) && late_manager.map(|l| s.done(l)).unwrap_or(true)
    });
    if late_manager.is_some() {
        kinds.push("(object manager added from outside)");
    }
    if lookup.is_some() {
        kinds.push("(interface() from outside)");
    }
    let mut answered: Vec<bool> = calls.iter().map(|c| peer.out.iter().any(|r| r.get(msg::F_REPLY_SERIAL) == Some(&RVal::U(c.serial)))).collect();
    if let Some(l) = late_manager {
        answered.push(sched.done(l));
    }
    if let Some(l) = lookup {
        answered.push(sched.done(l));
    }
    let describe = || format!("{} interface, calls {kinds:?}, answered {answered:?}", if seq { "spawn=false" } else { "spawn=true" });
    if oc != Outcome::Goal {
        let stuck: Vec<&str> = kinds.iter().zip(&answered).filter(|(_, a)| !**a).map(|(k, _)| *k).collect();
        let key = if stuck.iter().all(|k| k.contains("Probe") || k.contains("Knob") || *k == "GetAll") || stuck.iter().any(|k| k.contains("Probe") || k.contains("Knob")) { Some("objsrv-property-handler-reentering-server-deadlocks".to_string()) } else { None };
        return Err(Failure { key, msg: format!("handlers that use the object server never answered {stuck:?} ({oc:?}: nothing left to run); {}", describe()) });
    }
    for (c, k) in calls.iter().zip(kinds.iter()) {
        let r = peer.out.iter().find(|r| r.get(msg::F_REPLY_SERIAL) == Some(&RVal::U(c.serial))).unwrap();
        // (once the object removes itself, calls handled after that are answered with an error)
        let closes = kinds.iter().any(|k| k.starts_with("Close"));
        if r.mtype == msg::T_ERROR && !(*k == "Del") && !closes {
            return Err(Failure::new(format!("{k} failed: {r:?}; {}", describe())));
        }
    }
    obs.label(if seq { "spawn=false" } else { "spawn=true" });
    if spaced {
        obs.label("calls-arrive-spaced-out");
    }
    for k in ["Introspect", "AddMutLater", "GetManagedObjects", "(interface() from outside)", "(object manager added from outside)"] {
        if kinds.contains(&k) {
            obs.label(k);
        }
    }
    obs.nontrivial(fnv(describe().as_bytes()));
    obs.sample(if seq { "inline" } else { "spawned" }, describe);
    Ok(())
}

/// a call arriving right after at() returned on a connection whose object server did not exist
pub fn c30_setup_case(src: &mut Src, obs: &mut Obs) -> CaseResult {
    let Some((conn, sh)) = new_p2p(None) else { return Err(Failure::new("harness: connection")) };
    let mut sched = Sched::new();
    sched.spawn_ticker("exec", conn.executor().clone());
    let sb = src.bytes(20);
    let mut sch = Sch::new(sb);
    let delay = src.below(8);
    let pre_existing = src.chance(60);
    if pre_existing {
        let _ = conn.object_server();
        let _ = sched.run(&mut || sch.next(), 50_000, &mut |_| false);
    }
    let c = conn.clone();
    let a = sched.spawn("serve", async move {
        c.object_server().at("/c30s", Leaf(9)).await.expect("at");
    });
    if sched.run(&mut || sch.next(), 100_000, &mut |s| s.done(a)) != Outcome::Goal {
        return Err(Failure::new("at() does not complete"));
    }
    // at() has returned; the call arrives `delay` scheduler steps later
    let mut k = 0;
    let _ = sched.run(&mut || sch.next(), 10_000, &mut |_| {
        k += 1;
        k > delay
    });
    let mut peer = Peer::new(sh, false);
    // other traffic arriving just before the call: nothing, a few signals, or more messages than a
    // queue of the connection holds (64 by default)
    let burst = match src.weighted(&[5, 2, 3]) {
        0 => 0,
        1 => 1 + src.below(5),
        _ => 60 + src.below(30),
    };
    for i in 0..burst {
        let m = peer.signal("/c30s", "c30.Noise", "Tick", None, vec![RVal::U(i as u32)]);
        peer.send(&m);
    }
    let call = peer.call("/c30s", Some("c30.Leaf"), "Id", vec![]);
    peer.send(&call);
    let oc = sched.run(&mut || sch.next(), 300_000, &mut |_| {
        peer.pump();
        peer.out.iter().any(|r| r.get(msg::F_REPLY_SERIAL) == Some(&RVal::U(call.serial)))
    });
    if oc != Outcome::Goal {
        let key = if !pre_existing && burst == 0 { Some("objsrv-call-right-after-on-demand-creation-lost".to_string()) } else { None };
        return Err(Failure { key, msg: format!("a method call that arrived {delay} scheduler step(s) after at() had returned, behind {burst} signal(s), was never answered ({oc:?}); object server existed before: {pre_existing}") });
    }
    let r = peer.out.iter().find(|r| r.get(msg::F_REPLY_SERIAL) == Some(&RVal::U(call.serial))).unwrap();
    if r.mtype != msg::T_RETURN || r.body.first() != Some(&RVal::U(9)) {
        return Err(Failure::new(format!("the call was answered with {r:?}")));
    }
    obs.label(if pre_existing { "server-existed" } else { "server-created-on-demand" });
    if burst > 64 {
        obs.label(if pre_existing { "call-behind-more-than-64-signals" } else { "on-demand:call-behind-more-than-64-signals" });
    }
    if !pre_existing && delay <= 3 {
        obs.nontrivial(fnv(format!("{delay}{}", sched.steps).as_bytes()));
        obs.sample("on-demand", || format!("object server created on demand, call arrives {delay} step(s) after at() returned: answered"));
    }
    Ok(())
}
