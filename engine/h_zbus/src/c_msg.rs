//! C11 (built messages re-parse identically and are well-formed per the reference parser),
//! C12 (hostile message bytes never crash), C13 (unknown fields / flags / types tolerated).

use crate::bridge::*;
use std::num::NonZeroU32;
use std::os::fd::AsRawFd;
use vcore::gen::*;
use vcore::refmodel::dbus;
use vcore::refmodel::msg::{self, MRole, RMsg};
use vcore::refmodel::val::RVal;
use vcore::run::{guarded, CaseResult, Failure, Obs};
use vcore::src::{fnv, hex, Src};
use vcore::{vensure, vfail};
use zbus::message::{Flags, Message, Type};
use zbus::zvariant::serialized::{Context, Data};
use zbus::zvariant::{Endian, Structure, Value};

pub fn so() -> SigOpts {
    SigOpts { maybe: false, fd: true, variant: true, max_depth: 4 }
}

pub struct Want {
    pub mtype: u8,
    pub flags: u8,
    pub big: bool,
    pub serial: Option<u32>,
    pub path: Option<String>,
    pub interface: Option<String>,
    pub member: Option<String>,
    pub error_name: Option<String>,
    pub reply_serial: Option<u32>,
    pub destination: Option<String>,
    pub sender: Option<String>,
    pub body: Vec<RVal>,
}

pub fn gen_want(src: &mut Src) -> Want {
    let mtype = 1 + src.below(4) as u8;
    let mut w = Want {
        mtype,
        flags: 0,
        big: src.bool(),
        serial: if src.bool() { Some(1 + (gen_u64(src) as u32 % 0xffff_fffe)) } else { None },
        path: None,
        interface: None,
        member: None,
        error_name: None,
        reply_serial: None,
        destination: None,
        sender: None,
        body: vec![],
    };
    match mtype {
        1 => {
            w.path = Some(gen_object_path(src));
            w.member = Some(gen_member_name(src));
            if src.bool() {
                w.interface = Some(gen_interface_name(src));
            }
        }
        4 => {
            w.path = Some(gen_object_path(src));
            w.interface = Some(gen_interface_name(src));
            w.member = Some(gen_member_name(src));
        }
        2 => w.reply_serial = Some(1 + (gen_u64(src) as u32 % 0xffff_fffe)),
        _ => {
            w.reply_serial = Some(1 + (gen_u64(src) as u32 % 0xffff_fffe));
            w.error_name = Some(gen_error_name(src));
        }
    }
    if src.bool() {
        w.destination = Some(gen_bus_name(src));
    }
    if src.bool() {
        w.sender = Some(gen_unique_name(src));
    }
    // flags: NoReplyExpected only on method calls (the builder refuses it elsewhere)
    let f = src.below(8) as u8;
    w.flags = if mtype == 1 { f } else { f & !1 };
    w.body = gen_body(src, &so(), &ValOpts::default());
    w
}

fn flag_list(bits: u8) -> Vec<Flags> {
    let mut v = vec![];
    if bits & 1 != 0 {
        v.push(Flags::NoReplyExpected);
    }
    if bits & 2 != 0 {
        v.push(Flags::NoAutoStart);
    }
    if bits & 4 != 0 {
        v.push(Flags::AllowInteractiveAuth);
    }
    v
}

/// Build through the zbus builder.
pub fn build_zbus(w: &Want) -> Result<Message, String> {
    let e = |x: zbus::Error| x.to_string();
    let mut b = match w.mtype {
        1 => {
            let mut b = Message::method_call(w.path.clone().unwrap(), w.member.clone().unwrap()).map_err(e)?;
            if let Some(i) = &w.interface {
                b = b.interface(i.clone()).map_err(e)?;
            }
            b
        }
        4 => Message::signal(w.path.clone().unwrap(), w.interface.clone().unwrap(), w.member.clone().unwrap()).map_err(e)?,
        2 | 3 => {
            // a call to reply to: its serial becomes the reply serial, its sender the destination
            let mut call = Message::method_call("/x", "M").map_err(e)?.serial(NonZeroU32::new(w.reply_serial.unwrap()).unwrap());
            call = call.endian(if w.big { Endian::Big } else { Endian::Little });
            let call = call.build(&()).map_err(e)?;
            let h = call.header();
            if w.mtype == 2 {
                Message::method_return(&h).map_err(e)?
            } else {
                Message::error(&h, w.error_name.clone().unwrap()).map_err(e)?
            }
        }
        _ => unreachable!(),
    };
    if let Some(d) = &w.destination {
        b = b.destination(d.clone()).map_err(e)?;
    }
    if let Some(s) = &w.sender {
        b = b.sender(s.clone()).map_err(e)?;
    }
    for f in flag_list(w.flags) {
        b = b.with_flags(f).map_err(e)?;
    }
    if let Some(s) = w.serial {
        b = b.serial(NonZeroU32::new(s).unwrap());
    }
    b = b.endian(if w.big { Endian::Big } else { Endian::Little });
    if w.body.is_empty() {
        b.build(&()).map_err(e)
    } else {
        let zv = to_value(&RVal::St(w.body.clone())).map_err(|x| x.0)?;
        let Value::Structure(st) = zv else { unreachable!() };
        b.build(&st).map_err(e)
    }
}

fn body_of(m: &Message, n_args: usize) -> Result<Vec<RVal>, String> {
    if n_args == 0 {
        return Ok(vec![]);
    }
    let body = m.body();
    let st: Structure<'_> = body.deserialize().map_err(|e| format!("body().deserialize::<Structure>() failed: {e}"))?;
    match from_value(&Value::Structure(st)).map_err(|e| e.0)? {
        RVal::St(f) => Ok(f),
        _ => Err("not a structure".into()),
    }
}

fn compare_header(m: &Message, w: &Want, how: &str) -> Result<(), Failure> {
    let h = m.header();
    let t = match h.message_type() {
        Type::MethodCall => 1,
        Type::MethodReturn => 2,
        Type::Error => 3,
        Type::Signal => 4,
    };
    vensure!(t == w.mtype, "{how}: message type {t} != {}", w.mtype);
    vensure!(m.primary_header().flags().bits() == w.flags, "{how}: flags {:#x} != {:#x}", m.primary_header().flags().bits(), w.flags);
    if let Some(s) = w.serial {
        vensure!(m.primary_header().serial_num().get() == s, "{how}: serial {} != {s}", m.primary_header().serial_num());
    }
    vensure!(h.path().map(|p| p.as_str().to_string()) == w.path, "{how}: path {:?} != {:?}", h.path(), w.path);
    vensure!(h.interface().map(|p| p.as_str().to_string()) == w.interface, "{how}: interface {:?} != {:?}", h.interface(), w.interface);
    vensure!(h.member().map(|p| p.as_str().to_string()) == w.member, "{how}: member {:?} != {:?}", h.member(), w.member);
    vensure!(h.error_name().map(|p| p.as_str().to_string()) == w.error_name, "{how}: error name {:?} != {:?}", h.error_name(), w.error_name);
    vensure!(h.reply_serial().map(|p| p.get()) == w.reply_serial, "{how}: reply serial {:?} != {:?}", h.reply_serial(), w.reply_serial);
    vensure!(h.destination().map(|p| p.as_str().to_string()) == w.destination, "{how}: destination {:?} != {:?}", h.destination(), w.destination);
    vensure!(h.sender().map(|p| p.as_str().to_string()) == w.sender, "{how}: sender {:?} != {:?}", h.sender(), w.sender);
    let want_sig: String = w.body.iter().map(|b| b.sig().to_string()).collect();
    let got = h.signature().to_string_no_parens();
    let got2 = m.body().signature().to_string_no_parens();
    // "(up to outer parentheses)": a single struct argument prints with or without them
    let ok = |g: &str| g == want_sig || format!("({g})") == want_sig;
    vensure!(ok(&got) && ok(&got2), "{how}: body signature {got:?}/{got2:?} != {want_sig:?}");
    let nfds = w.body.iter().map(|b| count_fds(b)).sum::<usize>();
    vensure!(h.unix_fds().unwrap_or(0) as usize == nfds && m.data().fds().len() == nfds, "{how}: unix_fds {:?} / attached {} != {nfds}", h.unix_fds(), m.data().fds().len());
    let body = body_of(m, w.body.len()).map_err(|e| Failure::new(format!("{how}: {e}")))?;
    // documented ambiguity: a body made of one structure argument "(..)" reads back as that
    // structure (zbus cannot tell it from the argument list "..")
    let body = match (&w.body[..], body) {
        ([RVal::St(_)], b) => vec![RVal::St(b)],
        (_, b) => b,
    };
    let same = body.len() == w.body.len() && body.iter().zip(&w.body).all(|(a, b)| a.eq_unordered(b));
    vensure!(same, "{how}: body {:?} != {:?}", body.iter().map(|b| b.show()).collect::<Vec<_>>(), w.body.iter().map(|b| b.show()).collect::<Vec<_>>());
    Ok(())
}

pub fn count_fds(v: &RVal) -> usize {
    let mut n = 0;
    fn rec(v: &RVal, n: &mut usize) {
        match v {
            RVal::H(_) => *n += 1,
            RVal::V(b) => rec(&b.1, n),
            RVal::A(_, v) | RVal::St(v) => v.iter().for_each(|x| rec(x, n)),
            RVal::Dict(_, _, e) => e.iter().for_each(|(k, v)| {
                rec(k, n);
                rec(v, n)
            }),
            RVal::M(_, Some(x)) => rec(x, n),
            _ => {}
        }
    }
    rec(v, &mut n);
    n
}

pub fn reparse(m: &Message) -> Result<Message, String> {
    let bytes = m.data().bytes().to_vec();
    let fds: Vec<std::os::fd::OwnedFd> = m.data().fds().iter().map(|f| {
        use std::os::fd::AsFd;
        f.as_fd().try_clone_to_owned().expect("dup")
    }).collect();
    let ctx = m.data().context();
    let data = Data::new_fds(bytes, ctx, fds);
    unsafe { Message::from_bytes(data) }.map_err(|e| e.to_string())
}

pub fn c11_case(src: &mut Src, obs: &mut Obs) -> CaseResult {
    let mut w = gen_want(src);
    let m = match build_zbus(&w) {
        Ok(m) => m,
        Err(e) => vfail!("builder refused a valid message: {e} (type {} path {:?} iface {:?} member {:?} dest {:?} sender {:?} error {:?})", w.mtype, w.path, w.interface, w.member, w.destination, w.sender, w.error_name),
    };
    verify_built(&m, &w, "built", obs)?;
    // A builder made from the header of that message, given another body: everything but the body
    // (its signature and its descriptors) carries over, and the result is as well-formed.
    if src.chance(100) {
        let b = zbus::message::Builder::from(m.header());
        w.serial = Some(m.primary_header().serial_num().get());
        w.body = gen_body(src, &so(), &ValOpts::default());
        let m2 = if w.body.is_empty() {
            b.build(&())
        } else {
            let zv = to_value(&RVal::St(w.body.clone())).map_err(|x| Failure::new(x.0))?;
            let Value::Structure(st) = zv else { unreachable!() };
            b.build(&st)
        };
        let m2 = match m2 {
            Ok(x) => x,
            Err(e) => vfail!("a builder made from the header of a built message refused a valid body: {e}"),
        };
        obs.label("rebuilt-from-header");
        verify_built(&m2, &w, "rebuilt from a header", obs)?;
    }
    Ok(())
}

fn verify_built(m: &Message, w: &Want, how: &str, obs: &mut Obs) -> CaseResult {
    let m = m.clone();
    let bytes = m.data().bytes().to_vec();
    let describe = || format!("type={} flags={:#x} {} fields: path={:?} iface={:?} member={:?} err={:?} reply={:?} dest={:?} sender={:?} body={:?} bytes={}", w.mtype, w.flags, if w.big { "BE" } else { "LE" }, w.path, w.interface, w.member, w.error_name, w.reply_serial, w.destination, w.sender, w.body.iter().map(|b| b.show()).collect::<Vec<_>>(), hex(&bytes[..bytes.len().min(160)]));
    compare_header(&m, w, &format!("{how} message")).map_err(|f| Failure { key: f.key, msg: format!("{} ; {}", f.msg, describe()) })?;
    // (a) zbus re-parse
    let again = reparse(&m).map_err(|e| Failure::new(format!("re-parsing the built message failed: {e}; {}", describe())))?;
    compare_header(&again, w, &format!("{how} and re-parsed message")).map_err(|f| Failure { key: f.key, msg: format!("{} ; {}", f.msg, describe()) })?;
    vensure!(again.primary_header().serial_num() == m.primary_header().serial_num(), "serial changed on re-parse");
    vensure!(m.primary_header().serial_num().get() != 0, "serial is zero");
    // (b) independent parser
    let handles: Vec<u32> = m.data().fds().iter().map(|f| handle_of_raw(f.as_raw_fd()).unwrap_or(u32::MAX)).collect();
    let p = match msg::parse(&bytes, handles.len()) {
        Ok(p) => p,
        Err(e) => vfail!("the built message is not well-formed per the reference parser: {e:?}; {}", describe()),
    };
    vensure!(p.body_offset % 8 == 0, "body offset {} not 8-aligned", p.body_offset);
    vensure!(p.msg.big == w.big && p.msg.mtype == w.mtype && p.msg.flags == w.flags, "primary header differs per the reference parser: {:?}; {}", p.msg, describe());
    vensure!(p.msg.serial == m.primary_header().serial_num().get(), "serial on the wire {} != reported {}", p.msg.serial, m.primary_header().serial_num());
    vensure!(p.unknown_fields == 0, "unknown header fields emitted; {}", describe());
    let want_fields: Vec<(u8, Option<RVal>)> = vec![
        (msg::F_PATH, w.path.clone().map(RVal::O)),
        (msg::F_INTERFACE, w.interface.clone().map(RVal::S)),
        (msg::F_MEMBER, w.member.clone().map(RVal::S)),
        (msg::F_ERROR_NAME, w.error_name.clone().map(RVal::S)),
        (msg::F_REPLY_SERIAL, w.reply_serial.map(RVal::U)),
        (msg::F_DESTINATION, w.destination.clone().map(RVal::S)),
        (msg::F_SENDER, w.sender.clone().map(RVal::S)),
    ];
    for (code, want) in &want_fields {
        vensure!(p.msg.get(*code) == want.as_ref(), "header field {code} on the wire is {:?}, expected {:?}; {}", p.msg.get(*code), want, describe());
    }
    let want_sig: String = w.body.iter().map(|b| b.sig().to_string()).collect();
    vensure!(p.msg.get_str(msg::F_SIGNATURE).unwrap_or("") == want_sig, "SIGNATURE field on the wire is {:?}, expected {want_sig:?}; {}", p.msg.get_str(msg::F_SIGNATURE), describe());
    let wire_body: Vec<RVal> = p.msg.body.iter().map(|b| dbus::map_fds(b, &handles)).collect();
    let same = wire_body.len() == w.body.len() && wire_body.iter().zip(&w.body).all(|(a, b)| a.eq_unordered(b));
    vensure!(same, "body on the wire denotes {:?}; {}", wire_body.iter().map(|b| b.show()).collect::<Vec<_>>(), describe());
    let nfields = p.msg.fields.len();
    obs.label(&format!("type{}", w.mtype));
    if nfields >= 3 && !w.body.is_empty() {
        obs.nontrivial(fnv(&bytes));
        obs.sample(&format!("type{}", w.mtype), describe);
    }
    Ok(())
}

// ------------------------------------------------------------------------------------------------
// reference-built messages (C12, C13, C14 and the fake peers)

/// A valid message from the reference builder.
pub fn gen_rmsg(src: &mut Src, fds: bool) -> RMsg {
    let w = gen_want(src);
    let mut m = RMsg::new(w.mtype, w.serial.unwrap_or(7));
    m.big = w.big;
    m.flags = w.flags;
    if let Some(p) = &w.path {
        m.fields.push((msg::F_PATH, RVal::O(p.clone())));
    }
    if let Some(p) = &w.interface {
        m.fields.push((msg::F_INTERFACE, RVal::S(p.clone())));
    }
    if let Some(p) = &w.member {
        m.fields.push((msg::F_MEMBER, RVal::S(p.clone())));
    }
    if let Some(p) = &w.error_name {
        m.fields.push((msg::F_ERROR_NAME, RVal::S(p.clone())));
    }
    if let Some(p) = w.reply_serial {
        m.fields.push((msg::F_REPLY_SERIAL, RVal::U(p)));
    }
    if let Some(p) = &w.destination {
        m.fields.push((msg::F_DESTINATION, RVal::S(p.clone())));
    }
    if let Some(p) = &w.sender {
        m.fields.push((msg::F_SENDER, RVal::S(p.clone())));
    }
    m.body = if fds { w.body } else { w.body.into_iter().filter(|b| count_fds(b) == 0).collect() };
    // random field order (the specification fixes none)
    if src.bool() && m.fields.len() > 1 {
        let i = src.below(m.fields.len());
        m.fields.swap(0, i);
    }
    m
}

/// every accessor of a successfully parsed message
pub fn touch_everything(m: &Message) -> Result<(), Failure> {
    let r = guarded(|| {
        let h = m.header();
        let _ = (h.path(), h.interface(), h.member(), h.error_name(), h.reply_serial(), h.destination(), h.sender(), h.signature().to_string(), h.unix_fds(), h.message_type());
        let _ = m.primary_header().flags();
        let _ = m.message_type();
        let _ = format!("{m}");
        let _ = format!("{m:?}");
        let b = m.body();
        let _ = b.signature().to_string();
        let _ = b.len();
        let _: Result<Structure<'_>, _> = b.deserialize();
        let _: Result<Value<'_>, _> = b.deserialize_unchecked();
        let _: Result<&str, _> = b.deserialize_unchecked();
        let _: Result<(u32, String), _> = b.deserialize();
        let _ = m.recv_position();
    });
    r.map(|_| ())
}

pub fn hostile_bytes(src: &mut Src) -> (Vec<u8>, String, Vec<u32>) {
    let base = gen_rmsg(src, true);
    let built = base.build();
    let mut b = built.bytes.clone();
    let fds = built.fds.clone();
    let pick_role = |src: &mut Src, pred: &dyn Fn(&MRole) -> bool| -> Option<usize> {
        let idx: Vec<usize> = built.roles.iter().enumerate().filter(|(_, r)| pred(r)).map(|(i, _)| i).collect();
        if idx.is_empty() {
            None
        } else {
            Some(idx[src.below(idx.len())])
        }
    };
    let what;
    match src.below(16) {
        0 => {
            b.clear();
            what = "empty input".to_string();
        }
        1 => {
            let n = src.below(b.len() + 1);
            b.truncate(n);
            what = format!("truncated to {n}");
        }
        2 => {
            // truncate inside / right after the header
            let n = built.body_offset.saturating_sub(src.below(9));
            b.truncate(n.min(b.len()));
            what = format!("truncated near the body offset ({n})");
        }
        3 => {
            if let Some(i) = pick_role(src, &|r| matches!(r, MRole::FieldCode)) {
                b[i] = *src.pick(&[0u8, 10, 11, 255, 8, 1, 9, 5]);
                what = format!("field code at {i} := {}", b[i]);
            } else {
                what = "none".into();
            }
        }
        4 => {
            if let Some(i) = pick_role(src, &|r| matches!(r, MRole::FieldVal(dbus::Role::SigTxt))) {
                b[i] = *src.pick(&[b's', b'o', b'u', b'g', b'y', b'v', b'(', b'a', 0]);
                what = format!("field variant type at {i} := {:?}", b[i] as char);
            } else {
                what = "none".into();
            }
        }
        5 => {
            if let Some(i) = pick_role(src, &|r| matches!(r, MRole::FieldVal(dbus::Role::Str))) {
                b[i] = *src.pick(&[b'.', b'/', b'-', b':', b' ', 0xff, 0, b'1']);
                what = format!("field text at {i} := {:#x}", b[i]);
            } else {
                what = "none".into();
            }
        }
        6 => {
            if let Some(i) = pick_role(src, &|r| matches!(r, MRole::FieldVal(dbus::Role::Len) | MRole::FieldsLen | MRole::BodyLen | MRole::Body(dbus::Role::Len))) {
                b[i] = src.u8();
                what = format!("length byte at {i} := {}", b[i]);
            } else {
                what = "none".into();
            }
        }
        7 => {
            b[0] = *src.pick(&[b'B', b'l', 0, b'L', b'b', 0xff]);
            what = format!("endian byte := {:#x}", b[0]);
        }
        8 => {
            if b.len() > 3 {
                let i = 1 + src.below(3);
                b[i] = src.u8();
                what = format!("primary header byte {i} := {}", b[i]);
            } else {
                what = "none".into();
            }
        }
        9 => {
            if let Some(i) = pick_role(src, &|r| matches!(r, MRole::Serial)) {
                let i = i - i % 4;
                for k in 0..4 {
                    if i + k < b.len() {
                        b[i + k] = 0;
                    }
                }
                what = "serial := 0".into();
            } else {
                what = "none".into();
            }
        }
        10 => {
            if let Some(i) = pick_role(src, &|r| matches!(r, MRole::Pad | MRole::FieldVal(dbus::Role::Pad))) {
                b[i] = 1 + src.below(255) as u8;
                what = format!("padding at {i} non-zero");
            } else {
                what = "none".into();
            }
        }
        11 => {
            if let Some(i) = pick_role(src, &|r| matches!(r, MRole::FieldVal(dbus::Role::SigLen))) {
                b[i] = *src.pick(&[0u8, 2, 3, 255]);
                what = format!("field variant signature length at {i} := {}", b[i]);
            } else {
                what = "none".into();
            }
        }
        12 | 13 => {
            let n = 1 + src.below(4);
            let mut w = vec![];
            for _ in 0..n {
                if b.is_empty() {
                    break;
                }
                let i = src.below(b.len());
                b[i] = src.u8();
                w.push(format!("{i}:={:#x}", b[i]));
            }
            what = format!("random pokes {}", w.join(","));
        }
        14 => {
            let n = src.below(48);
            b = src.bytes(n);
            what = "random bytes".into();
        }
        _ => {
            if !b.is_empty() {
                let i = src.below(b.len());
                if src.bool() {
                    b.insert(i, src.u8());
                    what = format!("insert at {i}");
                } else {
                    b.remove(i);
                    what = format!("remove at {i}");
                }
            } else {
                what = "none".into();
            }
        }
    }
    (b, what, fds)
}

pub fn c12_case(src: &mut Src, obs: &mut Obs) -> CaseResult {
    let (bytes, what, fdh) = hostile_bytes(src);
    let ctx_big = src.bool();
    let describe = || format!("mutation=[{what}] context={} bytes[{}]={}", if ctx_big { "BE" } else { "LE" }, bytes.len(), hex(&bytes[..bytes.len().min(200)]));
    let fds: Vec<std::os::fd::OwnedFd> = fdh.iter().map(|h| fd_table().fds[*h as usize % 4].try_clone().expect("dup")).collect();
    let data = Data::new_fds(bytes.clone(), Context::new_dbus(if ctx_big { Endian::Big } else { Endian::Little }, 0), fds);
    let r = guarded(|| unsafe { Message::from_bytes(data) });
    let r = match r {
        Ok(r) => r,
        Err(mut p) => {
            p.msg = format!("Message::from_bytes panicked: {} ; {}", p.msg, describe());
            return Err(p);
        }
    };
    match r {
        Err(_) => obs.label("rejected"),
        Ok(m) => {
            obs.label("accepted");
            if let Err(mut p) = touch_everything(&m) {
                p.msg = format!("reading an accepted message panicked: {} ; {}", p.msg, describe());
                return Err(p);
            }
        }
    }
    if bytes.len() > 16 {
        obs.nontrivial(fnv(&bytes));
        obs.sample(&what.split(' ').take(2).collect::<Vec<_>>().join("-"), describe);
    }
    Ok(())
}

/// C13 at the message level: unknown field codes / flag bits do not make from_bytes fail and the
/// known fields stay intact.
pub fn c13_msg_case(src: &mut Src, obs: &mut Obs) -> CaseResult {
    let mut m = gen_rmsg(src, false);
    let kind = src.below(3);
    let what;
    match kind {
        0 => {
            let code = 10 + src.below(246) as u8;
            let mut sfuel = 3;
            let nofd = SigOpts { fd: false, ..so() };
            let s = gen_sig(src, &nofd, 0, &mut sfuel);
            let mut vfuel = 6;
            let v = gen_val(src, &s, &ValOpts::default(), &nofd, &mut vfuel);
            what = format!("unknown field code {code} with value {}", v.show());
            let at = src.below(m.fields.len() + 1);
            m.fields.insert(at, (code, v));
        }
        1 => {
            let bit = 3 + src.below(5);
            m.flags |= 1 << bit;
            what = format!("unknown flag bit {:#x}", 1u8 << bit);
        }
        _ => {
            let code = 10 + src.below(246) as u8;
            m.fields.push((code, RVal::S("x".into())));
            let bit = 3 + src.below(5);
            m.flags |= 1 << bit;
            what = format!("unknown field {code} and flag bit {:#x}", 1u8 << bit);
        }
    }
    let built = m.build();
    let describe = || format!("{what}; message={:?} bytes={}", m, hex(&built.bytes[..built.bytes.len().min(160)]));
    if msg::parse(&built.bytes, 0).is_err() {
        // generator bug guard: must be valid apart from the unknown parts
        vfail!("harness: reference builder produced a message its own parser rejects; {}", describe());
    }
    let data = Data::new(built.bytes.clone(), Context::new_dbus(if m.big { Endian::Big } else { Endian::Little }, 0));
    let parsed = match unsafe { Message::from_bytes(data) } {
        Ok(p) => p,
        Err(e) => {
            let key = match kind {
                0 => "msg-unknown-field-code-rejected",
                1 => "msg-unknown-flag-bit-rejected",
                _ => "msg-unknown-field-code-rejected+msg-unknown-flag-bit-rejected",
            };
            return Err(Failure::keyed(key, format!("a valid message with {what} is rejected: {e}; {}", describe())));
        }
    };
    let h = parsed.header();
    vensure!(h.path().map(|x| x.as_str()) == m.get_str(msg::F_PATH), "path lost; {}", describe());
    vensure!(h.interface().map(|x| x.as_str()) == m.get_str(msg::F_INTERFACE), "interface lost; {}", describe());
    vensure!(h.member().map(|x| x.as_str()) == m.get_str(msg::F_MEMBER), "member lost; {}", describe());
    vensure!(h.destination().map(|x| x.as_str()) == m.get_str(msg::F_DESTINATION), "destination lost; {}", describe());
    vensure!(h.sender().map(|x| x.as_str()) == m.get_str(msg::F_SENDER), "sender lost; {}", describe());
    vensure!(parsed.primary_header().flags().bits() == m.flags & 7, "known flags changed: {:#x} vs {:#x}; {}", parsed.primary_header().flags().bits(), m.flags & 7, describe());
    obs.label(match kind {
        0 => "unknown-field",
        1 => "unknown-flag",
        _ => "both",
    });
    obs.nontrivial(fnv(&built.bytes));
    obs.sample(match kind { 0 => "field", 1 => "flag", _ => "both" }, describe);
    Ok(())
}
