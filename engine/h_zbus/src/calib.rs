//! Calibration of the reference models against the system's libdbus (optional tool, not a check):
//! `h_zbus CALIB` compares, on generated inputs,
//!   * refmodel::sig with dbus_signature_validate,
//!   * refmodel::names with dbus_validate_{path,interface,member,error_name,bus_name},
//!   * refmodel::msg::parse (and with it refmodel::dbus's strict unmarshaller) with
//!     dbus_message_demarshal on valid reference-built messages and on role-aware mutations.
//! libdbus is loaded with dlopen; when it is absent the tool says so and exits 0. Disagreements are
//! printed with the input; each one is either a mistake in the reference (to be fixed) or a known
//! difference between libdbus and the text of the specification (listed in DESIGN.md §11).

use crate::c_msg::{gen_rmsg, hostile_bytes};
use std::collections::BTreeMap;
use std::ffi::{c_char, c_int, c_void, CString};
use vcore::refmodel::{msg, names, sig};
use vcore::src::{hex, Src};

type ValidateFn = unsafe extern "C" fn(*const c_char, *mut c_void) -> u32;
type DemarshalFn = unsafe extern "C" fn(*const c_char, c_int, *mut c_void) -> *mut c_void;
type ErrFn = unsafe extern "C" fn(*mut c_void);
type UnrefFn = unsafe extern "C" fn(*mut c_void);

struct Lib {
    sig: ValidateFn,
    path: ValidateFn,
    iface: ValidateFn,
    member: ValidateFn,
    error: ValidateFn,
    bus: ValidateFn,
    demarshal: DemarshalFn,
    err_init: ErrFn,
    err_free: ErrFn,
    unref: UnrefFn,
}

fn load() -> Option<Lib> {
    unsafe {
        let mut h = std::ptr::null_mut();
        for n in ["libdbus-1.so.3", "libdbus-1.so"] {
            let c = CString::new(n).unwrap();
            h = libc::dlopen(c.as_ptr(), libc::RTLD_NOW);
            if !h.is_null() {
                break;
            }
        }
        if h.is_null() {
            return None;
        }
        let sym = |n: &str| -> Option<*mut c_void> {
            let c = CString::new(n).unwrap();
            let p = libc::dlsym(h, c.as_ptr());
            if p.is_null() {
                None
            } else {
                Some(p)
            }
        };
        Some(Lib {
            sig: std::mem::transmute::<*mut c_void, ValidateFn>(sym("dbus_signature_validate")?),
            path: std::mem::transmute::<*mut c_void, ValidateFn>(sym("dbus_validate_path")?),
            iface: std::mem::transmute::<*mut c_void, ValidateFn>(sym("dbus_validate_interface")?),
            member: std::mem::transmute::<*mut c_void, ValidateFn>(sym("dbus_validate_member")?),
            error: std::mem::transmute::<*mut c_void, ValidateFn>(sym("dbus_validate_error_name")?),
            bus: std::mem::transmute::<*mut c_void, ValidateFn>(sym("dbus_validate_bus_name")?),
            demarshal: std::mem::transmute::<*mut c_void, DemarshalFn>(sym("dbus_message_demarshal")?),
            err_init: std::mem::transmute::<*mut c_void, ErrFn>(sym("dbus_error_init")?),
            err_free: std::mem::transmute::<*mut c_void, ErrFn>(sym("dbus_error_free")?),
            unref: std::mem::transmute::<*mut c_void, UnrefFn>(sym("dbus_message_unref")?),
        })
    }
}

fn validate(f: ValidateFn, s: &[u8]) -> Option<bool> {
    // C strings: no interior NUL; libdbus asserts on invalid UTF-8 in some of these, so ASCII only
    if s.contains(&0) || !s.is_ascii() {
        return None;
    }
    let c = CString::new(s.to_vec()).ok()?;
    Some(unsafe { f(c.as_ptr(), std::ptr::null_mut()) } != 0)
}

fn demarshal(l: &Lib, b: &[u8]) -> bool {
    unsafe {
        let mut err = [0u64; 16];
        (l.err_init)(err.as_mut_ptr() as *mut c_void);
        let m = (l.demarshal)(b.as_ptr() as *const c_char, b.len() as c_int, err.as_mut_ptr() as *mut c_void);
        let ok = !m.is_null();
        if ok {
            (l.unref)(m);
        }
        (l.err_free)(err.as_mut_ptr() as *mut c_void);
        ok
    }
}

pub fn run() {
    let Some(l) = load() else {
        println!("CALIB: libdbus-1 is not available on this system; nothing compared");
        return;
    };
    let mut stats: BTreeMap<String, (u64, u64)> = BTreeMap::new();
    let mut shown: BTreeMap<String, u32> = BTreeMap::new();
    let mut note = |what: &str, agree: bool, input: String| {
        let e = stats.entry(what.to_string()).or_insert((0, 0));
        if agree {
            e.0 += 1;
        } else {
            e.1 += 1;
            let n = shown.entry(what.to_string()).or_insert(0);
            if *n < 12 {
                *n += 1;
                println!("DISAGREE {what}: {input}");
            }
        }
    };
    // ---- signatures: every string up to length 6 over the D-Bus type codes ----------------------
    let alpha: &[u8] = b"ybnqiuxtdsogvha(){}";
    let mut idx = vec![0usize; 0];
    loop {
        let s: Vec<u8> = idx.iter().map(|i| alpha[*i]).collect();
        if let Some(lib) = validate(l.sig, &s) {
            let v = sig::parse(&s, &sig::ParseOpts { maybe: false, limits: true });
            match v {
                sig::Verdict::Accept(_) => note("signature", lib, format!("{:?}: reference accepts, libdbus rejects", String::from_utf8_lossy(&s))),
                sig::Verdict::Reject(r) => note("signature", !lib, format!("{:?}: reference rejects ({r:?}), libdbus accepts", String::from_utf8_lossy(&s))),
                sig::Verdict::Grey(_) => note("signature-grey", true, String::new()),
            }
        }
        // next
        let mut k = idx.len();
        loop {
            if k == 0 {
                idx = vec![0; idx.len() + 1];
                break;
            }
            k -= 1;
            if idx[k] + 1 < alpha.len() {
                idx[k] += 1;
                break;
            }
            idx[k] = 0;
        }
        if idx.len() > 5 {
            break;
        }
    }
    // limits: length 254..257 and depths 31..34
    for n in 250..260usize {
        for base in ["y", "s", "ay", "(y)"] {
            let s: Vec<u8> = base.bytes().cycle().take(n / base.len() * base.len()).collect();
            if let Some(lib) = validate(l.sig, &s) {
                let acc = matches!(sig::parse(&s, &sig::ParseOpts { maybe: false, limits: true }), sig::Verdict::Accept(_));
                note("signature-length", lib == acc, format!("{} x {base:?} ({} bytes): reference {acc}, libdbus {lib}", n / base.len(), s.len()));
            }
        }
    }
    for d in 29..36usize {
        for (open, close) in [("a", ""), ("(", ")"), ("a{s", "}"), ("a(", ")")] {
            let s = format!("{}y{}", open.repeat(d), close.repeat(d));
            if let Some(lib) = validate(l.sig, s.as_bytes()) {
                match sig::parse(s.as_bytes(), &sig::ParseOpts { maybe: false, limits: true }) {
                    sig::Verdict::Grey(_) => note("signature-grey", true, String::new()),
                    v => {
                        let acc = matches!(v, sig::Verdict::Accept(_));
                        note("signature-depth", lib == acc, format!("{d} x {open:?}: reference {acc}, libdbus {lib}"));
                    }
                }
            }
        }
    }
    // ---- names: every string up to length 6 over a class alphabet -------------------------------
    let nalpha: &[u8] = b"aZ0_-.:/ ";
    let mut idx = vec![0usize; 0];
    loop {
        let s: Vec<u8> = idx.iter().map(|i| nalpha[*i]).collect();
        let pairs: [(&str, ValidateFn, fn(&[u8]) -> bool); 5] = [("path", l.path, names::object_path), ("interface", l.iface, names::interface_name), ("member", l.member, names::member_name), ("error-name", l.error, names::error_name), ("bus-name", l.bus, names::bus_name)];
        for (what, f, r) in pairs {
            if let Some(lib) = validate(f, &s) {
                let mine = r(&s);
                // libdbus is lax about unique names (":Za" without a period, ":.b" with an empty
                // element pass); the reference follows the text of the specification
                let what = if what == "bus-name" && s.first() == Some(&b':') && lib && !mine { "bus-name (unique, libdbus lax: explained)" } else { what };
                note(what, lib == mine || what.contains("explained"), format!("{:?}: reference {mine}, libdbus {lib}", String::from_utf8_lossy(&s)));
            }
        }
        let mut k = idx.len();
        loop {
            if k == 0 {
                idx = vec![0; idx.len() + 1];
                break;
            }
            k -= 1;
            if idx[k] + 1 < nalpha.len() {
                idx[k] += 1;
                break;
            }
            idx[k] = 0;
        }
        if idx.len() > 6 {
            break;
        }
    }
    for n in 250..260usize {
        let p = format!("/{}", "a".repeat(n));
        let i = format!("a.{}", "b".repeat(n - 2));
        let m = "m".repeat(n);
        for (what, f, r, s) in [("path-length", l.path, names::object_path as fn(&[u8]) -> bool, p), ("interface-length", l.iface, names::interface_name, i.clone()), ("member-length", l.member, names::member_name, m), ("bus-name-length", l.bus, names::bus_name, i)] {
            if let Some(lib) = validate(f, s.as_bytes()) {
                let mine = r(s.as_bytes());
                note(what, lib == mine, format!("{} bytes: reference {mine}, libdbus {lib}", s.len()));
            }
        }
    }
    // ---- messages --------------------------------------------------------------------------------
    let mut x: u64 = 0x9E3779B97F4A7C15 ^ vcore::run::env_seed();
    let mut bytes_of = |n: usize| -> Vec<u8> {
        (0..n)
            .map(|_| {
                x ^= x << 13;
                x ^= x >> 7;
                x ^= x << 17;
                (x >> 32) as u8
            })
            .collect()
    };
    let cases: usize = std::env::var("VERIF_CALIB_CASES").ok().and_then(|s| s.parse().ok()).unwrap_or(60_000);
    for i in 0..cases {
        let data = bytes_of(220);
        let mut src = Src::new(&data);
        let (b, what) = if i % 3 == 0 {
            let m = gen_rmsg(&mut src, false);
            (m.build().bytes, "valid".to_string())
        } else {
            let (b, what, fds) = hostile_bytes(&mut src);
            if !fds.is_empty() {
                continue;
            }
            (b, what)
        };
        // libdbus takes the first message of a stream: hand both the announced length only
        let b = match msg::announced_len(&b[..b.len().min(16)]) {
            Some(n) if n >= 16 && n < b.len() => b[..n].to_vec(),
            _ => b,
        };
        let mine = msg::parse(&b, 0);
        let lib = demarshal(&l, &b);
        // what the reference accepts although a conforming implementation may refuse it, and the
        // other way round, is listed by reason so that each class can be judged on its own
        let (agree, why) = match &mine {
            Ok(p) => {
                if p.unknown_type {
                    (true, "unknown-type-skipped".to_string())
                } else {
                    (lib, "reference accepts".to_string())
                }
            }
            Err(e) => (!lib, format!("reference rejects: {e:?}")),
        };
        let mut class = match &mine {
            Ok(_) => "message-accept".to_string(),
            Err(e) => format!("message-reject-{}", format!("{e:?}").split('(').next().unwrap_or("")),
        };
        let mut agree = agree;
        if !agree {
            if let Ok(p) = &mine {
                // header field 10 is CONTAINER_INSTANCE (an object path) for libdbus 1.14; the
                // generated messages put other types there, as for an unknown field
                if p.unknown_fields > 0 && what.contains(":= 10") {
                    class = "message-accept (field 10 known to libdbus: explained)".into();
                    agree = true;
                }
            } else if matches!(&mine, Err(msg::MRej::FieldValue(6)) | Err(msg::MRej::FieldValue(7))) && lib {
                class = "message-reject-FieldValue (unique name, libdbus lax: explained)".into();
                agree = true;
            }
        }
        note(&class, agree, format!("[{what}] {why}, libdbus {}: {}", if lib { "accepts" } else { "rejects" }, hex(&b[..b.len().min(160)])));
    }
    println!("CALIB summary (agree / disagree):");
    let mut total_dis = 0;
    for (k, (a, d)) in &stats {
        println!("  {k:40} {a:>9} / {d}");
        total_dis += d;
    }
    println!("CALIB: {total_dis} disagreements");
}
