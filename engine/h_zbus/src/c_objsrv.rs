//! C24 (object server registry) and C25 (ObjectManager signals).

use crate::env::*;
use crate::sched::*;
use std::collections::{BTreeMap, BTreeSet};
use std::sync::{Arc, Mutex};
use vcore::refmodel::msg::{self, RMsg};
use vcore::refmodel::val::RVal;
use vcore::run::{CaseResult, Failure, Obs};
use vcore::src::{fnv, Src};
use zbus::Connection;

pub const PATHS: [&str; 6] = ["/", "/a", "/a/b", "/a/b/c", "/a/x", "/d"];
pub const IFACES: [&str; 3] = ["c24.I0", "c24.I1", "c24.I2"];

pub struct I0(pub u32);
pub struct I1(pub u32);
pub struct I2(pub u32);

#[zbus::interface(name = "c24.I0")]
impl I0 {
    fn ping(&self) -> u32 {
        self.0
    }
    #[zbus(property)]
    fn value(&self) -> u32 {
        self.0
    }
}
#[zbus::interface(name = "c24.I1")]
impl I1 {
    fn ping(&self) -> u32 {
        self.0
    }
    #[zbus(property)]
    fn value(&self) -> u32 {
        self.0
    }
    #[zbus(property)]
    fn label(&self) -> String {
        format!("l{}", self.0)
    }
}
#[zbus::interface(name = "c24.I2")]
impl I2 {
    fn ping(&self) -> u32 {
        self.0
    }
}

#[derive(Debug, Clone, Copy, PartialEq, Eq)]
pub enum Op {
    At(usize, usize),
    Remove(usize, usize),
    /// remove a standard interface (0 = Properties, 1 = ObjectManager, absent unless added) of the node at a path
    RemoveStd(usize, usize),
}

/// the random campaign's operations: the basic ones plus removals of standard interfaces
pub fn op_from_ext(b: u8) -> Op {
    let b = b as usize % 48;
    if b < 36 {
        op_from(b as u8)
    } else {
        Op::RemoveStd((b - 36) % 6, (b - 36) / 6)
    }
}

pub fn op_from(b: u8) -> Op {
    let b = b as usize % 36;
    let (k, r) = (b / 18, b % 18);
    if k == 0 {
        Op::At(r / 3, r % 3)
    } else {
        Op::Remove(r / 3, r % 3)
    }
}

async fn do_at(conn: &Connection, p: usize, i: usize, val: u32) -> zbus::Result<bool> {
    let os = conn.object_server();
    match i {
        0 => os.at(PATHS[p], I0(val)).await,
        1 => os.at(PATHS[p], I1(val)).await,
        _ => os.at(PATHS[p], I2(val)).await,
    }
}
async fn do_remove(conn: &Connection, p: usize, i: usize) -> zbus::Result<bool> {
    let os = conn.object_server();
    match i {
        0 => os.remove::<I0, _>(PATHS[p]).await,
        1 => os.remove::<I1, _>(PATHS[p]).await,
        _ => os.remove::<I2, _>(PATHS[p]).await,
    }
}
async fn do_lookup(conn: &Connection, p: usize, i: usize) -> bool {
    let os = conn.object_server();
    match i {
        0 => os.interface::<_, I0>(PATHS[p]).await.is_ok(),
        1 => os.interface::<_, I1>(PATHS[p]).await.is_ok(),
        _ => os.interface::<_, I2>(PATHS[p]).await.is_ok(),
    }
}

fn classify_c24(model: &BTreeSet<(usize, usize)>, op: Op, what: &str) -> Option<String> {
    // known shapes (set by the findings file): removing the last interface of a node that still
    // has descendants / removing at the root
    match op {
        Op::Remove(p, _) => {
            let has_desc = model.iter().any(|(q, _)| *q != p && PATHS[*q].starts_with(PATHS[p]) && (PATHS[p] == "/" || PATHS[*q].as_bytes().get(PATHS[p].len()) == Some(&b'/')));
            if what.contains("panic") && p == 0 {
                Some("objsrv-remove-at-root-panics".into())
            } else if has_desc {
                Some("objsrv-remove-last-interface-drops-descendants".into())
            } else {
                None
            }
        }
        _ => None,
    }
}

/// lookup-only history (exhaustive enumeration); case bytes = one op per byte
pub fn c24_enum_case(src: &mut Src, obs: &mut Obs) -> CaseResult {
    let ops: Vec<Op> = src.rest().iter().map(|b| op_from(*b)).collect();
    run_history(&ops, false, &[], obs)
}

pub fn c24_random_case(src: &mut Src, obs: &mut Obs) -> CaseResult {
    let n = 1 + src.below(40);
    let ops: Vec<Op> = (0..n).map(|_| op_from_ext(src.u8())).collect();
    let sched_bytes = src.bytes(16);
    run_history(&ops, true, &sched_bytes, obs)
}

fn run_history(ops: &[Op], wire: bool, sched_bytes: &[u8], obs: &mut Obs) -> CaseResult {
    let Some((conn, sh)) = new_p2p(None) else { return Err(Failure::new("harness: connection")) };
    let mut sched = Sched::new();
    sched.spawn_ticker("exec", conn.executor().clone());
    let mut sch = Sch::new(sched_bytes.to_vec());
    let mut peer = Peer::new(sh, false);
    let mut model: BTreeSet<(usize, usize)> = BTreeSet::new();
    // which instance is served for a pair: the one of the at() that registered it (a refused
    // duplicate must not replace it)
    let mut instance: BTreeMap<(usize, usize), u32> = BTreeMap::new();
    let mut nontrivial = false;
    let mut done_ops = vec![];
    // make sure the object server (and its dispatch task) exists and has settled
    let _ = conn.object_server();
    let _ = sched.run(&mut || sch.next(), 50_000, &mut |_| false);
    for (step, op) in ops.iter().enumerate() {
        let c = conn.clone();
        let op2 = *op;
        let out: Arc<Mutex<Option<Result<bool, String>>>> = Default::default();
        let o2 = out.clone();
        let a = sched.spawn("op", async move {
            let r = match op2 {
                Op::At(p, i) => do_at(&c, p, i, step as u32).await,
                Op::Remove(p, i) => do_remove(&c, p, i).await,
                Op::RemoveStd(p, 0) => c.object_server().remove::<zbus::fdo::Properties, _>(PATHS[p]).await,
                Op::RemoveStd(p, _) => c.object_server().remove::<zbus::fdo::ObjectManager, _>(PATHS[p]).await,
            };
            *o2.lock().unwrap() = Some(r.map_err(|e| e.to_string()));
        });
        let oc = sched.run(&mut || sch.next(), 100_000, &mut |s| s.done(a));
        done_ops.push(*op);
        if oc != Outcome::Goal {
            return Err(Failure::new(format!("{op:?} does not complete ({oc:?}); history {done_ops:?}")));
        }
        let r = out.lock().unwrap().take().unwrap();
        // expected result of the operation itself
        match op {
            Op::At(p, i) => {
                let fresh = model.insert((*p, *i));
                if fresh {
                    instance.insert((*p, *i), step as u32);
                }
                if r != Ok(fresh) {
                    return Err(Failure::new(format!("at({}, {}) returned {r:?}, expected Ok({fresh}); history {done_ops:?}", PATHS[*p], IFACES[*i])));
                }
                if *p == 0 {
                    nontrivial = true;
                }
            }
            Op::Remove(p, i) => {
                let present = model.contains(&(*p, *i));
                let related = model.iter().any(|(q, _)| q != p && (PATHS[*q].starts_with(PATHS[*p]) || PATHS[*p].starts_with(PATHS[*q])));
                if related || *p == 0 {
                    nontrivial = true;
                }
                match (&r, present) {
                    (Ok(_), true) => {
                        // (the bool says whether the node went away too)
                    }
                    (Err(_), false) => {}
                    _ => {
                        let key = classify_c24(&model, *op, "");
                        return Err(Failure { key, msg: format!("remove({}, {}) returned {r:?} although the interface was {}; history {done_ops:?}", PATHS[*p], IFACES[*i], if present { "registered" } else { "not registered" }) });
                    }
                }
                model.remove(&(*p, *i));
                instance.remove(&(*p, *i));
            }
            Op::RemoveStd(..) => {
                // (whatever it returns: the other interfaces of the node stay as they are)
                nontrivial = true;
            }
        }
        // the registry agrees with the model on all 18 pairs
        let c = conn.clone();
        let seen: Arc<Mutex<Vec<(usize, usize)>>> = Default::default();
        let s2 = seen.clone();
        let a = sched.spawn("lookup", async move {
            for p in 0..PATHS.len() {
                for i in 0..IFACES.len() {
                    if do_lookup(&c, p, i).await {
                        s2.lock().unwrap().push((p, i));
                    }
                }
            }
        });
        if sched.run(&mut || sch.next(), 100_000, &mut |s| s.done(a)) != Outcome::Goal {
            return Err(Failure::new(format!("looking interfaces up does not complete; history {done_ops:?}")));
        }
        let seen: BTreeSet<(usize, usize)> = seen.lock().unwrap().iter().copied().collect();
        if seen != model {
            let show = |s: &BTreeSet<(usize, usize)>| s.iter().map(|(p, i)| format!("{}:{}", PATHS[*p], IFACES[*i])).collect::<Vec<_>>();
            let key = if matches!(op, Op::RemoveStd(..)) { None } else { classify_c24(&{ let mut m = model.clone(); if let Op::Remove(p, i) = op { m.insert((*p, *i)); } m }, *op, "") };
            return Err(Failure { key, msg: format!("after {done_ops:?} the server exposes {:?} but the history implies {:?}", show(&seen), show(&model)) });
        }
        if wire {
            // one call per path and an Introspect on a rotating path
            let mut calls: Vec<(RMsg, usize, usize)> = vec![];
            for p in 0..PATHS.len() {
                let i = (step + p) % IFACES.len();
                let m = peer.call(PATHS[p], Some(IFACES[i]), "Ping", vec![]);
                peer.send(&m);
                calls.push((m, p, i));
            }
            let ip = step % PATHS.len();
            let intro = peer.call(PATHS[ip], Some("org.freedesktop.DBus.Introspectable"), "Introspect", vec![]);
            peer.send(&intro);
            let want = calls.len() + 1;
            let base = peer.out.len();
            let oc = sched.run(&mut || sch.next(), 300_000, &mut |_| {
                peer.pump();
                peer.out.len() >= base + want
            });
            if oc != Outcome::Goal {
                return Err(Failure::new(format!("{} of {want} calls were answered ({oc:?}); history {done_ops:?}", peer.out.len() - base)));
            }
            for (call, p, i) in &calls {
                let replies: Vec<&RMsg> = peer.out[base..].iter().filter(|m| m.get(msg::F_REPLY_SERIAL) == Some(&RVal::U(call.serial))).collect();
                if replies.len() != 1 {
                    return Err(Failure::new(format!("call to {}:{} got {} replies; history {done_ops:?}", PATHS[*p], IFACES[*i], replies.len())));
                }
                let r = replies[0];
                let ok = r.mtype == msg::T_RETURN && r.body.first() == instance.get(&(*p, *i)).map(|v| RVal::U(*v)).as_ref();
                let refused = r.mtype == msg::T_ERROR && matches!(r.get_str(msg::F_ERROR_NAME), Some("org.freedesktop.DBus.Error.UnknownObject") | Some("org.freedesktop.DBus.Error.UnknownInterface"));
                let present = model.contains(&(*p, *i));
                if (present && !ok) || (!present && !refused) {
                    return Err(Failure::new(format!("calling {}:{} ({}) was answered with {:?}; history {done_ops:?}", PATHS[*p], IFACES[*i], if present { "registered" } else { "not registered" }, r)));
                }
            }
            let replies: Vec<&RMsg> = peer.out[base..].iter().filter(|m| m.get(msg::F_REPLY_SERIAL) == Some(&RVal::U(intro.serial))).collect();
            if replies.len() != 1 {
                return Err(Failure::new(format!("Introspect got {} replies", replies.len())));
            }
            let want_ifaces: BTreeSet<String> = model.iter().filter(|(p, _)| *p == ip).map(|(_, i)| IFACES[*i].to_string()).collect();
            let got_ifaces: BTreeSet<String> = match (replies[0].mtype, replies[0].body.first()) {
                (msg::T_RETURN, Some(RVal::S(xml))) => match zbus_xml::Node::try_from(xml.as_str()) {
                    Ok(n) => n.interfaces().iter().map(|i| i.name().to_string()).filter(|n| n.starts_with("c24.")).collect(),
                    Err(e) => return Err(Failure::new(format!("introspection XML of {} does not parse: {e}\n{xml}", PATHS[ip]))),
                },
                (msg::T_ERROR, _) => BTreeSet::new(),
                _ => return Err(Failure::new(format!("odd Introspect reply {:?}", replies[0]))),
            };
            if got_ifaces != want_ifaces {
                return Err(Failure::new(format!("introspection of {} lists {got_ifaces:?}, the history implies {want_ifaces:?}; history {done_ops:?}", PATHS[ip])));
            }
        }
    }
    obs.label(if wire { "with-calls-and-introspection" } else { "lookup-only" });
    if nontrivial {
        if wire {
            obs.nontrivial(fnv(format!("{ops:?}").as_bytes()));
        } else {
            obs.nontrivial_enumerated();
        }
        obs.sample(if wire { "wire" } else { "lookup" }, || format!("{ops:?}"));
    }
    Ok(())
}

// ------------------------------------------------------------------------------------------------
// C25: ObjectManager

pub const MPATHS: [&str; 7] = ["/m", "/m/a", "/m/a/b", "/m/c", "/n", "/n/a", "/o"];

#[derive(Debug, Clone, Copy, PartialEq, Eq)]
pub enum MOp {
    At(usize, usize),
    Remove(usize, usize),
    AddManager(usize),
    RemoveManager(usize),
}

type View = BTreeMap<String, BTreeMap<String, BTreeMap<String, String>>>;

fn props_of(i: usize, val: u32) -> BTreeMap<String, String> {
    match i {
        0 => [("Value".to_string(), format!("u{val}"))].into_iter().collect(),
        1 => [("Value".to_string(), format!("u{val}")), ("Label".to_string(), format!("\"l{val}\""))].into_iter().collect(),
        _ => BTreeMap::new(),
    }
}

fn show_val(v: &RVal) -> String {
    match v {
        RVal::V(b) => b.1.show(),
        x => x.show(),
    }
}

/// a{oa{sa{sv}}} / a{sa{sv}} decoded into the view shape
fn ifaces_from(v: &RVal) -> BTreeMap<String, BTreeMap<String, String>> {
    let mut out = BTreeMap::new();
    if let RVal::Dict(_, _, entries) = v {
        for (k, props) in entries {
            let RVal::S(name) = k else { continue };
            let mut pm = BTreeMap::new();
            if let RVal::Dict(_, _, pe) = props {
                for (pk, pv) in pe {
                    if let RVal::S(pn) = pk {
                        pm.insert(pn.clone(), show_val(pv));
                    }
                }
            }
            out.insert(name.clone(), pm);
        }
    }
    out
}

pub fn c25_case(src: &mut Src, obs: &mut Obs) -> CaseResult {
    let Some((conn, sh)) = new_p2p(None) else { return Err(Failure::new("harness: connection")) };
    let mut sched = Sched::new();
    sched.spawn_ticker("exec", conn.executor().clone());
    let sb = src.bytes(12);
    let mut sch = Sch::new(sb);
    let mut peer = Peer::new(sh, false);
    let _ = conn.object_server();
    let _ = sched.run(&mut || sch.next(), 50_000, &mut |_| false);
    // one manager at /m (main campaign); a second one in a disjoint subtree sometimes
    let second = src.chance(80);
    // ... or one below the first (the inner manager's objects are below the outer one as well)
    let nested = src.chance(70);
    let m2 = if nested { 1 } else { 4 };
    let n = 2 + src.below(16);
    let mut ops: Vec<MOp> = vec![MOp::AddManager(0)];
    if second || nested {
        ops.push(MOp::AddManager(m2));
    }
    let pre = src.below(3);
    for k in 0..n {
        ops.insert(if k < pre { 0 } else { ops.len() }, match src.weighted(&[8, 5, 1, 1]) {
            0 => MOp::At(src.below(MPATHS.len()), src.below(3)),
            1 => MOp::Remove(src.below(MPATHS.len()), src.below(3)),
            2 => MOp::AddManager(if (second || nested) && src.bool() { m2 } else { 0 }),
            _ => MOp::RemoveManager(if (second || nested) && src.bool() { m2 } else { 0 }),
        });
    }
    // model: registered (path, iface) -> value; managers
    let mut model: BTreeMap<(usize, usize), u32> = BTreeMap::new();
    let mut managers: BTreeSet<usize> = BTreeSet::new();
    // client views per manager path index
    let mut views: BTreeMap<usize, View> = BTreeMap::new();
    let mut consumed = 0usize;
    let mut after_snapshot_ops = 0;
    let mut history = vec![];
    for (step, op) in ops.iter().enumerate() {
        let c = conn.clone();
        let op2 = *op;
        let out: Arc<Mutex<Option<Result<bool, String>>>> = Default::default();
        let o2 = out.clone();
        let a = sched.spawn("op", async move {
            let os = c.object_server();
            let r = match op2 {
                MOp::At(p, i) => match i {
                    0 => os.at(MPATHS[p], I0(step as u32)).await,
                    1 => os.at(MPATHS[p], I1(step as u32)).await,
                    _ => os.at(MPATHS[p], I2(step as u32)).await,
                },
                MOp::Remove(p, i) => match i {
                    0 => os.remove::<I0, _>(MPATHS[p]).await,
                    1 => os.remove::<I1, _>(MPATHS[p]).await,
                    _ => os.remove::<I2, _>(MPATHS[p]).await,
                },
                MOp::AddManager(p) => os.at(MPATHS[p], zbus::fdo::ObjectManager).await,
                MOp::RemoveManager(p) => os.remove::<zbus::fdo::ObjectManager, _>(MPATHS[p]).await,
            };
            *o2.lock().unwrap() = Some(r.map_err(|e| e.to_string()));
        });
        let oc = sched.run(&mut || sch.next(), 200_000, &mut |s| s.done(a));
        history.push(*op);
        if oc != Outcome::Goal {
            return Err(Failure::new(format!("{op:?} does not complete ({oc:?}); history {history:?}")));
        }
        let r = out.lock().unwrap().take().unwrap();
        match op {
            MOp::At(p, i) => {
                if r == Ok(true) {
                    model.insert((*p, *i), step as u32);
                }
            }
            MOp::Remove(p, i) => {
                if r.is_ok() {
                    model.remove(&(*p, *i));
                }
            }
            MOp::AddManager(p) => {
                if r == Ok(true) {
                    managers.insert(*p);
                    // a client attaches now: snapshot through GetManagedObjects
                    let call = peer.call(MPATHS[*p], Some("org.freedesktop.DBus.ObjectManager"), "GetManagedObjects", vec![]);
                    peer.send(&call);
                    let base = peer.out.len();
                    let oc = sched.run(&mut || sch.next(), 300_000, &mut |_| {
                        peer.pump();
                        peer.out[base..].iter().any(|m| m.get(msg::F_REPLY_SERIAL) == Some(&RVal::U(call.serial)))
                    });
                    if oc != Outcome::Goal {
                        return Err(Failure::new(format!("GetManagedObjects on {} is not answered; history {history:?}", MPATHS[*p])));
                    }
                    let reply = peer.out[base..].iter().find(|m| m.get(msg::F_REPLY_SERIAL) == Some(&RVal::U(call.serial))).unwrap().clone();
                    let mut v = View::new();
                    if let Some(RVal::Dict(_, _, entries)) = reply.body.first() {
                        for (k, ifs) in entries {
                            if let RVal::O(path) = k {
                                v.insert(path.clone(), ifaces_from(ifs));
                            }
                        }
                    } else {
                        return Err(Failure::new(format!("odd GetManagedObjects reply {reply:?}")));
                    }
                    views.insert(*p, v);
                    // signals emitted before the snapshot are history the client never saw
                    consumed = peer.out.len();
                }
            }
            MOp::RemoveManager(p) => {
                if r.is_ok() {
                    managers.remove(p);
                    views.remove(p);
                }
            }
        }
        // barrier: a Ping round trip on the same connection orders everything emitted before it
        let ping = peer.call("/", Some("org.freedesktop.DBus.Peer"), "Ping", vec![]);
        peer.send(&ping);
        let oc = sched.run(&mut || sch.next(), 300_000, &mut |_| {
            peer.pump();
            peer.out.iter().any(|m| m.get(msg::F_REPLY_SERIAL) == Some(&RVal::U(ping.serial)))
        });
        if oc != Outcome::Goal {
            return Err(Failure::new(format!("Ping barrier not answered; history {history:?}")));
        }
        // fold the signals
        for m in peer.out[consumed..].to_vec() {
            if m.mtype != msg::T_SIGNAL || m.get_str(msg::F_INTERFACE) != Some("org.freedesktop.DBus.ObjectManager") {
                continue;
            }
            let Some(mp) = m.get_str(msg::F_PATH).and_then(|p| MPATHS.iter().position(|x| *x == p)) else { continue };
            let Some(view) = views.get_mut(&mp) else { continue };
            match (m.get_str(msg::F_MEMBER), m.body.first(), m.body.get(1)) {
                (Some("InterfacesAdded"), Some(RVal::O(path)), Some(ifs)) => {
                    let e = view.entry(path.clone()).or_default();
                    for (k, v) in ifaces_from(ifs) {
                        e.insert(k, v);
                    }
                }
                (Some("InterfacesRemoved"), Some(RVal::O(path)), Some(RVal::A(_, names))) => {
                    if let Some(e) = view.get_mut(path) {
                        for n in names {
                            if let RVal::S(n) = n {
                                e.remove(n);
                            }
                        }
                    }
                }
                _ => return Err(Failure::new(format!("odd ObjectManager signal {m:?}"))),
            }
        }
        consumed = peer.out.len();
        if !views.is_empty() && matches!(op, MOp::At(..) | MOp::Remove(..)) {
            after_snapshot_ops += 1;
        }
        // with one manager below the other, what a manager lists is whatever it says it lists: the
        // folded view is compared with a fresh listing
        if nested {
            let strip = |v: &View| -> View { v.iter().filter(|(_, i)| !i.is_empty()).map(|(k, v)| (k.clone(), v.clone())).collect() };
            for (mp, view) in &views {
                let call = peer.call(MPATHS[*mp], Some("org.freedesktop.DBus.ObjectManager"), "GetManagedObjects", vec![]);
                peer.send(&call);
                let base = peer.out.len();
                let oc = sched.run(&mut || sch.next(), 300_000, &mut |_| {
                    peer.pump();
                    peer.out[base..].iter().any(|m| m.get(msg::F_REPLY_SERIAL) == Some(&RVal::U(call.serial)))
                });
                if oc != Outcome::Goal {
                    return Err(Failure::new(format!("GetManagedObjects on {} is not answered; history {history:?}", MPATHS[*mp])));
                }
                let reply = peer.out[base..].iter().find(|m| m.get(msg::F_REPLY_SERIAL) == Some(&RVal::U(call.serial))).unwrap().clone();
                let mut listing = View::new();
                if let Some(RVal::Dict(_, _, entries)) = reply.body.first() {
                    for (k, ifs) in entries {
                        if let RVal::O(path) = k {
                            listing.insert(path.clone(), ifaces_from(ifs));
                        }
                    }
                }
                if strip(view) != strip(&listing) {
                    return Err(Failure::keyed("objmgr-nested-managers-diverge", format!("client of the manager at {} (another manager at {}) folded {:?} from the listing it started with and the signals since, but the manager now lists {:?}; history {history:?}", MPATHS[*mp], MPATHS[m2], strip(view), strip(&listing))));
                }
            }
            consumed = peer.out.len();
            continue;
        }
        // every client's folded view == the model's listing under that manager
        for (mp, view) in &views {
            let mut want = View::new();
            for ((p, i), val) in &model {
                let path = MPATHS[*p];
                let under = path != MPATHS[*mp] && path.starts_with(MPATHS[*mp]) && path.as_bytes().get(MPATHS[*mp].len()) == Some(&b'/');
                if under {
                    want.entry(path.to_string()).or_default().insert(IFACES[*i].to_string(), props_of(*i, *val));
                }
            }
            let strip = |v: &View| -> View { v.iter().filter(|(_, i)| !i.is_empty()).map(|(k, v)| (k.clone(), v.clone())).collect() };
            if strip(view) != want {
                let key = if matches!(op, MOp::Remove(..)) { Some("objsrv-remove-last-interface-drops-descendants".to_string()) } else { None };
                return Err(Failure { key, msg: format!("client of the manager at {} folded {:?} but the current objects are {:?}; history {history:?}", MPATHS[*mp], strip(view), want) });
            }
        }
    }
    obs.label(if nested { "two-managers-nested" } else if second { "two-managers" } else { "one-manager" });
    if after_snapshot_ops > 0 {
        obs.nontrivial(fnv(format!("{ops:?}").as_bytes()));
        obs.sample(if second { "two" } else { "one" }, || format!("{ops:?}"));
    }
    Ok(())
}
