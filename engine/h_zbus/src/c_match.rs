//! C21 (match-rule semantics) and C22 (rule string round trip).

use vcore::gen::*;
use vcore::refmodel::matchrule::{self, RRule, Verdict};
use vcore::refmodel::msg::{self, RMsg};
use vcore::refmodel::names;
use vcore::refmodel::sig::RSig;
use vcore::refmodel::val::RVal;
use vcore::run::{CaseResult, Failure, Obs};
use vcore::src::{fnv, hex, Src};
use vcore::vfail;
use zbus::message::{Message, Type};
use zbus::zvariant::serialized::{Context, Data};
use zbus::zvariant::Endian;
use zbus::MatchRule;

fn gen_path_like(src: &mut Src) -> String {
    // small universe so that prefixes / siblings actually occur
    const P: [&str; 8] = ["/", "/foo", "/foo/bar", "/foobar", "/foo/bar/baz", "/a", "/aa/bb", "/aa/bb/cc"];
    if src.chance(200) {
        P[src.below(P.len())].to_string()
    } else {
        gen_object_path(src)
    }
}

fn gen_ns(src: &mut Src) -> String {
    const N: [&str; 5] = ["com.example", "com", "org.freedesktop.DBus", "a.b.c", "com.example.backend1"];
    N[src.below(N.len())].to_string()
}

pub fn gen_rule(src: &mut Src, special_args: bool) -> RRule {
    let mut r = RRule::default();
    if src.bool() {
        r.mtype = Some(1 + src.below(4) as u8);
    }
    if src.chance(100) {
        r.sender = Some(if src.chance(60) { gen_well_known_name(src) } else { gen_unique_name(src) });
    }
    if src.chance(110) {
        r.interface = Some(gen_interface_name(src));
    }
    if src.chance(110) {
        r.member = Some(gen_member_name(src));
    }
    match src.below(4) {
        0 => r.path = Some(gen_path_like(src)),
        1 => r.path_namespace = Some(gen_path_like(src)),
        _ => {}
    }
    if src.chance(70) {
        r.destination = Some(gen_unique_name(src));
    }
    let nargs = src.weighted(&[6, 4, 2]);
    for _ in 0..nargs {
        let i = src.below(4) as u8;
        if r.args.iter().any(|(j, _)| *j == i) {
            continue;
        }
        let v = if special_args {
            match src.below(8) {
                0 => String::new(),
                1 => "it's".to_string(),
                2 => "a,b".to_string(),
                3 => "a=b".to_string(),
                4 => "back\\slash".to_string(),
                5 => "trailing\\".to_string(),
                6 => "'".to_string(),
                _ => gen_string(src),
            }
        } else if src.chance(60) {
            // a string that is also a valid object path: an argument of type 'o' with this very
            // text is still not a string argument
            gen_path_like(src)
        } else {
            let n = src.below(4);
            (0..n).map(|_| (b'a' + src.below(3) as u8) as char).collect()
        };
        r.args.push((i, v));
    }
    r.args.sort();
    let npaths = src.weighted(&[8, 3, 1]);
    for _ in 0..npaths {
        let i = src.below(4) as u8;
        if r.arg_paths.iter().any(|(j, _)| *j == i) || r.args.iter().any(|(j, _)| *j == i) {
            continue;
        }
        r.arg_paths.push((i, gen_path_like(src)));
    }
    r.arg_paths.sort();
    if src.chance(50) && !r.args.iter().any(|(j, _)| *j == 0) && !r.arg_paths.iter().any(|(j, _)| *j == 0) {
        r.arg0namespace = Some(gen_ns(src));
    }
    r
}

pub fn build_rule(r: &RRule) -> Result<MatchRule<'static>, String> {
    let e = |x: zbus::Error| x.to_string();
    let mut b = MatchRule::builder();
    if let Some(t) = r.mtype {
        b = b.msg_type(match t {
            1 => Type::MethodCall,
            2 => Type::MethodReturn,
            3 => Type::Error,
            _ => Type::Signal,
        });
    }
    if let Some(v) = &r.sender {
        b = b.sender(v.clone()).map_err(e)?;
    }
    if let Some(v) = &r.interface {
        b = b.interface(v.clone()).map_err(e)?;
    }
    if let Some(v) = &r.member {
        b = b.member(v.clone()).map_err(e)?;
    }
    if let Some(v) = &r.path {
        b = b.path(v.clone()).map_err(e)?;
    }
    if let Some(v) = &r.path_namespace {
        b = b.path_namespace(v.clone()).map_err(e)?;
    }
    if let Some(v) = &r.destination {
        b = b.destination(v.clone()).map_err(e)?;
    }
    // The builder's routes to one and the same rule: indices given explicitly in any order, values
    // given twice (the later one counts), and add_arg / add_arg_path where the index is the number
    // of arguments given so far. Which route is taken is a function of the rule (so replay works).
    let route = vcore::src::fnv(format!("{:?}{:?}", r.args, r.arg_paths).as_bytes());
    let mut order: Vec<usize> = (0..r.args.len()).collect();
    if route & 1 == 1 {
        order.reverse();
    }
    let mut given = 0usize;
    for (n, k) in order.iter().enumerate() {
        let (i, v) = &r.args[*k];
        if route & 2 == 2 && n == 0 {
            // a value that is replaced right away
            b = b.arg(*i, "decoy").map_err(e)?;
            given += 1;
        }
        let already = route & 2 == 2 && n == 0;
        if !already && *i as usize == given && route & 4 == 4 {
            b = b.add_arg(v.clone()).map_err(e)?;
        } else {
            b = b.arg(*i, v.clone()).map_err(e)?;
        }
        if !already {
            given += 1;
        }
    }
    let mut given = 0usize;
    for (i, v) in &r.arg_paths {
        if *i as usize == given && route & 8 == 8 {
            b = b.add_arg_path(v.clone()).map_err(e)?;
        } else {
            b = b.arg_path(*i, v.clone()).map_err(e)?;
        }
        given += 1;
    }
    if let Some(v) = &r.arg0namespace {
        b = b.arg0ns(v.clone()).map_err(e)?;
    }
    Ok(b.build().into_owned())
}

fn satisfying(src: &mut Src, r: &RRule) -> RMsg {
    let t = r.mtype.unwrap_or(4);
    let mut m = RMsg::new(t, 9);
    let path = r.path.clone().or_else(|| r.path_namespace.clone()).unwrap_or_else(|| gen_path_like(src));
    m.fields.push((msg::F_PATH, RVal::O(path)));
    m.fields.push((msg::F_INTERFACE, RVal::S(r.interface.clone().unwrap_or_else(|| gen_interface_name(src)))));
    m.fields.push((msg::F_MEMBER, RVal::S(r.member.clone().unwrap_or_else(|| gen_member_name(src)))));
    match t {
        2 => m.fields.push((msg::F_REPLY_SERIAL, RVal::U(3))),
        3 => {
            m.fields.push((msg::F_REPLY_SERIAL, RVal::U(3)));
            m.fields.push((msg::F_ERROR_NAME, RVal::S("a.b.Err".into())));
        }
        _ => {}
    }
    let sender = match &r.sender {
        Some(s) if s.starts_with(':') => s.clone(),
        _ => gen_unique_name(src),
    };
    m.fields.push((msg::F_SENDER, RVal::S(sender)));
    if let Some(d) = &r.destination {
        m.fields.push((msg::F_DESTINATION, RVal::S(d.clone())));
    } else if src.bool() {
        m.fields.push((msg::F_DESTINATION, RVal::S(gen_unique_name(src))));
    }
    let n = 4;
    let mut body: Vec<RVal> = (0..n).map(|_| RVal::S("zz".into())).collect();
    for (i, v) in &r.args {
        body[*i as usize] = RVal::S(v.clone());
    }
    for (i, v) in &r.arg_paths {
        body[*i as usize] = if src.bool() { RVal::O(v.clone()) } else { RVal::S(v.clone()) };
    }
    if let Some(ns) = &r.arg0namespace {
        body[0] = RVal::S(if src.bool() { ns.clone() } else { format!("{ns}.child") });
    }
    m.body = body;
    m
}

fn set_field(m: &mut RMsg, code: u8, v: Option<RVal>) {
    m.fields.retain(|(c, _)| *c != code);
    if let Some(v) = v {
        m.fields.push((code, v));
    }
}

/// one near-miss perturbation; returns its description
fn perturb(src: &mut Src, r: &RRule, m: &mut RMsg) -> String {
    match src.below(12) {
        0 => {
            let nt = 1 + src.below(4) as u8;
            let old = m.mtype;
            m.mtype = nt;
            // keep the message valid for its type
            if nt == 2 || nt == 3 {
                set_field(m, msg::F_REPLY_SERIAL, Some(RVal::U(3)));
            }
            if nt == 3 {
                set_field(m, msg::F_ERROR_NAME, Some(RVal::S("a.b.Err".into())));
            }
            format!("type {old}->{nt}")
        }
        1 => {
            let v = if src.bool() { Some(RVal::S(gen_unique_name(src))) } else { None };
            set_field(m, msg::F_SENDER, v.clone());
            format!("sender:={v:?}")
        }
        2 => {
            let cur = m.get_str(msg::F_INTERFACE).unwrap_or("a.b").to_string();
            let v = match src.below(4) {
                0 => Some(format!("{cur}c")),
                1 => Some(format!("{cur}.c")),
                2 => Some(cur.to_uppercase()),
                _ => None,
            };
            // messages of type 4 (signal) need an interface: only drop it otherwise
            let v = if v.is_none() && m.mtype == 4 { Some(format!("{cur}x")) } else { v };
            set_field(m, msg::F_INTERFACE, v.clone().map(RVal::S));
            format!("interface:={v:?}")
        }
        3 => {
            let cur = m.get_str(msg::F_MEMBER).unwrap_or("M").to_string();
            let v = match src.below(3) {
                0 => Some(format!("{cur}x")),
                1 => Some(cur.to_lowercase()),
                _ => None,
            };
            let v = if v.is_none() && (m.mtype == 4 || m.mtype == 1) { Some(format!("{cur}y")) } else { v };
            set_field(m, msg::F_MEMBER, v.clone().map(RVal::S));
            format!("member:={v:?}")
        }
        4 | 5 => {
            let cur = m.get_str(msg::F_PATH).unwrap_or("/").to_string();
            let v = match src.below(5) {
                0 => Some(if cur == "/" { "/x".to_string() } else { format!("{cur}bar") }),
                1 => Some(if cur == "/" { "/child".to_string() } else { format!("{cur}/child") }),
                2 => Some(match cur.rfind('/') {
                    Some(0) | None => "/".to_string(),
                    Some(i) => cur[..i].to_string(),
                }),
                3 => Some(gen_path_like(src)),
                _ => None,
            };
            let v = if v.is_none() && (m.mtype == 4 || m.mtype == 1) { Some("/other".to_string()) } else { v };
            set_field(m, msg::F_PATH, v.clone().map(RVal::O));
            format!("path:={v:?}")
        }
        6 => {
            let v = match src.below(3) {
                0 => Some(gen_unique_name(src)),
                1 => Some(gen_well_known_name(src)),
                _ => None,
            };
            set_field(m, msg::F_DESTINATION, v.clone().map(RVal::S));
            format!("destination:={v:?}")
        }
        7 | 8 => {
            // an argument: other value / other type / missing
            if m.body.is_empty() {
                return "none".into();
            }
            let i = if let (true, Some((j, _))) = (src.bool(), r.args.first()) { *j as usize } else { src.below(m.body.len()) };
            if i >= m.body.len() {
                return "none".into();
            }
            let cur = match &m.body[i] {
                RVal::S(s) | RVal::O(s) => s.clone(),
                _ => "zz".into(),
            };
            match src.below(6) {
                0 => m.body[i] = RVal::S(format!("{cur}x")),
                1 => m.body[i] = RVal::A(RSig::Y, cur.bytes().map(RVal::Y).collect()),
                2 => m.body[i] = RVal::V(Box::new((RSig::S, RVal::S(cur.clone())))),
                3 => {
                    if names::object_path(cur.as_bytes()) {
                        m.body[i] = RVal::O(cur.clone())
                    } else {
                        m.body[i] = RVal::U(7)
                    }
                }
                4 => m.body.truncate(i),
                _ => m.body[i] = RVal::S(String::new()),
            }
            format!("arg{i} perturbed")
        }
        9 | 10 => {
            // path-like argument variants
            let Some((j, p)) = r.arg_paths.first().cloned() else { return "none".into() };
            let j = j as usize;
            if j >= m.body.len() {
                return "none".into();
            }
            let parent = match p.rfind('/') {
                Some(0) | None => "/".to_string(),
                Some(i) => format!("{}/", &p[..i]),
            };
            let v = match src.below(7) {
                0 => format!("{}/", p.trim_end_matches('/')),
                1 => parent,
                2 => "/".to_string(),
                3 => format!("{}/child", p.trim_end_matches('/')),
                4 => format!("{}x", p),
                5 => match p.rfind('/') {
                    Some(0) | None => "/".to_string(),
                    Some(i) => p[..i].to_string(),
                },
                _ => p.clone(),
            };
            m.body[j] = if src.bool() && names::object_path(v.as_bytes()) { RVal::O(v.clone()) } else { RVal::S(v.clone()) };
            format!("arg{j} (path-like) := {v:?}")
        }
        _ => {
            let Some(ns) = r.arg0namespace.clone() else { return "none".into() };
            if m.body.is_empty() {
                return "none".into();
            }
            let v = match src.below(5) {
                0 => format!("{ns}s"),
                1 => format!("{ns}.x.y"),
                2 => ns.clone(),
                3 => match ns.rfind('.') {
                    Some(i) => ns[..i].to_string(),
                    None => format!("x{ns}"),
                },
                _ => "other.name".to_string(),
            };
            m.body[0] = match src.below(4) {
                0 => RVal::A(RSig::Y, v.bytes().map(RVal::Y).collect()),
                1 => RVal::U(1),
                _ => RVal::S(v.clone()),
            };
            format!("arg0 (namespace) := {:?}", m.body[0].show())
        }
    }
}

pub fn to_message(m: &RMsg) -> Result<Message, String> {
    let b = m.build();
    if let Err(e) = msg::parse(&b.bytes, 0) {
        return Err(format!("harness: invalid message generated: {e:?}"));
    }
    let data = Data::new(b.bytes, Context::new_dbus(if m.big { Endian::Big } else { Endian::Little }, 0));
    unsafe { Message::from_bytes(data) }.map_err(|e| e.to_string())
}

pub fn c21_case(src: &mut Src, obs: &mut Obs) -> CaseResult {
    let r = gen_rule(src, false);
    let rule = match build_rule(&r) {
        Ok(x) => x,
        Err(e) => vfail!("the builder refused a valid rule {r:?}: {e}"),
    };
    let mut m = satisfying(src, &r);
    let base_verdict = matchrule::matches(&r, &m);
    let np = src.weighted(&[2, 6, 3]);
    let mut what = vec![];
    for _ in 0..np {
        what.push(perturb(src, &r, &mut m));
    }
    // keep the message valid for its final type (perturbations may have dropped a required field)
    let need: &[(u8, RVal)] = &[
        (msg::F_PATH, RVal::O("/repaired".into())),
        (msg::F_INTERFACE, RVal::S("re.paired".into())),
        (msg::F_MEMBER, RVal::S("Repaired".into())),
        (msg::F_REPLY_SERIAL, RVal::U(3)),
        (msg::F_ERROR_NAME, RVal::S("re.paired.Err".into())),
    ];
    let required: &[u8] = match m.mtype {
        1 => &[msg::F_PATH, msg::F_MEMBER],
        4 => &[msg::F_PATH, msg::F_INTERFACE, msg::F_MEMBER],
        2 => &[msg::F_REPLY_SERIAL],
        _ => &[msg::F_REPLY_SERIAL, msg::F_ERROR_NAME],
    };
    for c in required {
        if m.get(*c).is_none() {
            let v = need.iter().find(|(x, _)| x == c).unwrap().1.clone();
            m.fields.push((*c, v));
        }
    }
    let zm = match to_message(&m) {
        Ok(z) => z,
        Err(e) => vfail!("{e}; {m:?}"),
    };
    let want = matchrule::matches(&r, &m);
    // arg0namespace grey zone: the first argument is a string that is not a valid bus/interface name
    if r.arg0namespace.is_some() {
        if let Some(RVal::S(s)) = m.body.first() {
            if !names::bus_name(s.as_bytes()) {
                obs.label("grey:arg0-not-a-name");
                return Ok(());
            }
        }
    }
    let got = rule.matches(&zm);
    let describe = || format!("rule={r:?} (string {:?}) message: type={} fields={:?} body={:?} perturbations={what:?}", rule.to_string(), m.mtype, m.fields, m.body.iter().map(|b| b.show()).collect::<Vec<_>>());
    let got = match got {
        Ok(b) => b,
        Err(e) => vfail!("matches() returned an error: {e}; {}", describe()),
    };
    match want {
        Verdict::Unresolvable => {
            obs.label("unresolvable-name (documented exception)");
            return Ok(());
        }
        Verdict::Match if !got => {
            let key = classify(&r, &m, false);
            return Err(Failure { key, msg: format!("the rule should match but zbus says no; {}", describe()) });
        }
        Verdict::NoMatch if got => {
            let key = classify(&r, &m, true);
            return Err(Failure { key, msg: format!("the rule should NOT match but zbus says yes; {}", describe()) });
        }
        _ => {}
    }
    obs.label(if got { "match" } else { "no-match" });
    if np > 0 && want != base_verdict {
        obs.nontrivial(fnv(format!("{r:?}{m:?}").as_bytes()));
        obs.sample(if got { "match" } else { "near-miss" }, describe);
    }
    Ok(())
}

/// attribute a disagreement to one rule key by re-evaluating the reference with that key removed
fn classify(r: &RRule, m: &RMsg, _zbus_says: bool) -> Option<String> {
    // the disagreement is attributed to key K when zbus and the reference agree on the same
    // message once K is removed from the rule
    let zm = to_message(m).ok()?;
    let want_after = |r2: &RRule| -> bool {
        let Ok(rule2) = build_rule(r2) else { return false };
        let z = rule2.matches(&zm).unwrap_or(false);
        match matchrule::matches(r2, m) {
            Verdict::Match => z,
            Verdict::NoMatch => !z,
            Verdict::Unresolvable => false,
        }
    };
    let mut r2 = r.clone();
    if r.path_namespace.is_some() {
        r2.path_namespace = None;
        if want_after(&r2) {
            return Some("matchrule-path-namespace-plain-prefix".into());
        }
        r2 = r.clone();
    }
    if !r.arg_paths.is_empty() {
        r2.arg_paths.clear();
        if want_after(&r2) {
            return Some("matchrule-argpath-semantics".into());
        }
        r2 = r.clone();
    }
    if r.destination.is_some() {
        r2.destination = None;
        if want_after(&r2) {
            return Some("matchrule-destination-absent-matches".into());
        }
    }
    None
}

// ------------------------------------------------------------------------------------------------
// C22

fn from_zbus(rule: &MatchRule<'_>) -> RRule {
    let mut r = RRule::default();
    r.mtype = rule.msg_type().map(|t| match t {
        Type::MethodCall => 1,
        Type::MethodReturn => 2,
        Type::Error => 3,
        Type::Signal => 4,
    });
    r.sender = rule.sender().map(|s| s.as_str().to_string());
    r.interface = rule.interface().map(|s| s.as_str().to_string());
    r.member = rule.member().map(|s| s.as_str().to_string());
    match rule.path_spec() {
        Some(zbus::match_rule::PathSpec::Path(p)) => r.path = Some(p.as_str().to_string()),
        Some(zbus::match_rule::PathSpec::PathNamespace(p)) => r.path_namespace = Some(p.as_str().to_string()),
        None => {}
    }
    r.destination = rule.destination().map(|s| s.as_str().to_string());
    r.args = rule.args().iter().map(|(i, s)| (*i, s.as_str().to_string())).collect();
    r.arg_paths = rule.arg_paths().iter().map(|(i, s)| (*i, s.as_str().to_string())).collect();
    r.arg0namespace = rule.arg0ns().map(|s| s.as_str().to_string());
    r
}

fn special(r: &RRule) -> bool {
    r.args.iter().any(|(_, v)| v.is_empty() || v.chars().any(|c| matches!(c, '\'' | ',' | '\\' | '=' | ' ')) || !v.is_ascii())
}

pub fn c22_case(src: &mut Src, obs: &mut Obs) -> CaseResult {
    let r = gen_rule(src, true);
    let rule = match build_rule(&r) {
        Ok(x) => x,
        Err(e) => vfail!("the builder refused a valid rule {r:?}: {e}"),
    };
    let s = rule.to_string();
    let describe = || format!("rule={r:?} printed={s:?}");
    let quote_class = r.args.iter().any(|(_, v)| v.contains('\''));
    let comma_class = r.args.iter().any(|(_, v)| v.contains(','));
    let key_for = |what: &str| -> Option<String> {
        if quote_class {
            Some("matchrule-string-apostrophe-not-escaped".into())
        } else if comma_class && what == "zbus" {
            Some("matchrule-parser-splits-on-quoted-comma".into())
        } else {
            None
        }
    };
    // a specification-conformant parser reads it back as an equal rule
    match matchrule::parse(&s) {
        Ok(back) => {
            if back != r {
                return Err(Failure { key: key_for("spec"), msg: format!("a conformant parser reads the string as a different rule: {back:?}; {}", describe()) });
            }
        }
        Err(e) => return Err(Failure { key: key_for("spec"), msg: format!("the string form is not a valid match rule ({e}); {}", describe()) }),
    }
    // zbus reads it back as an equal rule
    match MatchRule::try_from(s.as_str()) {
        Ok(back) => {
            if back != rule {
                return Err(Failure { key: key_for("zbus"), msg: format!("zbus parses its own string form into a different rule: {:?}; {}", from_zbus(&back), describe()) });
            }
        }
        Err(e) => return Err(Failure { key: key_for("zbus"), msg: format!("zbus cannot parse its own string form ({e}); {}", describe()) }),
    }
    // stability: parse . print . parse == parse, for the conformant print of the same rule too
    let canon = matchrule::print(&r);
    match MatchRule::try_from(canon.as_str()) {
        Ok(p1) => {
            let s2 = p1.to_string();
            match MatchRule::try_from(s2.as_str()) {
                Ok(p2) => {
                    if p2 != p1 {
                        return Err(Failure { key: key_for("zbus"), msg: format!("parse(print(parse(x))) != parse(x) for x={canon:?}") });
                    }
                }
                Err(e) => return Err(Failure { key: key_for("zbus"), msg: format!("print(parse(x)) does not parse ({e}) for x={canon:?}; printed {s2:?}") }),
            }
            if from_zbus(&p1) != r {
                return Err(Failure { key: key_for("zbus"), msg: format!("zbus reads the conformant rule string {canon:?} as {:?}, expected {r:?}", from_zbus(&p1)) });
            }
        }
        Err(e) => {
            return Err(Failure { key: key_for("zbus"), msg: format!("zbus rejects the conformant rule string {canon:?} ({e}) of rule {r:?}") });
        }
    }
    obs.label(if special(&r) { "special-characters" } else { "plain" });
    if special(&r) {
        obs.nontrivial(fnv(s.as_bytes()));
        obs.sample("special", describe);
    }
    let _ = hex;
    Ok(())
}
