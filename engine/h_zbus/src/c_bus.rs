//! Bus-connection properties over the fake bus: C36 (name bookkeeping), C37 (match registrations).

use crate::env::*;
use crate::sched::*;
use futures_util::StreamExt;
use std::collections::{BTreeMap, BTreeSet};
use std::sync::{Arc, Mutex};
use vcore::refmodel::msg::{self, RMsg};
use vcore::refmodel::val::RVal;
use vcore::run::{CaseResult, Failure, Obs};
use vcore::src::{fnv, Src};
use zbus::fdo::{RequestNameFlags, RequestNameReply};
use zbus::Connection;

/// A fake bus driver: answers AddMatch / RemoveMatch (recording them) and scripted name requests.
pub struct FakeBus {
    pub peer: Peer,
    /// currently registered rules (as sent) with their counts
    pub rules: BTreeMap<String, i32>,
    pub add_twice: Vec<String>,
    pub remove_unknown: Vec<String>,
    /// scripted replies for RequestName / ReleaseName, popped per call
    pub request_replies: Vec<u32>,
    pub release_replies: Vec<u32>,
    pub request_calls: Vec<(String, u32)>,
    pub release_calls: Vec<String>,
    pub name_owner: BTreeMap<String, Option<String>>,
    pub other_calls: Vec<String>,
    /// the next AddMatch is refused with this many to go (a bus may refuse: LimitsExceeded)
    pub reject_adds: u32,
    pub rejected: Vec<String>,
    /// a name the bus takes away again right behind the reply that grants it (NameLost follows the
    /// RequestName reply back to back)
    pub lost_after_grant: Option<String>,
}

impl FakeBus {
    pub fn new(peer: Peer) -> FakeBus {
        FakeBus { peer, rules: BTreeMap::new(), add_twice: vec![], remove_unknown: vec![], request_replies: vec![], release_replies: vec![], request_calls: vec![], release_calls: vec![], name_owner: BTreeMap::new(), other_calls: vec![], reject_adds: 0, rejected: vec![], lost_after_grant: None }
    }

    /// handle everything zbus wrote since last time
    pub fn turn(&mut self) {
        for i in self.peer.pump() {
            let m = self.peer.out[i].clone();
            if m.mtype != msg::T_CALL {
                continue;
            }
            let member = m.get_str(msg::F_MEMBER).unwrap_or("").to_string();
            let to_bus = m.get_str(msg::F_DESTINATION) == Some(BUS);
            if !to_bus {
                self.other_calls.push(member);
                continue;
            }
            let arg0 = match m.body.first() {
                Some(RVal::S(s)) => s.clone(),
                _ => String::new(),
            };
            let reply = match member.as_str() {
                "AddMatch" if self.reject_adds > 0 => {
                    self.reject_adds -= 1;
                    self.rejected.push(arg0.clone());
                    self.peer.error(&m, "org.freedesktop.DBus.Error.LimitsExceeded", "too many match rules", Some(BUS))
                }
                "AddMatch" => {
                    let c = self.rules.entry(arg0.clone()).or_insert(0);
                    *c += 1;
                    if *c > 1 {
                        self.add_twice.push(arg0.clone());
                    }
                    self.peer.method_return(&m, vec![], Some(BUS))
                }
                "RemoveMatch" => {
                    match self.rules.get_mut(&arg0) {
                        Some(c) if *c > 0 => {
                            *c -= 1;
                            if *c == 0 {
                                self.rules.remove(&arg0);
                            }
                        }
                        _ => self.remove_unknown.push(arg0.clone()),
                    }
                    self.peer.method_return(&m, vec![], Some(BUS))
                }
                "RequestName" => {
                    let flags = match m.body.get(1) {
                        Some(RVal::U(f)) => *f,
                        _ => 0,
                    };
                    self.request_calls.push((arg0.clone(), flags));
                    let code = if self.request_replies.is_empty() { 1 } else { self.request_replies.remove(0) };
                    self.peer.method_return(&m, vec![RVal::U(code)], Some(BUS))
                }
                "ReleaseName" => {
                    self.release_calls.push(arg0.clone());
                    let code = if self.release_replies.is_empty() { 1 } else { self.release_replies.remove(0) };
                    self.peer.method_return(&m, vec![RVal::U(code)], Some(BUS))
                }
                "GetNameOwner" => match self.name_owner.get(&arg0).cloned().flatten() {
                    Some(o) => self.peer.method_return(&m, vec![RVal::S(o)], Some(BUS)),
                    None => self.peer.error(&m, "org.freedesktop.DBus.Error.NameHasNoOwner", "no owner", Some(BUS)),
                },
                _ => self.peer.error(&m, "org.freedesktop.DBus.Error.UnknownMethod", "unknown", Some(BUS)),
            };
            self.peer.send(&reply);
            if member == "RequestName" && self.lost_after_grant.as_deref() == Some(arg0.as_str()) {
                self.lost_after_grant = None;
                self.bus_signal("NameLost", vec![RVal::S(arg0.clone())], BUS);
            }
        }
    }

    pub fn bus_signal(&mut self, member: &str, body: Vec<RVal>, sender: &str) {
        let mut s = self.peer.signal("/org/freedesktop/DBus", BUS, member, Some(sender), body);
        s.fields.push((msg::F_DESTINATION, RVal::S(ME.into())));
        self.peer.send(&s);
    }
}

/// run an async operation on the connection to completion with the fake bus answering
pub fn run_op<T: 'static>(sched: &mut Sched, sch: &mut Sch, bus: &mut FakeBus, fut: impl std::future::Future<Output = T> + 'static) -> Option<T> {
    let out: Arc<Mutex<Option<T>>> = Arc::new(Mutex::new(None));
    let o2 = out.clone();
    let a = sched.spawn("op", async move {
        let v = fut.await;
        *o2.lock().unwrap() = Some(v);
    });
    let oc = sched.run(&mut || sch.next(), 300_000, &mut |s| {
        bus.turn();
        s.done(a)
    });
    if oc != Outcome::Goal {
        sched.kill(a);
        return None;
    }
    let v = out.lock().unwrap().take();
    v
}

pub fn settle(sched: &mut Sched, sch: &mut Sch, bus: &mut FakeBus) {
    let _ = sched.run(&mut || sch.next(), 300_000, &mut |_| {
        bus.turn();
        false
    });
}

const NAMES: [&str; 3] = ["c36.One", "c36.Two", "c36.Three"];

#[derive(Debug, Clone, Copy, PartialEq)]
enum NState {
    None,
    Owner { replaceable: bool },
    Queued { replaceable: bool },
}

#[derive(Debug, Clone)]
enum NOp {
    Request { name: usize, allow_replacement: bool, bus_reply: u32, lost_behind: bool },
    Release { name: usize, bus_reply: u32 },
    Acquired { name: usize, forged: bool },
    Lost { name: usize, forged: bool },
}

pub fn c36_case(src: &mut Src, obs: &mut Obs) -> CaseResult {
    let Some((conn, peer)) = new_bus() else { return Err(Failure::new("harness: bus connection could not be built")) };
    let mut bus = FakeBus::new(peer);
    let mut sched = Sched::new();
    sched.spawn_ticker("exec", conn.executor().clone());
    let sb = src.bytes(16);
    let mut sch = Sch::new(sb);
    let n = 2 + src.below(14);
    let mut st = [NState::None; 3];
    let mut history = vec![];
    let mut state_changes = [0usize; 3];
    let mut forged_between = false;
    let mut lost_right_behind = false;
    for _ in 0..n {
        // only what a conformant bus can do is generated for the genuine signals
        let name = src.below(3);
        let op = match src.weighted(&[6, 3, 3, 3]) {
            0 => {
                let allow_replacement = src.bool();
                let bus_reply = 1 + src.below(4) as u32;
                // a replaceable name may be taken away at once: NameLost right behind the grant
                let lost_behind = allow_replacement && bus_reply == 1 && st[name] == NState::None && src.chance(90);
                NOp::Request { name, allow_replacement, bus_reply, lost_behind }
            }
            1 => NOp::Release { name, bus_reply: 1 + src.below(3) as u32 },
            2 => {
                let forged = src.chance(120) || !matches!(st[name], NState::Queued { .. });
                NOp::Acquired { name, forged }
            }
            _ => {
                let forged = src.chance(120) || !matches!(st[name], NState::Owner { replaceable: true });
                NOp::Lost { name, forged }
            }
        };
        history.push(op.clone());
        match op {
            NOp::Request { name, allow_replacement, bus_reply, lost_behind } => {
                let calls_before = bus.request_calls.len();
                bus.request_replies = vec![bus_reply];
                bus.lost_after_grant = if lost_behind { Some(NAMES[name].to_string()) } else { None };
                let c = conn.clone();
                let flags = if allow_replacement { RequestNameFlags::AllowReplacement.into() } else { enumflags2::BitFlags::empty() };
                let r = run_op(&mut sched, &mut sch, &mut bus, async move { c.request_name_with_flags(NAMES[name], flags).await.map_err(|e| e.to_string()) });
                let Some(r) = r else { return Err(Failure::new(format!("request_name never completes; history {history:?}"))) };
                let called = bus.request_calls.len() > calls_before;
                let (want_call, want): (bool, Result<RequestNameReply, ()>) = match st[name] {
                    NState::Owner { .. } => (false, Ok(RequestNameReply::AlreadyOwner)),
                    NState::Queued { .. } => (false, Ok(RequestNameReply::InQueue)),
                    NState::None => (
                        true,
                        match bus_reply {
                            1 => Ok(RequestNameReply::PrimaryOwner),
                            2 => Ok(RequestNameReply::InQueue),
                            3 => Err(()),
                            _ => Ok(RequestNameReply::AlreadyOwner),
                        },
                    ),
                };
                let code = |x: &RequestNameReply| match x {
                    RequestNameReply::PrimaryOwner => 1,
                    RequestNameReply::InQueue => 2,
                    RequestNameReply::Exists => 3,
                    RequestNameReply::AlreadyOwner => 4,
                };
                let got: Result<u32, ()> = r.as_ref().map(code).map_err(|_| ());
                let want = want.as_ref().map(code).map_err(|_| ());
                if called != want_call || got != want {
                    return Err(Failure::new(format!("request_name({}) {} the bus and returned {r:?}; the bookkeeping implied by the history is {:?} (expected {} and {want:?}); history {history:?}", NAMES[name], if called { "asked" } else { "did not ask" }, st[name], if want_call { "a bus call" } else { "a local answer" })));
                }
                if want_call {
                    let old = st[name];
                    st[name] = match bus_reply {
                        1 | 4 => NState::Owner { replaceable: allow_replacement },
                        2 => NState::Queued { replaceable: allow_replacement },
                        _ => NState::None,
                    };
                    if old != st[name] {
                        state_changes[name] += 1;
                    }
                    if lost_behind {
                        settle(&mut sched, &mut sch, &mut bus);
                        st[name] = NState::None;
                        state_changes[name] += 1;
                        lost_right_behind = true;
                    }
                }
                bus.lost_after_grant = None;
            }
            NOp::Release { name, bus_reply } => {
                let calls_before = bus.release_calls.len();
                bus.release_replies = vec![bus_reply];
                let c = conn.clone();
                let r = run_op(&mut sched, &mut sch, &mut bus, async move { c.release_name(NAMES[name]).await.map_err(|e| e.to_string()) });
                let Some(r) = r else { return Err(Failure::new(format!("release_name never completes; history {history:?}"))) };
                let called = bus.release_calls.len() > calls_before;
                let held = st[name] != NState::None;
                // "release reports success exactly when the name was held or queued" — and the
                // bus confirmed it
                let want = held && bus_reply == 1;
                if called != held || r != Ok(want) {
                    return Err(Failure::new(format!("release_name({}) {} the bus and returned {r:?}; bookkeeping {:?}, bus reply code {bus_reply}; history {history:?}", NAMES[name], if called { "asked" } else { "did not ask" }, st[name])));
                }
                if held {
                    state_changes[name] += 1;
                }
                st[name] = NState::None;
            }
            NOp::Acquired { name, forged } => {
                let sender = if forged { ":1.666" } else { BUS };
                bus.bus_signal("NameAcquired", vec![RVal::S(NAMES[name].into())], sender);
                settle(&mut sched, &mut sch, &mut bus);
                if forged {
                    forged_between = true;
                } else if let NState::Queued { replaceable } = st[name] {
                    st[name] = NState::Owner { replaceable };
                    state_changes[name] += 1;
                }
            }
            NOp::Lost { name, forged } => {
                let sender = if forged { ":1.666" } else { BUS };
                bus.bus_signal("NameLost", vec![RVal::S(NAMES[name].into())], sender);
                settle(&mut sched, &mut sch, &mut bus);
                if forged {
                    forged_between = true;
                } else if let NState::Owner { replaceable: true } = st[name] {
                    st[name] = NState::None;
                    state_changes[name] += 1;
                }
            }
        }
    }
    if !bus.add_twice.is_empty() || !bus.remove_unknown.is_empty() {
        return Err(Failure::new(format!("match rules added twice {:?} / removed while unknown {:?}; history {history:?}", bus.add_twice, bus.remove_unknown)));
    }
    obs.label(if forged_between { "with-forged-signals" } else { "genuine-only" });
    if lost_right_behind {
        obs.label("name-lost-right-behind-the-grant");
    }
    if state_changes.iter().any(|c| *c >= 2) || forged_between {
        obs.nontrivial(fnv(format!("{history:?}").as_bytes()));
        obs.sample("names", || format!("{history:?}"));
    }
    Ok(())
}

// ------------------------------------------------------------------------------------------------
// C37

const SRULES: [&str; 4] = [
    "type='signal',interface='c37.A'",
    "type='signal',interface='c37.B',member='Changed'",
    "type='signal',sender='org.freedesktop.DBus',interface='org.freedesktop.DBus',member='NameOwnerChanged',arg0='c37.Svc'",
    "type='method_call',interface='c37.Calls'",
];

enum H {
    Stream(usize, zbus::MessageStream),
    Proxy(zbus::Proxy<'static>),
    Signals(bool, zbus::proxy::SignalStream<'static>),
}

fn norm(rule: &str) -> String {
    // compare rules as values, not as strings
    match zbus::MatchRule::try_from(rule) {
        Ok(r) => r.to_string(),
        Err(_) => rule.to_string(),
    }
}

pub fn c37_case(src: &mut Src, obs: &mut Obs) -> CaseResult {
    let Some((conn, peer)) = new_bus() else { return Err(Failure::new("harness: bus connection could not be built")) };
    let mut bus = FakeBus::new(peer);
    bus.name_owner.insert("c37.Svc".into(), Some(":1.7".into()));
    let mut sched = Sched::new();
    sched.spawn_ticker("exec", conn.executor().clone());
    let sb = src.bytes(16);
    let mut sch = Sch::new(sb);
    let n = 2 + src.below(18);
    let mut live: Vec<H> = vec![];
    let mut history: Vec<String> = vec![];
    let mut shared_drop = false;
    let mut recreated = false;
    for _ in 0..n {
        match src.weighted(&[6, 2, 5, 2, 3, 2, 2, 3]) {
            7 => {
                // the last stream of a rule goes away while a new stream for an equal rule is being
                // created: the removal and the new subscription are in flight together
                let idx: Vec<usize> = live.iter().enumerate().filter(|(i, h)| matches!(h, H::Stream(r, _) if !live.iter().enumerate().any(|(j, x)| j != *i && matches!(x, H::Stream(r2, _) if r2 == r)))).map(|(i, _)| i).collect();
                if idx.is_empty() {
                    continue;
                }
                let i = idx[src.below(idx.len())];
                let H::Stream(r, old) = live.remove(i) else { continue };
                let asyncd = src.bool();
                let c = conn.clone();
                let st = if asyncd {
                    run_op(&mut sched, &mut sch, &mut bus, async move {
                        use zbus::AsyncDrop;
                        let (_, b) = futures_util::future::join(old.async_drop(), zbus::MessageStream::for_match_rule(SRULES[r], &c, None)).await;
                        b.map_err(|e| e.to_string())
                    })
                } else {
                    drop(old);
                    run_op(&mut sched, &mut sch, &mut bus, async move { zbus::MessageStream::for_match_rule(SRULES[r], &c, None).await.map_err(|e| e.to_string()) })
                };
                match st {
                    Some(Ok(s)) => live.push(H::Stream(r, s)),
                    other => return Err(Failure::new(format!("re-creating a stream for {:?} while its last stream is dropped failed: {:?}; history {history:?}", SRULES[r], other.map(|x| x.err())))),
                }
                recreated = true;
                history.push(format!("{}+stream(rule{r}) at once", if asyncd { "async_drop" } else { "drop" }));
            }
            5 => {
                // two first subscribers of one rule at the same time: the second starts while the
                // first still waits for the bus to answer its AddMatch
                let r = src.below(SRULES.len());
                let (c1, c2) = (conn.clone(), conn.clone());
                let st = run_op(&mut sched, &mut sch, &mut bus, async move {
                    let (a, b) = futures_util::future::join(zbus::MessageStream::for_match_rule(SRULES[r], &c1, None), zbus::MessageStream::for_match_rule(SRULES[r], &c2, None)).await;
                    (a.map_err(|e| e.to_string()), b.map_err(|e| e.to_string()))
                });
                match st {
                    Some((Ok(a), Ok(b))) => {
                        live.push(H::Stream(r, a));
                        live.push(H::Stream(r, b));
                    }
                    other => return Err(Failure::new(format!("creating two streams for {:?} at once failed: {:?}; history {history:?}", SRULES[r], other.map(|x| (x.0.err(), x.1.err()))))),
                }
                history.push(format!("two-at-once(rule{r})"));
            }
            6 => {
                // the bus refuses the proxy's first AddMatch; the caller tries again on the same
                // proxy, then lets the proxy go while the stream lives on
                let c = conn.clone();
                let wk = src.bool();
                bus.reject_adds = 1;
                let s = run_op(&mut sched, &mut sch, &mut bus, async move {
                    let p: zbus::Proxy<'static> = zbus::proxy::Builder::new(&c).destination(if wk { "c37.Svc" } else { ":1.7" }).unwrap().path("/c37").unwrap().interface("c37.I").unwrap().cache_properties(zbus::proxy::CacheProperties::No).build().await.map_err(|e| e.to_string())?;
                    let first = p.receive_signal("Changed").await.map(|_| ()).map_err(|e| e.to_string());
                    let second = p.receive_signal("Changed").await.map_err(|e| e.to_string())?;
                    drop(p);
                    Ok::<_, String>((first, second))
                });
                bus.reject_adds = 0;
                match s {
                    Some(Ok((first, s))) => {
                        if first.is_ok() && !bus.rejected.is_empty() {
                            return Err(Failure::new(format!("receive_signal succeeded although the bus refused its AddMatch ({:?}); history {history:?}", bus.rejected)));
                        }
                        bus.rejected.clear();
                        live.push(H::Signals(wk, s));
                    }
                    other => return Err(Failure::new(format!("creating a signal stream after a refused AddMatch failed: {:?}; history {history:?}", other.map(|x| x.err())))),
                }
                history.push(format!("signals-after-refusal(wk={wk})"));
            }
            0 => {
                let r = src.below(SRULES.len());
                let c = conn.clone();
                let st = run_op(&mut sched, &mut sch, &mut bus, async move { zbus::MessageStream::for_match_rule(SRULES[r], &c, None).await.map_err(|e| e.to_string()) });
                match st {
                    Some(Ok(s)) => live.push(H::Stream(r, s)),
                    other => return Err(Failure::new(format!("creating a stream for {:?} failed: {:?}; history {history:?}", SRULES[r], other.map(|x| x.err())))),
                }
                history.push(format!("stream(rule{r})"));
            }
            1 => {
                // clone a stream
                let idx: Vec<usize> = live.iter().enumerate().filter(|(_, h)| matches!(h, H::Stream(..))).map(|(i, _)| i).collect();
                if idx.is_empty() {
                    continue;
                }
                let i = idx[src.below(idx.len())];
                if let H::Stream(r, s) = &live[i] {
                    let c = H::Stream(*r, s.clone());
                    history.push(format!("clone(rule{r})"));
                    live.push(c);
                }
            }
            2 => {
                if live.is_empty() {
                    continue;
                }
                let i = src.below(live.len());
                let h = live.remove(i);
                let same_rule_alive = match &h {
                    H::Stream(r, _) => live.iter().any(|x| matches!(x, H::Stream(r2, _) if r2 == r)),
                    H::Signals(wk, _) => live.iter().any(|x| matches!(x, H::Signals(w2, _) if w2 == wk)),
                    _ => false,
                };
                if same_rule_alive {
                    shared_drop = true;
                }
                let asyncd = src.bool();
                match h {
                    H::Stream(r, s) => {
                        history.push(format!("{}(rule{r})", if asyncd { "async_drop" } else { "drop" }));
                        if asyncd {
                            use zbus::AsyncDrop;
                            let _ = run_op(&mut sched, &mut sch, &mut bus, async move { s.async_drop().await });
                        } else {
                            drop(s);
                        }
                    }
                    H::Proxy(p) => {
                        history.push("drop(proxy)".into());
                        drop(p);
                    }
                    H::Signals(wk, s) => {
                        history.push(format!("drop(signals wk={wk})"));
                        drop(s);
                    }
                }
            }
            3 => {
                let c = conn.clone();
                let wk = src.bool();
                let p = run_op(&mut sched, &mut sch, &mut bus, async move {
                    zbus::proxy::Builder::new(&c).destination(if wk { "c37.Svc" } else { ":1.7" }).unwrap().path("/c37").unwrap().interface("c37.I").unwrap().cache_properties(zbus::proxy::CacheProperties::No).build().await.map_err(|e| e.to_string())
                });
                match p {
                    Some(Ok(p)) => live.push(H::Proxy(p)),
                    other => return Err(Failure::new(format!("creating a proxy failed: {:?}", other.map(|x| x.err())))),
                }
                history.push(format!("proxy(wk={wk})"));
            }
            _ => {
                // a signal stream from a proxy (new proxy each time; the stream keeps what it needs)
                let c = conn.clone();
                let wk = src.bool();
                let s = run_op(&mut sched, &mut sch, &mut bus, async move {
                    let p: zbus::Proxy<'static> = zbus::proxy::Builder::new(&c).destination(if wk { "c37.Svc" } else { ":1.7" }).unwrap().path("/c37").unwrap().interface("c37.I").unwrap().cache_properties(zbus::proxy::CacheProperties::No).build().await.map_err(|e| e.to_string())?;
                    p.receive_signal("Changed").await.map_err(|e| e.to_string())
                });
                match s {
                    Some(Ok(s)) => live.push(H::Signals(wk, s)),
                    other => return Err(Failure::new(format!("creating a signal stream failed: {:?}; history {history:?}", other.map(|x| x.err())))),
                }
                history.push(format!("signals(wk={wk})"));
            }
        }
        settle(&mut sched, &mut sch, &mut bus);
        // invariants
        if !bus.add_twice.is_empty() {
            return Err(Failure::new(format!("AddMatch was sent for a rule that is already registered: {:?}; history {history:?}", bus.add_twice)));
        }
        if !bus.remove_unknown.is_empty() {
            return Err(Failure::new(format!("RemoveMatch was sent for a rule that is not registered: {:?}; history {history:?}", bus.remove_unknown)));
        }
        // expected set of registered (signal) rules
        let mut want: BTreeSet<String> = BTreeSet::new();
        for h in &live {
            match h {
                H::Stream(r, _) => {
                    if SRULES[*r].contains("type='signal'") {
                        want.insert(norm(SRULES[*r]));
                    }
                }
                H::Proxy(_) => {}
                H::Signals(wk, _) => {
                    let dest = if *wk { "c37.Svc" } else { ":1.7" };
                    want.insert(norm(&format!("type='signal',sender='{dest}',interface='c37.I',member='Changed',path='/c37'")));
                    if *wk {
                        want.insert(norm("type='signal',sender='org.freedesktop.DBus',interface='org.freedesktop.DBus',member='NameOwnerChanged',path='/org/freedesktop/DBus',arg0='c37.Svc'"));
                    }
                }
            }
        }
        let got: BTreeSet<String> = bus.rules.keys().map(|r| norm(r)).collect();
        // rule 2 of the plain streams and the proxies' owner-change rule differ only by `path`;
        // they are distinct rules and both may be registered
        if got != want {
            return Err(Failure::new(format!("match rules registered with the bus: {got:?}; live signal subscriptions: {want:?}; history {history:?}")));
        }
    }
    // every live stream is really subscribed: a matching signal per rule reaches each of them once
    {
        let rules: BTreeSet<usize> = live.iter().filter_map(|h| if let H::Stream(r, _) = h { Some(*r) } else { None }).filter(|r| *r < 3).collect();
        for (k, r) in rules.iter().enumerate() {
            let mark = 7000 + k as u32;
            match r {
                0 => {
                    let mut m = bus.peer.signal("/c37/x", "c37.A", "Anything", Some(":1.9"), vec![RVal::U(mark)]);
                    m.fields.push((msg::F_DESTINATION, RVal::S(ME.into())));
                    bus.peer.send(&m);
                }
                1 => {
                    let mut m = bus.peer.signal("/c37/y", "c37.B", "Changed", Some(":1.9"), vec![RVal::U(mark)]);
                    m.fields.push((msg::F_DESTINATION, RVal::S(ME.into())));
                    bus.peer.send(&m);
                }
                _ => bus.bus_signal("NameOwnerChanged", vec![RVal::S("c37.Svc".into()), RVal::S(":1.7".into()), RVal::S(format!(":1.{mark}"))], BUS),
            }
        }
        settle(&mut sched, &mut sch, &mut bus);
        for h in live.iter_mut() {
            if let H::Stream(r, s) = h {
                if *r >= 3 {
                    continue;
                }
                let mut got = 0;
                let mut ended = false;
                loop {
                    let mut cx = std::task::Context::from_waker(std::task::Waker::noop());
                    match futures_core::Stream::poll_next(std::pin::Pin::new(&mut *s), &mut cx) {
                        std::task::Poll::Ready(Some(Ok(m))) => {
                            let iface = m.header().interface().map(|i| i.to_string()).unwrap_or_default();
                            let last = match r {
                                0 => iface == "c37.A",
                                1 => iface == "c37.B",
                                _ => iface == "org.freedesktop.DBus" && m.body().deserialize::<(String, String, String)>().map(|b| b.2.starts_with(":1.70")).unwrap_or(false),
                            };
                            if last {
                                got += 1;
                            }
                        }
                        std::task::Poll::Ready(Some(Err(_))) => {}
                        std::task::Poll::Ready(None) => {
                            ended = true;
                            break;
                        }
                        std::task::Poll::Pending => break,
                    }
                }
                if got != 1 || ended {
                    return Err(Failure::new(format!("a live stream for {:?} {} the matching signal sent at the end ({} cop{}); history {history:?}", SRULES[*r], if ended { "ended instead of yielding" } else { "did not yield exactly once" }, got, if got == 1 { "y" } else { "ies" })));
                }
            }
        }
    }
    // everything dropped: nothing stays registered
    live.clear();
    settle(&mut sched, &mut sch, &mut bus);
    if !bus.rules.is_empty() || !bus.add_twice.is_empty() || !bus.remove_unknown.is_empty() {
        return Err(Failure::new(format!("after dropping every stream the bus still has {:?} registered (added twice {:?}, removed unknown {:?}); history {history:?}", bus.rules, bus.add_twice, bus.remove_unknown)));
    }
    let _ = (|| -> Option<Connection> { None })();
    let _: Option<RMsg> = None;
    obs.label(if shared_drop { "drop-with-sharer-alive" } else { "no-shared-drop" });
    if recreated {
        obs.label("last-stream-dropped-while-an-equal-one-is-created");
    }
    if shared_drop {
        obs.nontrivial(fnv(format!("{history:?}").as_bytes()));
        obs.sample("subscriptions", || format!("{history:?}"));
    }
    Ok(())
}
