//! C31 (property cache reflects the received history) and C32 (signal stream follows the owner).

use crate::c_bus::*;
use crate::env::*;
use crate::sched::*;
use futures_util::StreamExt;
use std::collections::BTreeMap;
use std::sync::{Arc, Mutex};
use vcore::refmodel::msg;
use vcore::refmodel::sig::RSig;
use vcore::refmodel::val::RVal;
use vcore::run::{CaseResult, Failure, Obs};
use vcore::src::{fnv, Src};
use zbus::proxy::CacheProperties;

const SVC: &str = "c32.Svc";
const SENDERS: [&str; 3] = [":1.7", ":1.8", ":1.9"];

#[derive(Debug, Clone)]
enum Ev {
    Sig(usize, u32),
    /// genuine owner change to sender index (None = no owner)
    Owner(Option<usize>),
    /// NameOwnerChanged not sent by the bus driver
    Forged(Option<usize>),
    /// genuine change of another name
    OtherName(Option<usize>),
}

pub fn c32_case(src: &mut Src, obs: &mut Obs) -> CaseResult {
    let Some((conn, peer)) = new_bus() else { return Err(Failure::new("harness: bus connection could not be built")) };
    let mut bus = FakeBus::new(peer);
    let mut sched = Sched::new();
    sched.spawn_ticker("exec", conn.executor().clone());
    let sb = src.bytes(16);
    let mut sch = Sch::new(sb);
    let initial: Option<usize> = if src.chance(60) { None } else { Some(src.below(2)) };
    bus.name_owner.insert(SVC.into(), initial.map(|i| SENDERS[i].to_string()));
    let c = conn.clone();
    let stream = run_op(&mut sched, &mut sch, &mut bus, async move {
        let p: zbus::Proxy<'static> = zbus::proxy::Builder::new(&c).destination(SVC).unwrap().path("/c32").unwrap().interface("c32.I").unwrap().cache_properties(CacheProperties::No).build().await.map_err(|e| e.to_string())?;
        p.receive_all_signals().await.map_err(|e| e.to_string())
    });
    let mut stream = match stream {
        Some(Ok(s)) => s,
        other => return Err(Failure::new(format!("creating the signal stream failed: {:?}", other.map(|x| x.err())))),
    };
    settle(&mut sched, &mut sch, &mut bus);
    let n = 1 + src.below(14);
    let mut events = vec![];
    let mut owner = initial;
    let mut expect: Vec<u32> = vec![];
    let mut change_between = false;
    let mut last_sig_sender: Option<usize> = None;
    let mut changed_since_sig = false;
    for id in 0..n as u32 {
        let ev = match src.weighted(&[8, 3, 2, 1]) {
            0 => Ev::Sig(src.below(3), id),
            1 => Ev::Owner(if src.chance(50) { None } else { Some(src.below(3)) }),
            2 => Ev::Forged(if src.chance(50) { None } else { Some(src.below(3)) }),
            _ => Ev::OtherName(Some(src.below(3))),
        };
        let name_of = |o: Option<usize>| RVal::S(o.map(|i| SENDERS[i].to_string()).unwrap_or_default());
        match &ev {
            Ev::Sig(s, id) => {
                let mut m = bus.peer.signal("/c32", "c32.I", "Tick", Some(SENDERS[*s]), vec![RVal::U(*id)]);
                // signals from strangers are unicast to us (a broadcast would not reach us through
                // the bus's sender-filtered match rule)
                m.fields.push((msg::F_DESTINATION, RVal::S(ME.into())));
                bus.peer.send(&m);
                if owner == Some(*s) {
                    expect.push(*id);
                }
                if changed_since_sig && last_sig_sender.is_some() && last_sig_sender != Some(*s) {
                    change_between = true;
                }
                last_sig_sender = Some(*s);
                changed_since_sig = false;
            }
            Ev::Owner(new) => {
                let old = owner;
                bus.bus_signal_broadcast("NameOwnerChanged", vec![RVal::S(SVC.into()), name_of(old), name_of(*new)], BUS);
                owner = *new;
                changed_since_sig = true;
            }
            Ev::Forged(new) => {
                let s = 2; // ":1.9" pretends
                let mut m = bus.peer.signal("/org/freedesktop/DBus", BUS, "NameOwnerChanged", Some(SENDERS[s]), vec![RVal::S(SVC.into()), name_of(owner), name_of(*new)]);
                m.fields.push((msg::F_DESTINATION, RVal::S(ME.into())));
                bus.peer.send(&m);
                changed_since_sig = true;
            }
            Ev::OtherName(new) => {
                bus.bus_signal_broadcast("NameOwnerChanged", vec![RVal::S("c32.Other".into()), name_of(None), name_of(*new)], BUS);
            }
        }
        events.push(ev);
        if src.chance(60) {
            settle(&mut sched, &mut sch, &mut bus);
        }
    }
    settle(&mut sched, &mut sch, &mut bus);
    // drain the stream
    let got: Arc<Mutex<Vec<u32>>> = Default::default();
    let g2 = got.clone();
    let want_n = expect.len();
    let a = sched.spawn("drain", async move {
        loop {
            match stream.next().await {
                Some(m) => {
                    let id = m.body().deserialize::<u32>().unwrap_or(u32::MAX);
                    g2.lock().unwrap().push(id);
                }
                None => break,
            }
        }
    });
    let _ = sched.run(&mut || sch.next(), 300_000, &mut |s| {
        bus.turn();
        s.done(a) || got.lock().unwrap().len() > want_n + 4
    });
    // quiescence: nothing more comes
    let got = got.lock().unwrap().clone();
    if got != expect {
        return Err(Failure::new(format!("the signal stream yielded ids {got:?}, the owner history implies {expect:?}; initial owner {:?}, events {events:?}", initial.map(|i| SENDERS[i]))));
    }
    obs.label(if events.iter().any(|e| matches!(e, Ev::Forged(_))) { "with-forged-owner-change" } else { "genuine-only" });
    if change_between {
        obs.nontrivial(fnv(format!("{initial:?}{events:?}").as_bytes()));
        obs.sample("owner-history", || format!("initial owner {:?}, events {events:?} -> yielded {got:?}", initial.map(|i| SENDERS[i])));
    }
    Ok(())
}

impl FakeBus {
    /// a broadcast signal from the bus driver (no destination)
    pub fn bus_signal_broadcast(&mut self, member: &str, body: Vec<RVal>, sender: &str) {
        let s = self.peer.signal("/org/freedesktop/DBus", BUS, member, Some(sender), body);
        self.peer.send(&s);
    }
}

// ------------------------------------------------------------------------------------------------
// C31

#[derive(Debug, Clone)]
enum PEv {
    /// PropertiesChanged for our interface: changed A / B / Unc, or invalidated
    Changed(&'static str, u32),
    Invalidated(&'static str),
    Other(&'static str, u32),
    /// one signal naming several properties as invalidated, in this order (the uncached one among them)
    InvMany(&'static [&'static str]),
    /// one signal changing A and the uncached property and invalidating B
    Mixed(u32),
}

const INV_LISTS: [&[&str]; 6] = [&["Unc", "A"], &["A", "Unc"], &["Unc", "A", "B"], &["B", "Unc", "A"], &["A", "B"], &["Unc"]];

fn pc_signal(bus: &mut FakeBus, iface: &str, changed: Vec<(&str, RVal)>, invalidated: Vec<&str>) {
    let dict = RVal::Dict(RSig::S, RSig::V, changed.into_iter().map(|(k, v)| (RVal::S(k.into()), RVal::V(Box::new((v.sig(), v))))).collect());
    let inv = RVal::A(RSig::S, invalidated.into_iter().map(|s| RVal::S(s.into())).collect());
    let m = bus.peer.signal("/c31", "org.freedesktop.DBus.Properties", "PropertiesChanged", Some(":1.7"), vec![RVal::S(iface.into()), dict, inv]);
    bus.peer.send(&m);
}

pub fn c31_case(src: &mut Src, obs: &mut Obs) -> CaseResult {
    let Some((conn, peer)) = new_bus() else { return Err(Failure::new("harness: bus connection could not be built")) };
    let mut bus = FakeBus::new(peer);
    let mut sched = Sched::new();
    sched.spawn_ticker("exec", conn.executor().clone());
    let sb = src.bytes(16);
    let mut sch = Sch::new(sb);
    // server state
    let mut a = src.below(50) as u32;
    let mut b = 100 + src.below(50) as u32;
    let mut unc = 200u32;
    let gen_ev = |src: &mut Src, k: u32| -> PEv {
        match src.weighted(&[5, 3, 2, 2, 2, 2, 1]) {
            5 => PEv::InvMany(INV_LISTS[src.below(INV_LISTS.len())]),
            6 => PEv::Mixed(4000 + k),
            0 => PEv::Changed("A", 1000 + k),
            1 => PEv::Changed("B", 2000 + k),
            2 => PEv::Changed("Unc", 3000 + k),
            3 => PEv::Invalidated(if src.bool() { "A" } else { "B" }),
            _ => PEv::Other("A", 9000 + k),
        }
    };
    let npre = src.below(4);
    let npost = src.below(6);
    let pre: Vec<PEv> = (0..npre).map(|k| gen_ev(src, k as u32)).collect();
    let post: Vec<PEv> = (0..npost).map(|k| gen_ev(src, 50 + k as u32)).collect();
    let split_after_reply = src.bool();
    let c = conn.clone();
    let proxy_slot: Arc<Mutex<Option<zbus::Proxy<'static>>>> = Default::default();
    let p2 = proxy_slot.clone();
    let build = sched.spawn("build", async move {
        let p: zbus::Proxy<'static> = zbus::proxy::Builder::new(&c).destination(":1.7").unwrap().path("/c31").unwrap().interface("c31.I").unwrap().cache_properties(CacheProperties::Yes).uncached_properties(&["Unc"]).build().await.expect("proxy");
        *p2.lock().unwrap() = Some(p);
    });
    // the fake service: answers GetAll with its state at that moment, surrounded by the signals
    let mut served = false;
    let mut expect_a: Option<u32> = None;
    let mut expect_b: Option<u32> = None;
    let pre2 = pre.clone();
    let post2 = post.clone();
    let apply_server = |ev: &PEv, a: &mut u32, b: &mut u32, unc: &mut u32| match ev {
        PEv::Changed("A", v) => *a = *v,
        PEv::Changed("B", v) => *b = *v,
        PEv::Changed(_, v) => *unc = *v,
        PEv::Mixed(v) => {
            *a = *v;
            *unc = *v + 1;
        }
        _ => {}
    };
    let emit = |bus: &mut FakeBus, ev: &PEv| match ev {
        PEv::Changed(n, v) => pc_signal(bus, "c31.I", vec![(*n, RVal::U(*v))], vec![]),
        PEv::Invalidated(n) => pc_signal(bus, "c31.I", vec![], vec![*n]),
        PEv::Other(n, v) => pc_signal(bus, "c31.Other", vec![(*n, RVal::U(*v))], vec![]),
        PEv::InvMany(l) => pc_signal(bus, "c31.I", vec![], l.to_vec()),
        PEv::Mixed(v) => pc_signal(bus, "c31.I", vec![("Unc", RVal::U(*v + 1)), ("A", RVal::U(*v))], vec!["Unc", "B"]),
    };
    let oc = sched.run(&mut || sch.next(), 400_000, &mut |s| {
        for i in bus.peer.pump() {
            let m = bus.peer.out[i].clone();
            if m.mtype != msg::T_CALL {
                continue;
            }
            match m.get_str(msg::F_MEMBER) {
                Some("AddMatch") | Some("RemoveMatch") => {
                    let r = bus.peer.method_return(&m, vec![], Some(BUS));
                    bus.peer.send(&r);
                }
                Some("GetAll") if !served => {
                    served = true;
                    for ev in &pre2 {
                        apply_server(ev, &mut a, &mut b, &mut unc);
                        emit(&mut bus, ev);
                    }
                    // snapshot
                    let snap = RVal::Dict(RSig::S, RSig::V, vec![
                        (RVal::S("A".into()), RVal::V(Box::new((RSig::U, RVal::U(a))))),
                        (RVal::S("B".into()), RVal::V(Box::new((RSig::U, RVal::U(b))))),
                        (RVal::S("Unc".into()), RVal::V(Box::new((RSig::U, RVal::U(unc))))),
                    ]);
                    let r = bus.peer.method_return(&m, vec![snap], Some(":1.7"));
                    bus.peer.send(&r);
                    expect_a = Some(a);
                    expect_b = Some(b);
                    if !split_after_reply {
                        for ev in &post2 {
                            apply_server(ev, &mut a, &mut b, &mut unc);
                            emit(&mut bus, ev);
                            match ev {
                                PEv::Changed("A", v) => expect_a = Some(*v),
                                PEv::Changed("B", v) => expect_b = Some(*v),
                                PEv::Invalidated("A") => expect_a = None,
                                PEv::Invalidated("B") => expect_b = None,
                                PEv::InvMany(l) => {
                                    if l.contains(&"A") {
                                        expect_a = None;
                                    }
                                    if l.contains(&"B") {
                                        expect_b = None;
                                    }
                                }
                                PEv::Mixed(v) => {
                                    expect_a = Some(*v);
                                    expect_b = None;
                                }
                                _ => {}
                            }
                        }
                    }
                }
                Some("GetAll") => {
                    let r = bus.peer.error(&m, "c31.Again", "second GetAll", Some(":1.7"));
                    bus.peer.send(&r);
                }
                Some("Get") => {
                    // refetch of an invalidated property
                    let name = match m.body.get(1) {
                        Some(RVal::S(s)) => s.clone(),
                        _ => String::new(),
                    };
                    let v = match name.as_str() {
                        "A" => a,
                        "B" => b,
                        _ => unc,
                    };
                    let r = bus.peer.method_return(&m, vec![RVal::V(Box::new((RSig::U, RVal::U(v))))], Some(":1.7"));
                    bus.peer.send(&r);
                }
                _ => {}
            }
        }
        s.done(build)
    });
    if oc != Outcome::Goal {
        return Err(Failure::new(format!("building the caching proxy does not complete ({oc:?}); pre {pre:?} post {post:?}")));
    }
    let proxy = proxy_slot.lock().unwrap().take().unwrap();
    settle_raw(&mut sched, &mut sch, &mut bus);
    if split_after_reply {
        // the later changes arrive after the cache task has (possibly) consumed the reply
        for ev in &post {
            apply_server(ev, &mut a, &mut b, &mut unc);
            emit(&mut bus, ev);
            match ev {
                PEv::Changed("A", v) => expect_a = Some(*v),
                PEv::Changed("B", v) => expect_b = Some(*v),
                PEv::Invalidated("A") => expect_a = None,
                PEv::Invalidated("B") => expect_b = None,
                PEv::InvMany(l) => {
                    if l.contains(&"A") {
                        expect_a = None;
                    }
                    if l.contains(&"B") {
                        expect_b = None;
                    }
                }
                PEv::Mixed(v) => {
                    expect_a = Some(*v);
                    expect_b = None;
                }
                _ => {}
            }
        }
        settle_raw(&mut sched, &mut sch, &mut bus);
    }
    let got_a: Option<u32> = proxy.cached_property::<u32>("A").map_err(|e| Failure::new(format!("cached_property(A) failed: {e}")))?;
    let got_b: Option<u32> = proxy.cached_property::<u32>("B").map_err(|e| Failure::new(format!("cached_property(B) failed: {e}")))?;
    let got_u: Option<u32> = proxy.cached_property::<u32>("Unc").map_err(|e| Failure::new(format!("cached_property(Unc) failed: {e}")))?;
    let describe = || format!("signals before the GetAll reply {pre:?}, after it {post:?} ({}), cached A={got_a:?} B={got_b:?} Unc={got_u:?}, expected A={expect_a:?} B={expect_b:?} Unc=None", if split_after_reply { "delivered after the proxy was built" } else { "delivered with the reply" });
    if got_a != expect_a || got_b != expect_b {
        return Err(Failure::new(format!("the property cache does not reflect the received history; {}", describe())));
    }
    if got_u.is_some() {
        return Err(Failure::new(format!("a property marked uncached is in the cache; {}", describe())));
    }
    // ---- property change streams: "report the latest value" ---------------------------------------
    // One or two streams for A (and what they yield is looked at only when everything is at rest, so
    // that coalescing — documented — never decides the verdict): a stream created while the cache
    // holds a value yields first, and reports that value; after further signals that touch A every
    // stream yields, and what it reports (from the cache, or fetched anew after an invalidation) is
    // the service's latest value. Yields nobody asked for are allowed, with the latest value too.
    let nstreams = 1 + src.below(2);
    let poll_first_before_second = src.bool();
    let more: Vec<PEv> = (0..src.below(4)).map(|k| gen_ev(src, 80 + k as u32)).collect();
    let mut streams: Vec<zbus::proxy::PropertyStream<'static, u32>> = vec![];
    let mut stream_notes: Vec<String> = vec![];
    let touches_a = |ev: &PEv| match ev {
        PEv::Changed("A", _) | PEv::Invalidated("A") | PEv::Mixed(_) => true,
        PEv::InvMany(l) => l.contains(&"A"),
        _ => false,
    };
    // what a yielded item reports, the fake service answering a refetch with its current state
    let mut report = |item: zbus::proxy::PropertyChanged<'static, u32>, sched: &mut Sched, sch: &mut Sch, bus: &mut FakeBus, a: u32, b: u32, unc: u32| -> Result<u32, String> {
        let out: Arc<Mutex<Option<zbus::Result<u32>>>> = Default::default();
        let o2 = out.clone();
        let t = sched.spawn("report", async move {
            let r = item.get().await;
            *o2.lock().unwrap() = Some(r);
        });
        let oc = sched.run(&mut || sch.next(), 300_000, &mut |s| {
            for i in bus.peer.pump() {
                let m = bus.peer.out[i].clone();
                if m.mtype != msg::T_CALL {
                    continue;
                }
                match m.get_str(msg::F_MEMBER) {
                    Some("Get") => {
                        let v = match m.body.get(1) {
                            Some(RVal::S(s)) if s == "A" => a,
                            Some(RVal::S(s)) if s == "B" => b,
                            _ => unc,
                        };
                        let r = bus.peer.method_return(&m, vec![RVal::V(Box::new((RSig::U, RVal::U(v))))], Some(":1.7"));
                        bus.peer.send(&r);
                    }
                    _ => {
                        let r = bus.peer.method_return(&m, vec![], Some(BUS));
                        bus.peer.send(&r);
                    }
                }
            }
            s.done(t)
        });
        if oc != Outcome::Goal {
            return Err(format!("reading what the change stream's item reports does not complete ({oc:?})"));
        }
        let r = out.lock().unwrap().take();
        match r {
            Some(Ok(v)) => Ok(v),
            Some(Err(e)) => Err(format!("the item's get() failed: {e}")),
            None => Err("harness: no result".into()),
        }
    };
    let poll_once = |st: &mut zbus::proxy::PropertyStream<'static, u32>| -> Option<zbus::proxy::PropertyChanged<'static, u32>> {
        let mut cx = std::task::Context::from_waker(std::task::Waker::noop());
        match futures_core::Stream::poll_next(std::pin::Pin::new(st), &mut cx) {
            std::task::Poll::Ready(x) => x,
            std::task::Poll::Pending => None,
        }
    };
    for k in 0..nstreams {
        if k == 1 && poll_first_before_second {
            // (the first stream has yielded and listens again: it is the older listener when the
            // second one is created)
            while let Some(item) = poll_once(&mut streams[0]) {
                let v = report(item, &mut sched, &mut sch, &mut bus, a, b, unc).map_err(Failure::new)?;
                if v != a {
                    return Err(Failure::new(format!("a property change stream reports A={v}, the latest value is {a}; {}", describe())));
                }
            }
        }
        let px = proxy.clone();
        let Some(mut st) = block_on_simple(async move { px.receive_property_changed::<u32>("A").await }, 10_000) else { return Err(Failure::new("harness: creating a property stream does not complete")) };
        if expect_a.is_some() {
            match poll_once(&mut st) {
                Some(item) => {
                    let v = report(item, &mut sched, &mut sch, &mut bus, a, b, unc).map_err(Failure::new)?;
                    if v != a {
                        return Err(Failure::new(format!("a new property change stream first reports A={v}, the current value is {a}; {}", describe())));
                    }
                    stream_notes.push(format!("stream {k} first yielded A={v}"));
                }
                None => {
                    return Err(Failure::keyed(
                        if k == 0 { "first-stream-does-not-yield-current-value" } else { "later-stream-does-not-yield-current-value" },
                        format!("property change stream {k} for A, created while the cache holds A={:?}, does not yield the current value first (streams for A before it: {k}, the first of them polled again before: {}); {}", expect_a, k == 1 && poll_first_before_second, describe()),
                    ));
                }
            }
        }
        streams.push(st);
    }
    // drain whatever else is ready now (allowed), then the further signals; a consumer that is slow
    // to come back does not poll again after the item it got (what arrives meanwhile must not be lost)
    let comes_back_late = src.bool();
    for st in streams.iter_mut().filter(|_| !comes_back_late) {
        while let Some(item) = poll_once(st) {
            let v = report(item, &mut sched, &mut sch, &mut bus, a, b, unc).map_err(Failure::new)?;
            if v != a {
                return Err(Failure::new(format!("a property change stream reports A={v}, the latest value is {a}; {}", describe())));
            }
        }
    }
    // two rounds of further signals; a consumer that comes back late takes one item per round and does
    // not poll again before the next round's signals have been received
    let more2: Vec<PEv> = (0..src.below(3)).map(|k| gen_ev(src, 90 + k as u32)).collect();
    let mut touched = false;
    for (round, evs) in [&more, &more2].into_iter().enumerate() {
        let mut touched_now = false;
        for ev in evs.iter() {
            apply_server(ev, &mut a, &mut b, &mut unc);
            emit(&mut bus, ev);
            touched_now |= touches_a(ev);
        }
        touched |= touched_now;
        settle_raw(&mut sched, &mut sch, &mut bus);
        for (k, st) in streams.iter_mut().enumerate() {
            let mut yielded = 0;
            while let Some(item) = poll_once(st) {
                yielded += 1;
                let v = report(item, &mut sched, &mut sch, &mut bus, a, b, unc).map_err(Failure::new)?;
                if v != a {
                    return Err(Failure::new(format!("property change stream {k} reports A={v} after the further signals {evs:?} (round {round}), the latest value is {a}; {}", describe())));
                }
                if yielded > 8 {
                    return Err(Failure::new(format!("property change stream {k} keeps yielding without any change ({yielded} items at rest); further signals {evs:?}; {}", describe())));
                }
                if comes_back_late {
                    break;
                }
            }
            if touched_now && yielded == 0 {
                return Err(Failure::new(format!("property change stream {k} for A yields nothing although signals touching A were received since it last yielded: {evs:?} (round {round}, the consumer {}); {}", if comes_back_late { "takes one item per round and does not poll in between" } else { "polls until nothing is ready" }, describe())));
            }
            stream_notes.push(format!("stream {k}: {yielded} item(s) after {evs:?}"));
        }
        if round == 1 && touched_now && comes_back_late {
            obs.label("change-stream:second-change-after-an-item-taken-without-polling-again");
        }
    }
    // ---- a refetch after an invalidation, overtaken by a newer change ------------------------------
    // A is invalidated; the consumer of a change stream asks the item for the value (a Get goes out);
    // the service answers with the value of that moment and then announces a newer one. Whatever the
    // order in which the cache task and the consumer get to run, the cache must end up with the newer
    // value: it is the last thing received.
    let race = src.chance(110);
    if race {
        emit(&mut bus, &PEv::Invalidated("A"));
        settle_raw(&mut sched, &mut sch, &mut bus);
        let Some(item) = poll_once(&mut streams[0]) else {
            return Err(Failure::new(format!("property change stream 0 for A yields nothing after A was invalidated; {}", describe())));
        };
        let out: Arc<Mutex<Option<zbus::Result<u32>>>> = Default::default();
        let o2 = out.clone();
        // (the value is asked for through the stream's item, or through the proxy itself)
        let via_proxy = src.bool();
        let px = proxy.clone();
        let t = sched.spawn("refetch", async move {
            let r = if via_proxy { px.get_property::<u32>("A").await } else { item.get().await };
            *o2.lock().unwrap() = Some(r);
        });
        let older = a;
        let newer = 6000 + (a % 1000);
        let mut answered = false;
        let oc = sched.run(&mut || sch.next(), 300_000, &mut |s| {
            for i in bus.peer.pump() {
                let m = bus.peer.out[i].clone();
                if m.mtype != msg::T_CALL {
                    continue;
                }
                match m.get_str(msg::F_MEMBER) {
                    Some("Get") if !answered => {
                        answered = true;
                        let r = bus.peer.method_return(&m, vec![RVal::V(Box::new((RSig::U, RVal::U(older))))], Some(":1.7"));
                        bus.peer.send(&r);
                        pc_signal(&mut bus, "c31.I", vec![("A", RVal::U(newer))], vec![]);
                    }
                    Some("Get") => {
                        let r = bus.peer.method_return(&m, vec![RVal::V(Box::new((RSig::U, RVal::U(newer))))], Some(":1.7"));
                        bus.peer.send(&r);
                    }
                    _ => {
                        let r = bus.peer.method_return(&m, vec![], Some(BUS));
                        bus.peer.send(&r);
                    }
                }
            }
            s.done(t)
        });
        if oc != Outcome::Goal {
            return Err(Failure::new(format!("fetching an invalidated property through the change stream's item does not complete ({oc:?}); {}", describe())));
        }
        if answered {
            a = newer;
        }
        settle_raw(&mut sched, &mut sch, &mut bus);
        let fetched = out.lock().unwrap().take();
        let cached: Option<u32> = proxy.cached_property::<u32>("A").map_err(|e| Failure::new(format!("cached_property(A) failed: {e}")))?;
        if answered && cached != Some(newer) {
            return Err(Failure::keyed(
                "refetch-overwrites-newer-change",
                format!("after Invalidated(A), a Get (sent by {}) answered with {older} and then PropertiesChanged A={newer}, the cache holds A={cached:?} (the caller got {:?}): the last value received is {newer}; {}", if via_proxy { "Proxy::get_property" } else { "the change stream item's get()" }, fetched.map(|r| r.map_err(|e| e.to_string())), describe()),
            ));
        }
        obs.label(if answered { "change-stream:refetch-overtaken-by-a-newer-change" } else { "change-stream:refetch-without-get" });
    }
    obs.label(if touched { "change-stream:signals-touching-the-property" } else { "change-stream:no-touching-signal" });
    if nstreams == 2 {
        obs.label("change-stream:two-streams-for-one-property");
    }
    if comes_back_late && touched {
        obs.label("change-stream:change-between-an-item-and-the-next-poll");
    }
    let both_sides = pre.iter().any(|e| matches!(e, PEv::Changed("A" | "B", _))) && post.iter().any(|e| matches!(e, PEv::Changed("A" | "B", _) | PEv::Invalidated(_)));
    obs.label(if split_after_reply { "post-signals-later" } else { "post-signals-with-reply" });
    if both_sides {
        obs.nontrivial(fnv(describe().as_bytes()));
        obs.sample("cache", describe);
    }
    let _: BTreeMap<u8, u8> = BTreeMap::new();
    Ok(())
}

fn settle_raw(sched: &mut Sched, sch: &mut Sch, bus: &mut FakeBus) {
    let _ = sched.run(&mut || sch.next(), 300_000, &mut |_| {
        for i in bus.peer.pump() {
            let m = bus.peer.out[i].clone();
            if m.mtype == msg::T_CALL && matches!(m.get_str(msg::F_MEMBER), Some("AddMatch") | Some("RemoveMatch")) {
                let r = bus.peer.method_return(&m, vec![], Some(BUS));
                bus.peer.send(&r);
            }
        }
        false
    });
}
