//! C15: message serial numbers are never zero and never repeat, whatever the number of threads
//! building messages, also across the 32-bit wrap-around (counter placed by the cfg(zbus_verif) hook).

use std::sync::{Arc, Barrier};
use vcore::run::{CaseResult, Failure, Obs};
use vcore::src::{fnv, Src};
use zbus::message::{Message, PrimaryHeader, Type};

pub fn c15_case(src: &mut Src, obs: &mut Obs) -> CaseResult {
    let threads = 2 + src.below(15);
    let per = 200 + src.below(3000);
    let total = (threads * per) as u64;
    // where the counter starts: far from the wrap, straddling it, right after it
    let place = src.below(5);
    let start: u32 = match place {
        0 => 1 + src.u32() % 1_000_000,
        1 => u32::MAX - (total / 2) as u32,
        2 => u32::MAX - src.below(8) as u32,
        3 => 0,
        _ => u32::MAX - (total as u32).saturating_sub(3),
    };
    zbus::message::__verif_set_next_serial(start);
    let barrier = Arc::new(Barrier::new(threads));
    let mut handles = vec![];
    for t in 0..threads {
        let b = barrier.clone();
        let kind = (t + src.below(3)) % 3;
        handles.push(std::thread::spawn(move || {
            let mut v = Vec::with_capacity(per);
            b.wait();
            for i in 0..per {
                let s = match (kind + i) % 3 {
                    0 => PrimaryHeader::new(Type::Signal, 0).serial_num().get(),
                    1 => Message::method_call("/", "M").unwrap().build(&()).unwrap().primary_header().serial_num().get(),
                    _ => Message::signal("/", "a.b", "S").unwrap().build(&(i as u32)).unwrap().primary_header().serial_num().get(),
                };
                v.push(s);
            }
            v
        }));
    }
    let per_thread: Vec<Vec<u32>> = handles.into_iter().map(|h| h.join().expect("builder thread panicked")).collect();
    let mut all: Vec<u32> = per_thread.iter().flatten().copied().collect();
    let n = all.len();
    if all.iter().any(|s| *s == 0) {
        return Err(Failure::new(format!("a message got serial 0 ({threads} threads x {per} messages, counter started at {start})")));
    }
    all.sort_unstable();
    if let Some(w) = all.windows(2).find(|w| w[0] == w[1]) {
        return Err(Failure::new(format!("serial {} was handed out twice ({threads} threads x {per} messages, counter started at {start})", w[0])));
    }
    // every thread sees its own serials strictly "increasing" modulo the wrap
    for (t, v) in per_thread.iter().enumerate() {
        for w in v.windows(2) {
            let d = w[1].wrapping_sub(w[0]);
            if d == 0 || d > (total as u32 + 4) {
                return Err(Failure::new(format!("thread {t} got serial {} after {} ({threads} threads, start {start})", w[1], w[0])));
            }
        }
    }
    let crosses = (start as u64) + total + 2 > u32::MAX as u64 || start == 0;
    // interleaving: the ranges of at least two threads overlap
    let ranges: Vec<(u32, u32)> = per_thread.iter().map(|v| (v[0].wrapping_sub(start), v[v.len() - 1].wrapping_sub(start))).collect();
    let mut overlap = false;
    for i in 0..ranges.len() {
        for j in 0..i {
            if ranges[i].0 < ranges[j].1 && ranges[j].0 < ranges[i].1 {
                overlap = true;
            }
        }
    }
    obs.label(if crosses { "crosses-wrap" } else { "no-wrap" });
    if overlap {
        obs.label("threads-interleaved");
    }
    obs.count("serials", n as u64);
    if (threads >= 4 && overlap) || crosses {
        obs.nontrivial(fnv(format!("{threads}-{per}-{start}-{:?}", &ranges[..2.min(ranges.len())]).as_bytes()));
        obs.sample(if crosses { "wrap" } else { "plain" }, || format!("{threads} threads x {per} messages, counter from {start}: {} distinct non-zero serials, thread ranges (relative) {:?}", n, &ranges[..ranges.len().min(4)]));
    }
    Ok(())
}
