//! C15: message serial numbers are never zero and never repeat, whatever the number of threads
//! building messages, also across the 32-bit wrap-around (counter placed by the cfg(zbus_verif) hook).

use std::sync::{Arc, Barrier};
use vcore::run::{CaseResult, Failure, Obs};
use vcore::src::{fnv, Src};
use zbus::message::{Message, PrimaryHeader, Type};

fn too_deep() -> zbus::zvariant::Value<'static> {
    let mut v = zbus::zvariant::Value::U8(1);
    for _ in 0..70 {
        v = zbus::zvariant::Value::Value(Box::new(v));
    }
    v
}

/// The wrap under contention: persistent threads, released together again and again with the
/// counter placed a few draws before the wrap, each drawing a handful of serials — the instant at
/// which one thread draws the zero while the others draw around it.
pub fn c15_wrap_race(rounds: u64, obs: &mut Obs) -> Result<(), Failure> {
    use std::sync::atomic::{AtomicBool, Ordering};
    use std::sync::Mutex;
    let threads = 8usize;
    let per = 5usize;
    let start_b = Arc::new(Barrier::new(threads + 1));
    let end_b = Arc::new(Barrier::new(threads + 1));
    let stop = Arc::new(AtomicBool::new(false));
    let out: Arc<Vec<Mutex<Vec<u32>>>> = Arc::new((0..threads).map(|_| Mutex::new(vec![])).collect());
    let mut handles = vec![];
    for t in 0..threads {
        let (sb, eb, st, o) = (start_b.clone(), end_b.clone(), stop.clone(), out.clone());
        handles.push(std::thread::spawn(move || loop {
            sb.wait();
            if st.load(Ordering::SeqCst) {
                return;
            }
            let mut v = Vec::with_capacity(per);
            for i in 0..per {
                v.push(if (t + i) % 2 == 0 { PrimaryHeader::new(Type::Signal, 0).serial_num().get() } else { Message::method_call("/", "M").unwrap().build(&()).unwrap().primary_header().serial_num().get() });
            }
            *o[t].lock().unwrap() = v;
            eb.wait();
        }));
    }
    let mut fail = None;
    for r in 0..rounds {
        let start = u32::MAX - (r % 7) as u32;
        zbus::message::__verif_set_next_serial(start);
        start_b.wait();
        end_b.wait();
        let mut all: Vec<u32> = out.iter().flat_map(|m| m.lock().unwrap().clone()).collect();
        all.sort_unstable();
        if all.first() == Some(&0) {
            fail = Some(format!("a message got serial 0 in round {r} ({threads} threads x {per} draws released together, counter at {start})"));
            break;
        }
        if let Some(w) = all.windows(2).find(|w| w[0] == w[1]) {
            fail = Some(format!("serial {} was handed out twice in round {r} ({threads} threads x {per} draws released together, counter at {start}): {all:?}", w[0]));
            break;
        }
        if r < 3 {
            obs.sample("wrap-race", || format!("round {r}: counter at {start}, {threads} threads x {per} draws -> {all:?}"));
        }
        obs.evaluations += 1;
        obs.nontrivial(fnv(format!("{r}{all:?}").as_bytes()));
    }
    stop.store(true, Ordering::SeqCst);
    start_b.wait();
    for h in handles {
        let _ = h.join();
    }
    obs.count("wrap-race-rounds", rounds);
    match fail {
        Some(m) => Err(Failure::new(m)),
        None => Ok(()),
    }
}

pub fn c15_case(src: &mut Src, obs: &mut Obs) -> CaseResult {
    let threads = 2 + src.below(15);
    let per = 200 + src.below(3000);
    let total = (threads * per) as u64;
    // where the counter starts: far from the wrap, straddling it, right after it
    let place = src.below(5);
    let start: u32 = match place {
        0 => 1 + src.u32() % 1_000_000,
        1 => u32::MAX - (total / 2) as u32,
        2 => u32::MAX - src.below(8) as u32,
        3 => 0,
        _ => u32::MAX - (total as u32).saturating_sub(3),
    };
    zbus::message::__verif_set_next_serial(start);
    let barrier = Arc::new(Barrier::new(threads));
    let mut handles = vec![];
    for t in 0..threads {
        let b = barrier.clone();
        let kind = (t + src.below(3)) % 3;
        // some threads also attempt builds that fail (a body nested beyond the limits): a serial
        // drawn for a message that is never built must not come back into circulation
        let failing = src.chance(90);
        handles.push(std::thread::spawn(move || {
            let mut v = Vec::with_capacity(per);
            let deep = too_deep();
            b.wait();
            for i in 0..per {
                if failing && i % 5 == 2 {
                    let r = Message::method_call("/", "M").unwrap().build(&deep);
                    assert!(r.is_err(), "harness: a body nested 70 deep was accepted");
                }
                let s = match (kind + i) % 3 {
                    0 => PrimaryHeader::new(Type::Signal, 0).serial_num().get(),
                    1 => Message::method_call("/", "M").unwrap().build(&()).unwrap().primary_header().serial_num().get(),
                    _ => Message::signal("/", "a.b", "S").unwrap().build(&(i as u32)).unwrap().primary_header().serial_num().get(),
                };
                v.push(s);
            }
            v
        }));
    }
    let per_thread: Vec<Vec<u32>> = handles.into_iter().map(|h| h.join().expect("builder thread panicked")).collect();
    let mut all: Vec<u32> = per_thread.iter().flatten().copied().collect();
    let n = all.len();
    if all.iter().any(|s| *s == 0) {
        return Err(Failure::new(format!("a message got serial 0 ({threads} threads x {per} messages, counter started at {start})")));
    }
    all.sort_unstable();
    if let Some(w) = all.windows(2).find(|w| w[0] == w[1]) {
        return Err(Failure::new(format!("serial {} was handed out twice ({threads} threads x {per} messages, counter started at {start})", w[0])));
    }
    // every thread sees its own serials strictly "increasing" modulo the wrap
    for (t, v) in per_thread.iter().enumerate() {
        for w in v.windows(2) {
            let d = w[1].wrapping_sub(w[0]);
            if d == 0 || d > (total as u32 + 4) {
                return Err(Failure::new(format!("thread {t} got serial {} after {} ({threads} threads, start {start})", w[1], w[0])));
            }
        }
    }
    let crosses = (start as u64) + total + 2 > u32::MAX as u64 || start == 0;
    // interleaving: the ranges of at least two threads overlap
    let ranges: Vec<(u32, u32)> = per_thread.iter().map(|v| (v[0].wrapping_sub(start), v[v.len() - 1].wrapping_sub(start))).collect();
    let mut overlap = false;
    for i in 0..ranges.len() {
        for j in 0..i {
            if ranges[i].0 < ranges[j].1 && ranges[j].0 < ranges[i].1 {
                overlap = true;
            }
        }
    }
    obs.label(if crosses { "crosses-wrap" } else { "no-wrap" });
    if overlap {
        obs.label("threads-interleaved");
    }
    obs.count("serials", n as u64);
    if (threads >= 4 && overlap) || crosses {
        obs.nontrivial(fnv(format!("{threads}-{per}-{start}-{:?}", &ranges[..2.min(ranges.len())]).as_bytes()));
        obs.sample(if crosses { "wrap" } else { "plain" }, || format!("{threads} threads x {per} messages, counter from {start}: {} distinct non-zero serials, thread ranges (relative) {:?}", n, &ranges[..ranges.len().min(4)]));
    }
    Ok(())
}
