//! C14 (framing of the byte stream) and the stream part of C13, through the public provided method
//! `ReadHalf::receive_message` of a scripted socket — the path bytes from real peers take.

use crate::bridge::*;
use crate::c_msg::*;
use crate::sched::*;
use std::os::fd::{AsRawFd, OwnedFd};
use vcore::refmodel::msg::{self, RMsg};
use vcore::refmodel::val::RVal;
use vcore::run::{CaseResult, Failure, Obs};
use vcore::src::{fnv, hex, Src};
use vcore::{vensure, vfail};
use zbus::connection::socket::ReadHalf;
use zbus::message::Message;

pub struct Wire {
    pub bytes: Vec<u8>,
    /// (stream offset of the message's first byte, fd handles of that message)
    pub anchors: Vec<(usize, Vec<u32>)>,
    pub msgs: Vec<(Vec<u8>, Vec<u32>)>,
}

pub fn wire_of(msgs: &[RMsg]) -> Wire {
    let mut w = Wire { bytes: vec![], anchors: vec![], msgs: vec![] };
    for m in msgs {
        let b = m.build();
        if !b.fds.is_empty() {
            w.anchors.push((w.bytes.len(), b.fds.clone()));
        }
        w.msgs.push((b.bytes.clone(), b.fds.clone()));
        w.bytes.extend_from_slice(&b.bytes);
    }
    w
}

fn dup(h: u32) -> OwnedFd {
    fd_table().fds[h as usize % 4].try_clone().expect("dup")
}

/// Cut the stream into chunks. An fd-carrying message start is always a chunk start (the kernel
/// never merges data across an SCM_RIGHTS boundary into one recvmsg).
pub fn chunk_stream(src: &mut Src, w: &Wire, from: usize) -> Vec<(Vec<u8>, Vec<OwnedFd>)> {
    let n = w.bytes.len();
    let mut cuts: Vec<usize> = vec![from, n];
    for (a, _) in &w.anchors {
        if *a > from {
            cuts.push(*a);
        }
    }
    match src.below(5) {
        0 => {}
        1 => {
            // one-byte drip
            for i in from..n {
                cuts.push(i);
            }
        }
        2 => {
            // message boundaries
            let mut p = 0;
            for (b, _) in &w.msgs {
                p += b.len();
                if p > from {
                    cuts.push(p);
                }
            }
        }
        _ => {
            let k = 1 + src.below(8);
            for _ in 0..k {
                if n > from {
                    cuts.push(from + src.below(n - from));
                }
            }
            // a cut inside some header
            if !w.msgs.is_empty() {
                let mi = src.below(w.msgs.len());
                let start: usize = w.msgs[..mi].iter().map(|(b, _)| b.len()).sum();
                let c = start + 1 + src.below(15);
                if c > from && c < n {
                    cuts.push(c);
                }
            }
        }
    }
    cuts.sort();
    cuts.dedup();
    let mut out = vec![];
    for win in cuts.windows(2) {
        let (a, b) = (win[0], win[1]);
        if a == b {
            continue;
        }
        let fds: Vec<OwnedFd> = w.anchors.iter().filter(|(p, _)| *p == a && *p >= from).flat_map(|(_, h)| h.iter().map(|x| dup(*x))).collect();
        out.push((w.bytes[a..b].to_vec(), fds));
    }
    out
}

fn fd_inos(m: &Message) -> Vec<(u64, u64)> {
    m.data().fds().iter().map(|f| ino_of_fd(f.as_raw_fd())).collect()
}
fn handle_inos(h: &[u32]) -> Vec<(u64, u64)> {
    h.iter().map(|x| fd_table().inos[*x as usize % 4]).collect()
}

/// read messages until an error; returns (messages, the error text)
pub fn drain_reader(read: &mut SRead, mut already_bytes: Vec<u8>, mut already_fds: Vec<OwnedFd>, max: usize) -> (Vec<Message>, String) {
    let mut out = vec![];
    let mut seq = 0u64;
    loop {
        seq += 1;
        if out.len() > max {
            return (out, "harness: too many messages".into());
        }
        // receive_message only awaits the scripted socket, which never blocks once EOF is scripted
        let r = {
            let fut = read.receive_message(seq, &mut already_bytes, &mut already_fds);
            poll_to_end(fut)
        };
        match r {
            Some(Ok(m)) => out.push(m),
            Some(Err(e)) => return (out, e.to_string()),
            None => return (out, "harness: reader stuck (pending with EOF scripted)".into()),
        }
    }
}

/// poll a future that borrows locals (no 'static bound) until Ready; None if it stays Pending
pub fn poll_to_end<T>(fut: impl std::future::Future<Output = T>) -> Option<T> {
    use std::task::{Context, Poll, Wake, Waker};
    struct N;
    impl Wake for N {
        fn wake(self: std::sync::Arc<Self>) {}
    }
    let waker = Waker::from(std::sync::Arc::new(N));
    let mut cx = Context::from_waker(&waker);
    let mut fut = std::pin::pin!(fut);
    for _ in 0..100_000 {
        if let Poll::Ready(v) = fut.as_mut().poll(&mut cx) {
            return Some(v);
        }
    }
    None
}

pub fn c14_case(src: &mut Src, obs: &mut Obs) -> CaseResult {
    let n = 1 + src.below(5);
    let msgs: Vec<RMsg> = (0..n)
        .map(|i| {
            let mut m = gen_rmsg(src, true);
            m.serial = 100 + i as u32;
            m
        })
        .collect();
    let w = wire_of(&msgs);
    // handshake leftovers: a prefix of the stream, with the fds anchored in it
    let k = match src.below(4) {
        0 | 1 => 0,
        2 => src.below(w.bytes.len().min(40) + 1),
        _ => src.below(w.bytes.len() + 1),
    };
    let already_bytes = w.bytes[..k].to_vec();
    let already_fds: Vec<OwnedFd> = w.anchors.iter().filter(|(p, _)| *p < k).flat_map(|(_, h)| h.iter().map(|x| dup(*x))).collect();
    let n_already_fds = already_fds.len();
    let chunks = chunk_stream(src, &w, k);
    let n_chunks = chunks.len();
    let (sock, sh) = SSocket::new();
    for (b, f) in chunks {
        feed(&sh, b, f);
    }
    set_eof(&sh);
    let (mut read, _write) = zbus::connection::socket::Socket::split(sock).take();
    let (got, err) = drain_reader(&mut read, already_bytes, already_fds, n + 2);
    let describe = || {
        format!(
            "{} messages (lengths {:?}, fds {:?}), leftover prefix {k} bytes + {n_already_fds} fds, {n_chunks} chunks; stream={}",
            n,
            w.msgs.iter().map(|(b, _)| b.len()).collect::<Vec<_>>(),
            w.msgs.iter().map(|(_, f)| f.len()).collect::<Vec<_>>(),
            hex(&w.bytes[..w.bytes.len().min(120)])
        )
    };
    // classifier for the leftover-fd branch of receive_message
    let leftover_fd_case = n_already_fds > 0;
    if got.len() != n {
        let msg = format!("reader yielded {} of {} messages, then: {err}; {}", got.len(), n, describe());
        if leftover_fd_case {
            return Err(Failure::keyed("framing-leftover-fds-misattributed", msg));
        }
        vfail!("{msg}");
    }
    let mut last = 0u64;
    for (i, m) in got.iter().enumerate() {
        vensure!(m.data().bytes() == &w.msgs[i].0[..], "message {i} is not byte-identical; {}", describe());
        if fd_inos(m) != handle_inos(&w.msgs[i].1) {
            let msg = format!("message {i} carries fds {:?}, expected {:?}; {}", fd_inos(m), handle_inos(&w.msgs[i].1), describe());
            if leftover_fd_case {
                return Err(Failure::keyed("framing-leftover-fds-misattributed", msg));
            }
            vfail!("{msg}");
        }
        let pos = format!("{:?}", m.recv_position());
        let p: u64 = pos.chars().filter(|c| c.is_ascii_digit()).collect::<String>().parse().unwrap_or(0);
        vensure!(p > last, "receive positions not strictly increasing: {pos} after {last}");
        last = p;
    }
    vensure!(err.to_lowercase().contains("eof") || err.contains("failed to receive"), "after the last message the reader reports {err:?} instead of end of stream; {}", describe());
    // no read asked for more than the rest of the stream
    let st = sh.lock().unwrap();
    let biggest = st.recv_buf_sizes.iter().copied().max().unwrap_or(0);
    vensure!(biggest <= w.bytes.len().max(16), "a recvmsg buffer of {biggest} bytes was used for a {} byte stream", w.bytes.len());
    drop(st);
    let cut_in_header = n_chunks > n;
    if n >= 2 && (cut_in_header || w.anchors.len() > 0) {
        obs.nontrivial(fnv(format!("{}{k}{n_chunks}", hex(&w.bytes)).as_bytes()));
        obs.sample(if w.anchors.is_empty() { "plain" } else { "with-fds" }, describe);
    }
    obs.label(if k > 0 { "handshake-leftover" } else { "no-leftover" });
    if n_already_fds > 0 {
        obs.label("leftover-fds");
    }
    Ok(())
}

/// header announcing more than 128 MiB: rejected without reading the body
pub fn c14_big_case(src: &mut Src, obs: &mut Obs) -> CaseResult {
    let mut m = gen_rmsg(src, false);
    m.body = vec![];
    let mut b = m.build().bytes;
    let big = m.big;
    let put = |b: &mut Vec<u8>, at: usize, v: u32| {
        let x = if big { v.to_be_bytes() } else { v.to_le_bytes() };
        b[at..at + 4].copy_from_slice(&x);
    };
    let over = 128 * 1024 * 1024u32;
    let which = src.below(3);
    match which {
        0 => put(&mut b, 4, over + src.below(1000) as u32),
        1 => put(&mut b, 4, 0xffff_fff0),
        _ => {
            let hdr = msg::announced_len(&b[..16]).unwrap() as u32;
            put(&mut b, 4, over - hdr + 1 + src.below(8) as u32);
        }
    }
    let (sock, sh) = SSocket::new();
    feed(&sh, b.clone(), vec![]);
    feed(&sh, vec![0u8; 4096], vec![]);
    set_eof(&sh);
    let (mut read, _w) = zbus::connection::socket::Socket::split(sock).take();
    let (got, err) = drain_reader(&mut read, vec![], vec![], 4);
    vensure!(got.is_empty(), "a message announcing more than 128 MiB was accepted ({} messages)", got.len());
    let st = sh.lock().unwrap();
    let biggest = st.recv_buf_sizes.iter().copied().max().unwrap_or(0);
    vensure!(biggest < 1 << 20, "the oversized message was being read: recvmsg buffer of {biggest} bytes (error: {err})");
    obs.label("oversized-rejected");
    obs.nontrivial(fnv(&b));
    obs.sample("oversized", || format!("header {} -> error {err:?}, largest read buffer {biggest}", hex(&b[..16])));
    Ok(())
}

/// C13, stream level: an odd message (unknown field / flag / type) between two normal ones.
pub fn c13_stream_case(src: &mut Src, obs: &mut Obs) -> CaseResult {
    let mut first = gen_rmsg(src, false);
    first.serial = 11;
    let mut odd = gen_rmsg(src, false);
    odd.serial = 12;
    let mut last = gen_rmsg(src, false);
    last.serial = 13;
    let kind = src.below(3);
    let what = match kind {
        0 => {
            let code = 10 + src.below(246) as u8;
            odd.fields.push((code, RVal::U(5)));
            format!("unknown field code {code}")
        }
        1 => {
            let bit = 3 + src.below(5);
            odd.flags |= 1 << bit;
            format!("unknown flag bit {:#x}", 1u8 << bit)
        }
        _ => {
            let t = 5 + src.below(251) as u8;
            odd.mtype = t;
            format!("unknown message type {t}")
        }
    };
    let w = wire_of(&[first.clone(), odd.clone(), last.clone()]);
    let chunks = chunk_stream(src, &w, 0);
    let (sock, sh) = SSocket::new();
    for (b, f) in chunks {
        feed(&sh, b, f);
    }
    set_eof(&sh);
    let (mut read, _wr) = zbus::connection::socket::Socket::split(sock).take();
    let (got, err) = drain_reader(&mut read, vec![], vec![], 5);
    let serials: Vec<u32> = got.iter().map(|m| m.primary_header().serial_num().get()).collect();
    let expect: Vec<u32> = if kind == 2 { vec![11, 13] } else { vec![11, 12, 13] };
    let describe = || format!("{what}; yielded serials {serials:?} then {err:?}; odd message = {:?}", odd);
    if serials != expect {
        let key = match kind {
            0 => "stream-unknown-field-stops-reader",
            1 => "stream-unknown-flag-stops-reader",
            _ => "stream-unknown-type-stops-reader",
        };
        return Err(Failure::keyed(key, format!("the connection does not keep delivering messages around a message with {}", describe())));
    }
    obs.label(match kind {
        0 => "unknown-field",
        1 => "unknown-flag",
        _ => "unknown-type",
    });
    obs.nontrivial(fnv(&w.bytes));
    obs.sample(match kind { 0 => "field", 1 => "flag", _ => "type" }, describe);
    Ok(())
}
