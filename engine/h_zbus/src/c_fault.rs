//! C38: transport failures end pending work with errors, never hangs — a scripted session with the
//! fault injected at every inbound byte position and at every write call (fault enumeration).

use crate::env::*;
use crate::sched::*;
use futures_util::StreamExt;
use std::sync::{Arc, Mutex};
use vcore::refmodel::msg::{self, RMsg};
use vcore::refmodel::val::RVal;
use vcore::run::{CaseResult, Failure, Obs};
use vcore::src::{fnv, Src};

#[derive(Debug, Clone, PartialEq)]
pub enum Item {
    SigA(u32),
    SigB(u32),
    Reply(usize),
    ErrReply(usize),
    /// a message of a type this version does not know (to be skipped) with a body of some length
    Unknown(u32),
}

#[derive(Debug, Clone)]
pub struct Session {
    pub ncalls: usize,
    pub items: Vec<Item>,
    /// a caching proxy is being built (its GetAll is never answered) when the transport fails
    pub proxy: bool,
}

pub fn session_from(src: &mut Src) -> Session {
    let ncalls = 1 + src.below(3);
    let n = 2 + src.below(6);
    let mut items = vec![];
    let mut answered = vec![false; ncalls];
    for i in 0..n {
        match src.below(5) {
            0 => items.push(Item::SigA(i as u32)),
            1 => items.push(Item::SigB(i as u32)),
            4 => items.push(Item::Unknown(i as u32)),
            _ => {
                let c = src.below(ncalls);
                if !answered[c] {
                    answered[c] = true;
                    items.push(if src.below(4) == 0 { Item::ErrReply(c) } else { Item::Reply(c) });
                } else {
                    items.push(Item::SigA(i as u32));
                }
            }
        }
    }
    let proxy = src.chance(100);
    Session { ncalls, items, proxy }
}

fn build_item(peer: &mut Peer, it: &Item, calls: &[RMsg]) -> RMsg {
    match it {
        Item::SigA(x) => peer.signal("/c38", "c38.A", "Sig", None, vec![RVal::U(*x), RVal::S("payload-a".into())]),
        Item::SigB(x) => peer.signal("/c38", "c38.B", "Sig", None, vec![RVal::U(*x)]),
        Item::Reply(c) => peer.method_return(&calls[*c], vec![RVal::U(*c as u32)], None),
        Item::ErrReply(c) => peer.error(&calls[*c], "c38.Failed", "no", None),
        Item::Unknown(x) => {
            let mut m = peer.signal("/c38", "c38.U", "Odd", None, vec![RVal::U(*x), RVal::S("x".repeat(20 + (*x as usize % 7) * 9))]);
            m.mtype = 9 + (*x % 5) as u8;
            m
        }
    }
}

pub fn inbound_len(s: &Session) -> usize {
    let (_, sh) = SSocket::new();
    let mut p = Peer::new(sh, false);
    let dummy: Vec<RMsg> = (0..s.ncalls).map(|_| RMsg::new(msg::T_CALL, 5)).collect();
    s.items.iter().map(|it| build_item(&mut p, it, &dummy).build().bytes.len()).sum()
}

#[derive(Debug, Clone, Copy, PartialEq)]
pub enum Fault {
    /// inbound stream ends after `pos` bytes with EOF (false) or an I/O error (true)
    Read { pos: usize, error: bool },
    /// the k-th sendmsg fails; the read side fails at the same moment
    Write { call: usize },
}

#[derive(Default, Debug, Clone)]
struct StreamLog {
    oks: Vec<u32>,
    errs: usize,
    ended: bool,
    item_after_end: bool,
}

/// where each inbound item ends in the byte stream (the sizes do not depend on the serials)
pub fn layout(s: &Session) -> Vec<usize> {
    let (_, sh) = SSocket::new();
    let mut p = Peer::new(sh, false);
    let dummy: Vec<RMsg> = (0..s.ncalls).map(|_| RMsg::new(msg::T_CALL, 5)).collect();
    let mut n = 0;
    s.items
        .iter()
        .map(|it| {
            n += build_item(&mut p, it, &dummy).build().bytes.len();
            n
        })
        .collect()
}

/// `lazy`: the rule stream is given a queue of exactly as many messages as will have arrived for it
/// before the fault, and is not polled before the transport has failed (a full queue at the moment
/// of failure must lose nothing)
pub fn run_session(s: &Session, fault: Fault, schedule: Vec<u8>, lazy: bool) -> Result<(usize, bool), Failure> {
    let lazy_cap = match fault {
        Fault::Read { pos, .. } if lazy => {
            let ends = layout(s);
            let k = s.items.iter().zip(&ends).filter(|(it, e)| **e <= pos && matches!(it, Item::SigA(_))).count();
            if k >= 1 { Some(k) } else { None }
        }
        _ => None,
    };
    let gate = crate::c_drop::Gate::default();
    if lazy_cap.is_none() {
        gate.open();
    }
    let Some((conn, sh)) = new_p2p(None) else { return Err(Failure::new("harness: connection")) };
    let mut sched = Sched::new();
    sched.spawn_ticker("exec", conn.executor().clone());
    let mut sch = Sch::new(schedule);
    // streams exist before anything arrives
    let logs: Vec<Arc<Mutex<StreamLog>>> = (0..2).map(|_| Default::default()).collect();
    let conn2 = conn.clone();
    let made: Arc<Mutex<Vec<zbus::MessageStream>>> = Default::default();
    let m2 = made.clone();
    let a = sched.spawn("mkstreams", async move {
        let s0 = zbus::MessageStream::from(&conn2);
        let s1 = zbus::MessageStream::for_match_rule("type='signal',interface='c38.A'", &conn2, lazy_cap).await.expect("stream");
        m2.lock().unwrap().extend([s0, s1]);
    });
    if sched.run(&mut || sch.next(), 100_000, &mut |x| x.done(a)) != Outcome::Goal {
        return Err(Failure::new("harness: streams could not be created"));
    }
    let mut stream_actors = vec![];
    for (i, st) in made.lock().unwrap().drain(..).enumerate() {
        let log = logs[i].clone();
        let mut st = st;
        let g = gate.clone();
        stream_actors.push(sched.spawn(&format!("stream{i}"), async move {
            if i == 1 {
                g.wait().await;
            }
            loop {
                match st.next().await {
                    Some(Ok(m)) => {
                        let mut l = log.lock().unwrap();
                        if l.ended {
                            l.item_after_end = true;
                        }
                        if m.message_type() == zbus::message::Type::Signal {
                            l.oks.push(m.body().deserialize::<zbus::zvariant::Structure>().ok().and_then(|s| u32::try_from(&s.fields()[0]).ok()).unwrap_or(u32::MAX));
                        } else {
                            l.oks.push(1_000_000 + m.header().reply_serial().map(|x| x.get()).unwrap_or(0));
                        }
                    }
                    Some(Err(_)) => log.lock().unwrap().errs += 1,
                    None => {
                        log.lock().unwrap().ended = true;
                        break;
                    }
                }
            }
        }));
    }
    // write fault: arm before the calls go out
    if let Fault::Write { call } = fault {
        let mut st = sh.lock().unwrap();
        for _ in 0..call {
            st.write_plan.push_back(WPlan::Accept(1_000_000));
        }
        st.write_plan.push_back(WPlan::Err(std::io::ErrorKind::BrokenPipe));
    }
    let results: Arc<Mutex<Vec<Option<Result<u32, String>>>>> = Arc::new(Mutex::new(vec![None; s.ncalls]));
    let mut call_actors = vec![];
    for id in 0..s.ncalls {
        let c = conn.clone();
        let r = results.clone();
        call_actors.push(sched.spawn(&format!("call{id}"), async move {
            let res = c.call_method(None::<&str>, "/c38", Some("c38.T"), "Call", &(id as u32)).await;
            let v = match res {
                Ok(m) => m.body().deserialize::<u32>().map_err(|e| e.to_string()),
                Err(zbus::Error::MethodError(n, _, _)) => Err(format!("MethodError:{}", n.as_str())),
                Err(e) => Err(format!("other:{e}")),
            };
            let mut g = r.lock().unwrap();
            g[id] = Some(if g[id].is_some() { Err("COMPLETED-TWICE".into()) } else { v });
        }));
    }
    let proxy_result: Arc<Mutex<Option<Result<(), String>>>> = Default::default();
    let proxy_actor = if s.proxy {
        let c = conn.clone();
        let pr = proxy_result.clone();
        Some(sched.spawn("proxy-build", async move {
            let r: zbus::Result<zbus::Proxy<'static>> = async {
                zbus::proxy::Builder::new(&c).destination(":1.9")?.path("/c38/p")?.interface("c38.P")?.cache_properties(zbus::proxy::CacheProperties::Yes).build().await
            }
            .await;
            *pr.lock().unwrap() = Some(r.map(|_| ()).map_err(|e| e.to_string()));
        }))
    } else {
        None
    };
    let mut getall_out = !s.proxy;
    let mut peer = Peer::new(sh.clone(), false);
    let mut calls: Vec<Option<RMsg>> = vec![None; s.ncalls];
    let mut fed = false;
    let mut complete_before_fault = 0usize;
    let mut inside_message = false;
    let res2 = results.clone();
    let items = s.items.clone();
    let ncalls = s.ncalls;
    let mut expected_items: Vec<Item> = vec![];
    sched.idle_grace = if lazy_cap.is_some() { 400 } else { 2 };
    let mut turns_after_fed = 0usize;
    let mut spinning = false;
    let oc = sched.run(&mut || sch.next(), 400_000, &mut |x| {
        if fed {
            turns_after_fed += 1;
            if turns_after_fed == 300 {
                // everything the transport delivered before failing has been taken in: now the
                // late reader starts
                gate.open();
            }
        }
        for i in peer.pump() {
            let m = peer.out[i].clone();
            if m.mtype == msg::T_CALL {
                let id = match m.body.first() {
                    Some(RVal::U(id)) => *id as usize,
                    _ => usize::MAX,
                };
                if id < ncalls {
                    calls[id] = Some(m);
                } else if m.get_str(msg::F_MEMBER) == Some("GetAll") {
                    getall_out = true;
                }
            }
        }
        let all_out = calls.iter().all(|c| c.is_some()) && getall_out;
        let write_fault_hit = matches!(fault, Fault::Write { .. }) && {
            let st = peer.sh.lock().unwrap();
            st.write_plan.is_empty() && st.send_calls > 0 && (res2.lock().unwrap().iter().any(|r| r.is_some()) || proxy_result.lock().unwrap().is_some())
        };
        if !fed && (all_out || write_fault_hit) {
            fed = true;
            match fault {
                Fault::Read { pos, error } => {
                    let have: Vec<RMsg> = calls.iter().map(|c| c.clone().unwrap()).collect();
                    let mut bytes = vec![];
                    let mut ends = vec![];
                    for it in &items {
                        let m = build_item(&mut peer, it, &have);
                        bytes.extend_from_slice(&m.build().bytes);
                        ends.push(bytes.len());
                    }
                    let pos = pos.min(bytes.len());
                    complete_before_fault = ends.iter().filter(|e| **e <= pos).count();
                    expected_items = items[..complete_before_fault].to_vec();
                    inside_message = !ends.contains(&pos) && pos != 0;
                    if pos > 0 {
                        feed(&peer.sh, bytes[..pos].to_vec(), vec![]);
                    }
                    if error {
                        feed_item(&peer.sh, RItem::Err(std::io::ErrorKind::ConnectionReset));
                    } else {
                        set_eof(&peer.sh);
                    }
                }
                Fault::Write { .. } => {
                    // the transport is gone in both directions
                    peer.sh.lock().unwrap().fail_all_writes = Some(std::io::ErrorKind::BrokenPipe);
                    feed_item(&peer.sh, RItem::Err(std::io::ErrorKind::BrokenPipe));
                }
            }
        }
        // a reader that keeps asking after it was told the stream has ended will never stop
        if peer.sh.lock().unwrap().eof_reads > 64 {
            spinning = true;
            return true;
        }
        call_actors.iter().all(|a| x.done(*a)) && stream_actors.iter().all(|a| x.done(*a)) && proxy_actor.map(|a| x.done(a)).unwrap_or(true)
    });
    if spinning {
        return Err(Failure::new(format!("the connection keeps reading after the transport reported the end of the stream (more than 64 reads returning end-of-file): pending calls and streams can never complete; session {s:?}, fault {fault:?}")));
    }
    let got = results.lock().unwrap().clone();
    let slog: Vec<StreamLog> = logs.iter().map(|l| l.lock().unwrap().clone()).collect();
    let steps = sched.steps;
    let describe = || format!("session {s:?}, fault {fault:?}: call results {got:?}, streams {slog:?}, {steps} steps");
    if oc != Outcome::Goal {
        let stuck_calls: Vec<usize> = (0..s.ncalls).filter(|i| got[*i].is_none()).collect();
        let open_streams: Vec<usize> = (0..2).filter(|i| !slog[*i].ended).collect();
        let px = if s.proxy && proxy_result.lock().unwrap().is_none() { ", and building a caching proxy (its GetAll pending) never completed" } else { "" };
        return Err(Failure::new(format!("after the transport failed, calls {stuck_calls:?} never completed and streams {open_streams:?} never ended{px} ({oc:?}); {}", describe())));
    }
    if s.proxy {
        match proxy_result.lock().unwrap().clone() {
            Some(Err(_)) => {}
            other => return Err(Failure::new(format!("building a caching proxy whose GetAll was never answered ended with {other:?} after the transport failed; {}", describe()))),
        }
    }
    // calls
    for id in 0..s.ncalls {
        let want_ok = expected_items.iter().any(|i| *i == Item::Reply(id));
        let want_err = expected_items.iter().any(|i| *i == Item::ErrReply(id));
        match (got[id].clone().unwrap(), want_ok, want_err) {
            (Ok(x), true, _) if x as usize == id => {}
            (Err(e), _, true) if e == "MethodError:c38.Failed" => {}
            (Err(e), false, false) if e.starts_with("other:") => {}
            (r, _, _) => return Err(Failure::new(format!("call {id} completed with {r:?}; replies that arrived completely before the fault: {expected_items:?}; {}", describe()))),
        }
    }
    // streams: exactly the messages completed before the fault, then the end
    let exp0: Vec<u32> = expected_items
        .iter()
        .map(|i| match i {
            Item::SigA(x) | Item::SigB(x) => *x,
            Item::Reply(c) | Item::ErrReply(c) => 1_000_000 + calls[*c].as_ref().map(|m| m.serial).unwrap_or(0),
            Item::Unknown(_) => u32::MAX - 1,
        })
        .filter(|x| *x != u32::MAX - 1)
        .collect();
    let exp1: Vec<u32> = expected_items.iter().filter_map(|i| if let Item::SigA(x) = i { Some(*x) } else { None }).collect();
    for (i, exp) in [exp0, exp1].iter().enumerate() {
        if &slog[i].oks != exp {
            return Err(Failure::new(format!("stream {i} yielded {:?}, expected {:?}; {}", slog[i].oks, exp, describe())));
        }
        if slog[i].item_after_end {
            return Err(Failure::new(format!("stream {i} yielded an item after it had ended; {}", describe())));
        }
    }
    // later work fails promptly
    let c = conn.clone();
    let late: Arc<Mutex<Option<(bool, bool)>>> = Default::default();
    let l2 = late.clone();
    let a = sched.spawn("late", async move {
        let call_failed = c.call_method(None::<&str>, "/c38", Some("c38.T"), "Late", &()).await.is_err();
        let sub_failed = zbus::MessageStream::for_match_rule("type='signal',interface='c38.Late'", &c, None).await.is_err();
        *l2.lock().unwrap() = Some((call_failed, sub_failed));
    });
    let oc = sched.run(&mut || sch.next(), 200_000, &mut |x| x.done(a));
    let late = *late.lock().unwrap();
    match (oc, late) {
        (Outcome::Goal, Some((true, true))) => {}
        (Outcome::Goal, Some((c, s2))) => return Err(Failure::new(format!("after the failure a new call {} and a new subscription {}; {}", if c { "failed" } else { "succeeded" }, if s2 { "failed" } else { "succeeded" }, describe()))),
        _ => return Err(Failure::new(format!("a call / subscription made after the transport failed hangs ({oc:?}); {}", describe()))),
    }
    Ok((complete_before_fault, inside_message))
}

/// case bytes: [fault kind][pos lo][pos hi][session bytes...]
pub fn c38_case(src: &mut Src, obs: &mut Obs) -> CaseResult {
    let kb = src.u8();
    let kind = kb % 3;
    let lazy = (kb / 3) % 2 == 1;
    let pos = src.u16() as usize;
    let sbytes: Vec<u8> = src.rest().to_vec();
    let mut s2 = Src::new(&sbytes);
    let s = session_from(&mut s2);
    let sched_bytes = s2.rest().to_vec();
    let len = inbound_len(&s);
    let fault = match kind {
        0 => Fault::Read { pos: pos % (len + 1), error: false },
        1 => Fault::Read { pos: pos % (len + 1), error: true },
        _ => Fault::Write { call: pos % s.ncalls },
    };
    let (complete, inside) = run_session(&s, fault, sched_bytes, lazy)?;
    if lazy && matches!(fault, Fault::Read { .. }) {
        obs.label("late-reader-with-a-full-queue");
    }
    obs.label(match fault {
        Fault::Read { error: false, .. } => "read-eof",
        Fault::Read { error: true, .. } => "read-error",
        Fault::Write { .. } => "write-error",
    });
    if inside {
        obs.label("fault-inside-a-message");
    }
    // a call is pending whenever not all replies arrived
    let pending = s.items.iter().filter(|i| matches!(i, Item::Reply(_) | Item::ErrReply(_))).count() < s.ncalls || complete < s.items.len();
    if inside || pending {
        obs.nontrivial(fnv(format!("{s:?}{fault:?}").as_bytes()));
        obs.sample(if inside { "inside-message" } else { "between-messages" }, || format!("session {s:?}, fault {fault:?}: {complete} messages complete before the fault"));
    }
    Ok(())
}

/// the fixed sessions whose every fault point is enumerated
pub fn fixed_sessions(n: usize) -> Vec<Vec<u8>> {
    (0..n).map(|i| (0..24).map(|j| ((i * 37 + j * 11 + 5) * 13 % 251) as u8).collect()).collect()
}
