mod c_names;

use vcore::harness::*;
use vcore::run::Run;

fn main() {
    let args = parse_args("h_zbus");
    let id = args.id.as_str();
    let mut run = Run::new(id, &args.tier);
    let specs: Vec<Spec> = match id {
        "C10" => {
            run.rule = "exhaustive: every string up to 6 (quick) / 7 (thorough) symbols over the class alphabet {a Z 0 _ - . : / é space NUL} for each of 9 validated types (bus, unique, well-known, interface, member, error, property name, object path, GUID), plus constructed strings of 250..260 bytes and UUID-like spellings / per-position mutations of a GUID; every construction route (TryFrom<&str|String|Cow|Str|Arc<str>>, owned types, TryFrom<Value|OwnedValue>, Deserialize, from_static_str on a sample, BusName classification) must accept exactly what the reference grammar accepts; non-trivial = accepted, or rejected but one edit away from an accepted string; enumerated cases are pairwise distinct by construction".into();
            run.exhaustive = Some(true);
            run.assumptions.push("org.freedesktop.DBus is accepted as a unique name (documented zbus behaviour: the bus driver's sender)".into());
            run.assumptions.push("PropertyName: any string of 1..=255 bytes, as its documentation states (the specification defines no grammar)".into());
            vec![custom("names", c_names::c10_one)]
        }
        _ => {
            eprintln!("unknown property {id} for h_zbus");
            std::process::exit(2);
        }
    };
    standard_flow(&mut run, &specs, &args.replay);
    if args.replay.is_some() {
        run.finish();
    }
    match id {
        "C10" => {
            let f = &*specs[0].f;
            let l = run.pick(6u32, 7u32);
            let per_kind = c_names::count_upto(c_names::ALPHA.len() as u64, l);
            let total = per_kind * c_names::KINDS.len() as u64;
            run.enumerate("names", total, &|i| c_names::make_enum_case(i, per_kind), f);
            let lim = c_names::limit_cases();
            run.enumerate("names", lim.len() as u64, &|i| lim[i as usize].clone(), f);
            run.extra.insert("enumerated".into(), serde_json::json!({"max_symbols": l, "strings_per_type": per_kind, "types": c_names::KINDS.len(), "limit_and_uuid_cases": lim.len()}));
            if run.truncated {
                run.exhaustive = Some(false);
            }
        }
        _ => {}
    }
    run.finish();
}
