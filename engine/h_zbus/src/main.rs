#[path = "../../h_zvariant/src/bridge.rs"]
#[allow(unexpected_cfgs)]
mod bridge;
mod c_addr;
mod calib;
mod c_bus;
mod c_conn;
mod c_dispatch;
mod c_drop;
mod c_fault;
mod c_frame;
mod env;
mod c_match;
mod c_msg;
mod c_names;
mod c_objsrv;
mod c_proxy;
mod c_sasl;
mod c_serial;
mod c_xml;
mod sched;

use vcore::harness::*;
use vcore::run::Run;

fn main() {
    let args = parse_args("h_zbus");
    let id = args.id.as_str();
    if id == "CALIB" {
        calib::run();
        return;
    }
    let _ = bridge::fd_table();
    let mut run = Run::new(id, &args.tier);
    let specs: Vec<Spec> = match id {
        "C10" => {
            run.rule = "exhaustive: every string up to 6 (quick) / 7 (thorough) symbols over the class alphabet {a Z 0 _ - . : / é space NUL} for each of 9 validated types (bus, unique, well-known, interface, member, error, property name, object path, GUID), plus constructed strings of 250..260 bytes and UUID-like spellings / per-position mutations of a GUID; every construction route (TryFrom<&str|String|Cow|Str|Arc<str>>, owned types, TryFrom<Value|OwnedValue>, Deserialize, from_static_str on a sample, BusName classification) must accept exactly what the reference grammar accepts; non-trivial = accepted, or rejected but one edit away from an accepted string; enumerated cases are pairwise distinct by construction".into();
            run.exhaustive = Some(true);
            run.assumptions.push("org.freedesktop.DBus is accepted as a unique name (documented zbus behaviour: the bus driver's sender)".into());
            run.assumptions.push("PropertyName: any string of 1..=255 bytes, as its documentation states (the specification defines no grammar)".into());
            vec![custom("names", c_names::c10_one)]
        }
        "C11" => {
            run.rule = "messages built through the zbus builder: type x optional header fields with generated valid names x all flag combinations allowed for the type x endian x explicit/implicit serial x generated body (0..4 arguments incl. fds); oracle: header/body accessors and Message::from_bytes of its bytes return what was put in, and an independent strict message parser accepts the bytes (12-byte header, a(yv) fields with the spec's types and grammars, zero padding, 8-aligned body, declared body length and fd count) and reads the same fields, signature and body; non-trivial = at least 3 header fields and a non-empty body; distinct by hash(bytes)".into();
            vec![spec("build", 200_000, 5_000_000, 200, c_msg::c11_case)]
        }
        "C12" => {
            run.rule = "valid reference-built messages with 16 kinds of role-aware mutations (empty, truncations incl. around the body offset, field codes, field variant types and texts, lengths, endian byte, primary header bytes, zero serial, padding, signature lengths, pokes, insert/delete) and random bytes, presented to Message::from_bytes under either context endianness; every accepted message has all accessors, body(), body deserialisation, Display and Debug exercised; oracle: no panic; non-trivial = more than 16 bytes; distinct by hash(bytes)".into();
            vec![spec("hostile", 300_000, 10_000_000, 220, c_msg::c12_case)]
        }
        "C13" => {
            run.rule = "valid reference-built messages carrying an unknown header field code (10..255, any variant value, any position), an unknown flag bit (0x08..0x80) or both; oracle: Message::from_bytes accepts them and the known fields and flags are intact; non-trivial = every case (the message is valid per the reference parser apart from the unknown part); distinct by hash(bytes)".into();
            vec![spec("msg", 100_000, 3_000_000, 200, c_msg::c13_msg_case), spec("stream", 60_000, 2_000_000, 400, c_frame::c13_stream_case)]
        }
        "C21" => {
            run.rule = "rules built through MatchRule::builder() over all keys (small universes of paths / namespaces so that prefixes and siblings occur) x messages derived from the rule as satisfying instances and then perturbed in 0..2 aspects (type, sender, suffix-extended / case-changed interface and member, sibling / child / parent / absent path, destination unique / well-known / absent, argument of another value or type (ay, variant, object path) or missing, trailing-slash / parent / child path-like arguments as string or object path, namespace boundary cases); oracle = the specification's semantics with the two documented exceptions (well-known sender in the rule, well-known destination in the message are unresolvable and skipped); non-trivial = a perturbed message whose verdict differs from the unperturbed one; distinct by hash(rule, message)".into();
            vec![spec("semantics", 200_000, 5_000_000, 260, c_match::c21_case)]
        }
        "C22" => {
            run.rule = "rules with all keys built through the API, argument values over {empty, it's, a,b, a=b, backslashes, lone apostrophe, unicode, random}; oracle: a specification-conformant tokenizer/parser (quoting as in the reference bus: '...' literal, \\' outside quotes) reads rule.to_string() back as an equal rule, so does MatchRule::try_from, the conformant print of the rule is parsed by zbus into an equal rule, and parse.print.parse is stable; non-trivial = an argument value containing a special character; distinct by hash(string)".into();
            vec![spec("strings", 200_000, 5_000_000, 200, c_match::c22_case)]
        }
        "C23" => {
            run.rule = "(a) Address values over the Linux transports (unix path / abstract / dir / tmpdir, unixexec with argv0 and argv, tcp and nonce-tcp with family, bind, noncefile; optional guid) with values over all byte values 1..255 and unicode hosts: parse(format(a)) == a and format(a) is a valid address per the specification's grammar; (b) address strings printed from the specification grammar, with lower/upper-case escapes and escapes of characters that need none, option order permuted: every value zbus holds equals the percent-decoded value; non-trivial = the string contains an escape; distinct by hash(string)".into();
            vec![spec("values", 150_000, 4_000_000, 120, c_addr::c23_value_case), spec("strings", 150_000, 4_000_000, 120, c_addr::c23_string_case)]
        }
        "C34" => {
            run.rule = "random introspection trees (nodes 3 levels deep, interfaces with methods / signals / properties / annotations, arguments with optional name and direction, generated signatures, annotation and argument-name text containing < > & \" ' ]]> -- and unicode) written as XML with correct escaping, element kinds optionally interleaved as the DTD allows; oracle: the model's accessors equal the generated tree, write -> read yields an equal value, from_reader agrees with try_from; non-trivial = a special character in an attribute and an argument without a name; distinct by hash(document)".into();
            vec![spec("xml", 60_000, 2_000_000, 400, c_xml::c34_case)]
        }
        "C15" => {
            run.rule = "2..16 OS threads each building 200..3200 messages (PrimaryHeader::new, method calls, signals) behind a barrier, with the process-wide counter placed by the cfg(zbus_verif) hook far from, straddling, just before and at the 32-bit wrap; some threads interleave builds that fail (body nested too deep); plus a wrap race: 8 persistent threads released together 40 000 (quick) / 600 000 (thorough) times with the counter 0..6 draws before the wrap, 5 draws each; oracle: no zero, all distinct, per-thread serials advance; the schedule is the operating system's (16 cores), which the harness cannot own; non-trivial = at least 4 threads whose serial ranges interleave, or a run that crosses the wrap; distinct by hash(threads, count, start, first ranges)".into();
            run.assumptions.push("thread interleaving is left to the OS scheduler: exploration, not enumeration of schedules".into());
            vec![Spec { threads: 1, ..spec("serials", 500, 30000, 16, c_serial::c15_case) }]
        }
        "C16" => {
            run.rule = "server handshake through Builder::socket(..).server(guid).p2p() over a scripted socket: exhaustively every client transcript of up to 3 (quick) / 4 (thorough) lines over 23 alternatives (AUTH with no / right / wrong / unknown mechanism and matching, mismatching, non-numeric, non-UTF-8, malformed identities, DATA variants, BEGIN, CANCEL, ERROR, NEGOTIATE_UNIX_FD, unknown, empty) x 8 configurations (mechanism x peer credentials known/unknown x fd-capable), plus random transcripts up to 12 lines with arbitrary read splits, stray line endings, missing leading NUL and junk bytes; oracle: the reply command words and the completion must be a path of the reference server automaton (completion only by BEGIN after a successful AUTH in the configured mechanism; REJECTED / ERROR as the statement says; BEGIN before authentication may be answered by ERROR or by giving up); no panic, no hang; non-trivial = transcript with an AUTH and at least 3 lines".into();
            run.exhaustive = Some(true);
            vec![custom("server-enum", c_sasl::c16_enum_case), spec("server-random", 60_000, 2_000_000, 160, c_sasl::c16_random_case)]
        }
        "C17" => {
            run.rule = "client handshake through Builder::socket(..).p2p() against scripted server replies: OK with valid / 31 / 33 / non-hex / hyphenated GUID or none, REJECTED, ERROR, DATA, AGREE_UNIX_FD, unknown, empty; fd-capable or not; 0..2 messages right behind the handshake lines; arbitrary read splits; oracle: success iff the first reply is OK <32 hex> and the NEGOTIATE_UNIX_FD answer is AGREE_UNIX_FD or ERROR, fd passing usable iff AGREE_UNIX_FD was seen (observed by sending a message with an fd), the trailing bytes come out of the message stream first and byte-identical; no panic, no hang; non-trivial = at least 2 reply lines and more than one chunk".into();
            run.assumptions.push("the expected-GUID route (address with guid=...) needs a real listening socket and is not exercised; the GUID comparison itself is covered by C10/C23".into());
            vec![spec("client", 30_000, 1_000_000, 300, c_sasl::c17_case)]
        }
        "C18" => {
            run.rule = "1..8 sender tasks x 1..6 messages (payloads 0..600 bytes, some with an fd) on one p2p connection over a scripted socket whose write side follows a generated plan of partial writes (1..64 bytes), yields and whole writes; tasks and the connection executor are polled in a generated order (harness-owned scheduler, no threads); oracle: the captured byte stream splits into exactly the sent messages, byte-identical, each sender's messages in its order, each message's fds on the sendmsg that carried its first byte and none elsewhere; non-trivial = at least 2 senders and a partial write; distinct by hash(sizes, steps, schedule prefix)".into();
            vec![spec("sends", 20_000, 600_000, 700, c_conn::c18_case)]
        }
        "C19" => {
            run.rule = "1..12 concurrent call_method callers on a p2p connection; the fake peer answers each call after a generated delay with a return (carrying the call's own id), an error reply, or never, latest-due first (so replies are permuted), interleaving unrelated signals and stray replies with unknown serials; when everything answerable is settled the transport ends with EOF or an I/O error; harness-owned scheduler; oracle: every caller completes exactly once, returns carry the caller's id, error replies become MethodError with the peer's error name, never-answered calls complete with an error when the transport fails, all call serials distinct; hang = nothing runnable while a call is pending; non-trivial = at least 3 calls and a permuted batch of replies".into();
            run.assumptions.push("the method_timeout path needs the async-io timer (real time) and is not driven by the harness scheduler; it is not exercised here".into());
            vec![spec("calls", 20_000, 600_000, 500, c_conn::c19_case)]
        }
        "C20" => {
            run.rule = "histories of {create stream for one of 4 rules (incl. the rule-less stream), clone, drop, incoming signal of one of 4 kinds, poll} on a p2p connection with max_queued 1..3, harness-owned scheduler; oracle = model queues: each stream receives exactly the messages matching its rule that arrived while it existed, once, in arrival order (a clone continues from the original's position); streams sharing a rule keep receiving after one of them is dropped; non-trivial = a drop between two incoming messages; distinct by hash(history)".into();
            vec![spec("streams", 15_000, 400_000, 400, c_conn::c20_case)]
        }
        "C24" => {
            run.rule = "histories of at / remove over 6 paths {/, /a, /a/b, /a/b/c, /a/x, /d} x 3 interface types on a fresh object server: exhaustively every history of up to 3 (quick) / 4 (thorough) operations with the 18 (path, interface) pairs looked up after every step, plus random histories up to 40 operations that additionally call a method on every path and introspect a path after every step (fake peer, harness scheduler); oracle = model set of (path, interface): at() returns false on duplicates, remove() errs on absent, lookup / call result / introspected interface names agree with the model; no panic; non-trivial = a remove while an ancestor or descendant holds an interface, or any operation on /".into();
            run.exhaustive = Some(true);
            vec![custom("registry-enum", c_objsrv::c24_enum_case), spec("registry-random", 4_000, 150_000, 80, c_objsrv::c24_random_case)]
        }
        "C25" => {
            run.rule = "histories of at / remove of 3 interface types (two with properties) over 7 paths and of adding / removing ObjectManager at /m (and at the disjoint /n in a third of the cases); a client attaches with GetManagedObjects when a manager appears and folds InterfacesAdded / InterfacesRemoved, a Ping round trip after every step is the ordering barrier; oracle: after every step the folded view (ignoring paths without interfaces) equals the model's objects under that manager with their current property values; non-trivial = at least one at/remove after a client attached; distinct by hash(history)".into();
            run.assumptions.push("nested managers (one inside the other's subtree) are not generated: the specification is silent on which manager signals".into());
            vec![spec("manager", 6_000, 200_000, 120, c_objsrv::c25_case)]
        }
        "C29" => {
            run.rule = "bursts of 1..8 calls (delivered in one chunk or one by one) to an interface registered with spawn = false (or, in a quarter of the cases, the default) whose &self / &mut self handlers yield 0..5 times and optionally wait on a harness gate opened in a generated order; harness-owned scheduler; oracle: every call gets exactly one reply carrying its id, and with spawning disabled the start/end log is strictly start0,end0,start1,end1,... in arrival order; non-trivial = at least 3 calls where an earlier handler yields more often than a later one".into();
            vec![spec("order", 10_000, 300_000, 120, c_dispatch::c29_case)]
        }
        "C30" => {
            run.rule = "(a) method, getter and setter handlers (spawn default and spawn = false, &self and &mut self) that register / remove objects and emit signals through the object server, driven by 1..6 pipelined calls incl. Properties.Get/Set/GetAll; (b) a call fed 0..7 scheduler steps after at() returned, on a connection whose object server did or did not exist before; harness-owned scheduler; oracle: every call is answered before the system comes to rest (hang = nothing runnable with a call unanswered); handlers of spawn = false interfaces make no D-Bus method calls (documented precondition); non-trivial = every re-entrance case, and on-demand cases with a delay of at most 3 steps".into();
            vec![spec("reenter", 40_000, 600_000, 120, c_dispatch::c30_reenter_case), spec("setup", 8_000, 200_000, 60, c_dispatch::c30_setup_case)]
        }
        "C31" => {
            run.rule = "a caching proxy (one property marked uncached) built on a bus connection against a fake service that answers GetAll with its state at that moment, having emitted 0..3 PropertiesChanged signals before the reply and emitting 0..5 after it (changed / invalidated, for the proxied and for another interface, for the uncached property), the later ones delivered either in the same burst as the reply or after the proxy was built; harness scheduler; oracle: once everything has come to rest cached_property() of each property == fold(snapshot, later signals in receive order), invalidation clears, other interfaces and the uncached property never affect it; non-trivial = a change of a cached property on each side of the GetAll reply".into();
            vec![spec("cache", 8_000, 250_000, 100, c_proxy::c31_case)]
        }
        "C32" => {
            run.rule = "a proxy signal stream to a well-known name on a bus connection over the fake bus: generated initial owner (or none), then 1..14 events: signals from 3 senders (unicast to us), genuine NameOwnerChanged for the name (to another owner or to none) and for another name, NameOwnerChanged forged by a peer; the system is run to rest at generated points; oracle: the stream yields exactly the signals whose sender owned the name when they were received, per the bus driver's messages only; non-trivial = an ownership change (genuine or forged) between two signals from different senders".into();
            vec![spec("owner", 8_000, 250_000, 120, c_proxy::c32_case)]
        }
        "C36" => {
            run.rule = "a bus connection (client handshake + Hello against a fake bus) and histories of request_name_with_flags (with/without AllowReplacement; the fake bus answers with each reply code), release_name (each reply code), NameAcquired / NameLost from the bus driver (only where a conformant bus could send them) and forged ones from another sender; oracle = bookkeeping model: a request is answered locally with AlreadyOwner / InQueue exactly when the bus last granted / queued the name and has not taken it away, otherwise the bus is asked and its answer returned; release asks the bus exactly when the name is held or queued and succeeds when the bus confirms; forged signals change nothing; AddMatch/RemoveMatch never doubled; non-trivial = a name changing state at least twice, or a forged signal in the history".into();
            vec![spec("names", 30_000, 300_000, 120, c_bus::c36_case)]
        }
        "C37" => {
            run.rule = "a bus connection over the fake bus (which records AddMatch / RemoveMatch) and histories of creating streams for 4 rules (3 signal rules, 1 method-call rule), cloning them, dropping / async-dropping them, creating proxies and proxy signal streams to a unique and to a well-known name; after every operation the system is run to rest; oracle: AddMatch never for a registered rule, RemoveMatch never for an unregistered one, the registered set equals the distinct signal rules with a live subscriber (incl. the owner-change rule of well-known-name signal streams), empty after everything is dropped; non-trivial = a drop while another subscriber of the same rule lives".into();
            vec![spec("matches", 30_000, 300_000, 160, c_bus::c37_case)]
        }
        "C38" => {
            run.level = "fault_enumeration".into();
            run.rule = "a scripted session on a p2p connection (1..3 pending calls, a rule-less stream and a rule stream, an inbound sequence of 2..7 signals / returns / error replies) with the transport failing (a) after every byte position 0..=len of the inbound stream, as EOF and as an I/O error, and (b) at every outgoing sendmsg (with the read side failing too) — all fault points of 6 (quick) / 40 (thorough) fixed sessions are enumerated, further sessions and schedules are random; oracle: every call whose reply arrived completely before the fault gets it, every other call completes with an error, each stream yields exactly the messages completed before the fault and then ends, a call and a subscription made afterwards fail without hanging, no panic; non-trivial = fault strictly inside a message or with a call pending; distinct by hash(session, fault)".into();
            vec![spec("faults", 6_000, 200_000, 60, c_fault::c38_case)]
        }
        "C39" => {
            run.rule = "(a) a p2p connection (optionally with an object server registered) and 1..7 further handles drawn from {connection clone, rule-less stream, rule stream, proxy, proxy signal stream}, dropped in a generated order with the connection's tasks run a generated number of steps in between; oracle: the scripted socket's halves are untouched while any handle lives and both dropped once the last one is gone; (b) 1..3 calls to a handler that waits on a harness gate, then graceful_shutdown(): it must stay pending (and the transport open) while the handlers are gated and complete, with every reply written and the transport closed, once the gate opens; non-trivial = at least 3 handles of at least 2 kinds, or any shutdown case; distinct by hash(handles, order)".into();
            vec![spec("drop", 15_000, 400_000, 40, c_drop::c39_drop_case), spec("shutdown", 5_000, 100_000, 40, c_drop::c39_shutdown_case)]
        }
        "C14" => {
            run.rule = "1..5 valid reference-built messages (some carrying fds) concatenated into a stream, delivered to ReadHalf::receive_message through a scripted socket with generated chunking (single chunk, 1-byte drip, message boundaries, random cuts incl. inside a header; an fd-carrying message start is always a chunk start as on a real unix socket) and a generated handshake-leftover prefix (bytes and fds already read); oracle: the same messages, byte-identical, in order, each with its own fds (by inode), strictly increasing receive positions, then end-of-stream; plus headers announcing more than 128 MiB must fail without a body-sized read; non-trivial = at least 2 messages and a cut inside a message or an fd-carrying message; distinct by hash(stream, prefix, chunking)".into();
            vec![spec("frame", 100_000, 3_000_000, 600, c_frame::c14_case), spec("oversized", 5_000, 100_000, 200, c_frame::c14_big_case)]
        }
        _ => {
            eprintln!("unknown property {id} for h_zbus");
            std::process::exit(2);
        }
    };
    standard_flow(&mut run, &specs, &args.replay);
    if args.replay.is_some() {
        run.finish();
    }
    match id {
        "C15" => {
            let rounds = run.pick(40_000u64, 600_000u64);
            let mut o = vcore::run::Obs::new();
            let r = c_serial::c15_wrap_race(rounds, &mut o);
            run.obs.merge(o);
            if let Err(fl) = r {
                run.custom_failure("wrap-race", serde_json::json!({"rounds": rounds}), fl);
            }
        }
        "C10" => {
            let f = &*specs[0].f;
            let l = run.pick(6u32, 7u32);
            let per_kind = c_names::count_upto(c_names::ALPHA.len() as u64, l);
            let total = per_kind * c_names::KINDS.len() as u64;
            run.enumerate("names", total, &|i| c_names::make_enum_case(i, per_kind), f);
            let lim = c_names::limit_cases();
            run.enumerate("names", lim.len() as u64, &|i| lim[i as usize].clone(), f);
            run.extra.insert("enumerated".into(), serde_json::json!({"max_symbols": l, "strings_per_type": per_kind, "types": c_names::KINDS.len(), "limit_and_uuid_cases": lim.len()}));
            if run.truncated {
                run.exhaustive = Some(false);
            }
        }
        "C24" => {
            let f = &*specs[0].f;
            let maxl = run.pick(3u32, 4u32);
            let mut total = 0u64;
            for l in 1..=maxl {
                total += 36u64.pow(l);
            }
            run.enumerate(
                "registry-enum",
                total,
                &|mut i| {
                    let mut l = 1u32;
                    loop {
                        let n = 36u64.pow(l);
                        if i < n {
                            break;
                        }
                        i -= n;
                        l += 1;
                    }
                    let mut b = vec![];
                    for _ in 0..l {
                        b.push((i % 36) as u8);
                        i /= 36;
                    }
                    b
                },
                f,
            );
            run.extra.insert("enumerated".into(), serde_json::json!({"max_ops": maxl, "histories": total}));
            run.exhaustive = Some(!run.truncated);
        }
        "C38" => {
            let f = &*specs[0].f;
            let sessions = c_fault::fixed_sessions(run.pick(6, 40));
            let mut cases: Vec<Vec<u8>> = vec![];
            for sb in &sessions {
                let mut s2 = vcore::src::Src::new(sb);
                let s = c_fault::session_from(&mut s2);
                let len = c_fault::inbound_len(&s);
                // (kinds 3 and 4: the same read faults with a late reader whose queue is exactly full)
                for kind in [0u8, 1, 3, 4] {
                    for pos in 0..=len {
                        let mut b = vec![kind, (pos & 0xff) as u8, (pos >> 8) as u8];
                        b.extend_from_slice(sb);
                        cases.push(b);
                    }
                }
                for call in 0..s.ncalls {
                    let mut b = vec![2u8, call as u8, 0];
                    b.extend_from_slice(sb);
                    cases.push(b);
                }
            }
            run.enumerate("faults", cases.len() as u64, &|i| cases[i as usize].clone(), f);
            run.extra.insert("enumerated".into(), serde_json::json!({"fixed_sessions": sessions.len(), "fault_points": cases.len()}));
            run.exhaustive = Some(!run.truncated);
        }
        "C16" => {
            let f = &*specs[0].f;
            let nalts = c_sasl::alts().len() as u64;
            let ncfg = c_sasl::configs().len() as u64;
            let maxl = run.pick(3u32, 4u32);
            let mut total = 0u64;
            for l in 1..=maxl {
                total += nalts.pow(l) * ncfg;
            }
            run.enumerate(
                "server-enum",
                total,
                &|mut i| {
                    let mut l = 1u32;
                    loop {
                        let n = nalts.pow(l) * ncfg;
                        if i < n {
                            break;
                        }
                        i -= n;
                        l += 1;
                    }
                    let mut b = vec![(i % ncfg) as u8];
                    i /= ncfg;
                    for _ in 0..l {
                        b.push((i % nalts) as u8);
                        i /= nalts;
                    }
                    b
                },
                f,
            );
            run.extra.insert("enumerated".into(), serde_json::json!({"max_lines": maxl, "alternatives": nalts, "configurations": ncfg, "transcripts": total}));
            if run.truncated {
                run.exhaustive = Some(false);
            }
        }
        _ => {}
    }
    run.finish();
}
