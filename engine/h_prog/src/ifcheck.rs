//! placeholder until the interface generator is wired in
pub struct IfaceEntry;
