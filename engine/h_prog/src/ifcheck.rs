//! Shared definitions for the generated interfaces (C26, C27, C28, C33): the tables the generator
//! fills, the handlers' outcome function, and the server / peer scaffolding.

use crate::env::*;
use crate::genval::Gen;
use crate::sched::*;
use std::future::Future;
use std::pin::Pin;
use std::sync::{Arc, Mutex};
use vcore::refmodel::msg::{self, RMsg};
use vcore::refmodel::val::RVal;
use vcore::run::Failure;
use vcore::src::{fnv, Src};
use zbus::Connection;

pub type Log = Arc<Mutex<Vec<String>>>;
pub type BoxFut<'a, T> = Pin<Box<dyn Future<Output = T> + 'a>>;

#[derive(Debug, Clone, PartialEq)]
pub struct ExpErr {
    pub name: String,
    pub text: Option<String>,
}

#[derive(Debug, zbus::DBusError)]
#[zbus(prefix = "gen.Err")]
pub enum GErr {
    #[zbus(error)]
    ZBus(zbus::Error),
    Boom(String),
    Fizz,
}

/// handlers of fallible methods fail for a quarter of the labels
pub fn fails(label: &str) -> Option<u64> {
    let h = fnv(label.as_bytes());
    if h % 4 == 0 {
        Some(h / 4)
    } else {
        None
    }
}
const FDO: [&str; 4] = ["Failed", "NotSupported", "InvalidArgs", "AccessDenied"];
pub fn fdo_err(h: u64) -> zbus::fdo::Error {
    let t = format!("fdo failure {}", h % 97);
    match h % 4 {
        0 => zbus::fdo::Error::Failed(t),
        1 => zbus::fdo::Error::NotSupported(t),
        2 => zbus::fdo::Error::InvalidArgs(t),
        _ => zbus::fdo::Error::AccessDenied(t),
    }
}
pub fn custom_err(h: u64) -> GErr {
    if h % 2 == 0 {
        GErr::Boom(format!("custom failure {}", h % 89))
    } else {
        GErr::Fizz
    }
}
/// what the handler of a method with return type R does for `label` (mode 0 infallible, 1
/// fdo::Result, 2 custom error), as the harness predicts it
pub fn outcome<R: Gen>(label: &str, mode: u8) -> Result<R, ExpErr> {
    if mode != 0 {
        if let Some(h) = fails(label) {
            return Err(if mode == 1 {
                ExpErr { name: format!("org.freedesktop.DBus.Error.{}", FDO[(h % 4) as usize]), text: Some(format!("fdo failure {}", h % 97)) }
            } else if h % 2 == 0 {
                ExpErr { name: "gen.Err.Boom".into(), text: Some(format!("custom failure {}", h % 89)) }
            } else {
                ExpErr { name: "gen.Err.Fizz".into(), text: None }
            });
        }
    }
    Ok(crate::genval::derived(label))
}

pub struct CallSpec {
    pub label: String,
    pub args: Vec<RVal>,
}

pub struct MethodEntry {
    pub member: &'static str,
    pub in_sigs: &'static [&'static str],
    pub in_names: &'static [&'static str],
    /// one per declared out argument
    pub out_sigs: &'static [&'static str],
    pub out_names: &'static [&'static str],
    /// the signature of the reply body on the wire
    pub body_sig: &'static str,
    /// returns one structure-typed value (its fields become the body: documented ambiguity)
    pub struct_ret: bool,
    pub mutable: bool,
    pub is_async: bool,
    pub mode: u8,
    pub header: bool,
    pub emits: Option<usize>,
    pub gen_call: fn(&mut Src) -> CallSpec,
    pub expect: fn(&str) -> Result<Vec<RVal>, ExpErr>,
    pub expect_signal: Option<fn(&str) -> Vec<RVal>>,
    pub doc: Option<&'static str>,
}

pub struct PropEntry {
    pub name: &'static str,
    pub sig: &'static str,
    pub read: bool,
    pub write: bool,
    pub emits: &'static str,
    /// the setter refuses the values for which `fails(label)`
    pub rejects: bool,
    /// the setter takes `&self` (the value is behind a Mutex)
    pub interior: bool,
    pub init: fn() -> RVal,
    pub gen_val: fn(&mut Src) -> (RVal, String),
    pub doc: Option<&'static str>,
}

pub struct SignalEntry {
    pub member: &'static str,
    pub sigs: &'static [&'static str],
    pub names: &'static [&'static str],
    pub doc: Option<&'static str>,
}

/// proxies a case keeps between its operations (by interface), and how they cache properties
pub type Slots = Arc<Mutex<std::collections::HashMap<&'static str, Box<dyn std::any::Any + Send>>>>;
#[derive(Clone, Default)]
pub struct PxCtx {
    pub slots: Option<Slots>,
    /// 0: the builder's default (lazily), 1: CacheProperties::Yes, 2: CacheProperties::No
    pub cache: u8,
}

#[derive(Debug)]
pub enum PxOut {
    Call { label: String, result: Result<Vec<RVal>, ExpErr>, signal: Option<Vec<RVal>> },
    Get { prop: usize, result: Result<RVal, String> },
    Set { prop: usize, label: String, value: RVal, result: Result<(), String> },
}

pub struct IfaceEntry {
    pub rs: &'static str,
    pub name: &'static str,
    pub spawn: bool,
    pub register: for<'a> fn(&'a zbus::ObjectServer, String, Log) -> BoxFut<'a, zbus::Result<bool>>,
    pub remove: for<'a> fn(&'a zbus::ObjectServer, String) -> BoxFut<'a, zbus::Result<bool>>,
    pub px: for<'a> fn(&'a Connection, String, usize, Vec<u8>, PxCtx) -> BoxFut<'a, Result<PxOut, String>>,
    pub bpx: fn(&zbus::blocking::Connection, String, usize, Vec<u8>) -> Result<PxOut, String>,
    pub methods: Vec<MethodEntry>,
    pub props: Vec<PropEntry>,
    pub signals: Vec<SignalEntry>,
    /// proxy operations: ("m" | "g" | "s", index)
    pub px_ops: Vec<(&'static str, usize)>,
}

/// what a typed proxy call returned, in reference values
pub fn px_result<R: crate::genval::ToR>(r: zbus::Result<R>) -> Result<Vec<RVal>, ExpErr> {
    match r {
        Ok(v) => Ok(crate::genval::body_of(&v)),
        Err(zbus::Error::MethodError(name, text, _)) => Err(ExpErr { name: name.to_string(), text }),
        Err(e) => Err(ExpErr { name: format!("<local error: {e}>"), text: None }),
    }
}

// ------------------------------------------------------------------------------------------------
// a server connection with generated interfaces, driven by the harness scheduler, and a raw peer

pub struct Server {
    pub conn: Connection,
    pub sched: Sched,
    pub peer: Peer,
    pub sch: Sch,
    pub log: Log,
}

impl Server {
    pub fn new(schedule: Vec<u8>) -> Result<Server, Failure> {
        let Some((conn, sh)) = new_p2p(None) else { return Err(Failure::new("harness: connection")) };
        let mut sched = Sched::new();
        sched.spawn_ticker("exec", conn.executor().clone());
        Ok(Server { conn, sched, peer: Peer::new(sh, false), sch: Sch::new(schedule), log: Default::default() })
    }

    /// run a future that uses the server connection to completion
    pub fn run_setup(&mut self, what: &str, fut: impl Future<Output = ()> + 'static) -> Result<(), Failure> {
        let a = self.sched.spawn(what, fut);
        let sch = &mut self.sch;
        if self.sched.run(&mut || sch.next(), 400_000, &mut |s| s.done(a)) != Outcome::Goal {
            return Err(Failure::new(format!("{what} does not complete")));
        }
        Ok(())
    }

    pub fn register(&mut self, e: &IfaceEntry, path: &str) -> Result<bool, Failure> {
        let out: Arc<Mutex<Option<zbus::Result<bool>>>> = Default::default();
        let (o2, c, p, l, f) = (out.clone(), self.conn.clone(), path.to_string(), self.log.clone(), e.register);
        self.run_setup("registering an interface", async move {
            let r = f(c.object_server(), p, l).await;
            *o2.lock().unwrap() = Some(r);
        })?;
        let r = out.lock().unwrap().take();
        match r {
            Some(Ok(b)) => Ok(b),
            other => Err(Failure::new(format!("registering {} at {path} failed: {other:?}", e.name))),
        }
    }

    /// let everything come to rest
    pub fn settle(&mut self) -> Outcome {
        let sch = &mut self.sch;
        let peer = &mut self.peer;
        self.sched.run(&mut || sch.next(), 2_000_000, &mut |_| {
            peer.pump();
            false
        })
    }

    /// all messages zbus wrote that answer `serial`
    pub fn replies_to(&self, serial: u32) -> Vec<&RMsg> {
        self.peer.out.iter().filter(|m| (m.mtype == msg::T_RETURN || m.mtype == msg::T_ERROR) && m.get(msg::F_REPLY_SERIAL) == Some(&RVal::U(serial))).collect()
    }
}

pub fn error_text(m: &RMsg) -> Option<String> {
    match m.body.first() {
        Some(RVal::S(s)) => Some(s.clone()),
        _ => None,
    }
}

pub fn show_msg(m: &RMsg) -> String {
    let t = match m.mtype {
        msg::T_CALL => "call",
        msg::T_RETURN => "return",
        msg::T_ERROR => "error",
        msg::T_SIGNAL => "signal",
        _ => "?",
    };
    let mut s = format!("{t}");
    if let Some(n) = m.get_str(msg::F_ERROR_NAME) {
        s.push_str(&format!(" {n}"));
    }
    if let Some(n) = m.get_str(msg::F_MEMBER) {
        s.push_str(&format!(" {n}"));
    }
    s.push_str(&format!(" [{}]", m.body.iter().map(|v| v.show()).collect::<Vec<_>>().join(", ")));
    s
}
