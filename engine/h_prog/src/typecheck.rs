//! C09: for a (generated) Rust type T with its expected signature and wire value from the
//! generator's own table: the declared signature matches, the serialized bytes are a strictly valid
//! D-Bus encoding of the expected signature (independent reference decoder) consuming everything and
//! denoting the value the table predicts, and values round-trip (bytes and, where derived, Value).

use crate::bridge;
use crate::genval::{Gen, ToR};
use serde::{de::DeserializeOwned, Serialize};
use vcore::refmodel::{dbus, sig};
use vcore::run::{CaseResult, Failure, Obs};
use vcore::src::{fnv, hex, Src};
use zvariant::serialized::Context;
use zvariant::{Endian, OwnedValue, Type, Value};

pub struct TypeEntry {
    pub name: &'static str,
    pub expected: &'static str,
    pub kind: &'static str,
    /// how many derived types are nested inside (incl. itself)
    pub nesting: u32,
    pub check: fn(&TypeEntry, &mut Src, &mut Obs) -> CaseResult,
    pub value_check: Option<fn(&TypeEntry, &mut Src, &mut Obs) -> CaseResult>,
}

pub fn check_type<T>(e: &TypeEntry, src: &mut Src, obs: &mut Obs) -> CaseResult
where
    T: Type + Serialize + DeserializeOwned + PartialEq + std::fmt::Debug + Gen + ToR,
{
    let declared = T::SIGNATURE.to_string();
    // (a multi-type signature prints with outer parentheses; the table holds single complete types
    // except for the unit struct)
    if declared != e.expected {
        return Err(Failure::new(format!("{} ({}): declared signature {declared:?}, expected {:?}", e.name, e.kind, e.expected)));
    }
    let mut fuel = 10;
    let v = T::gen(src, &mut fuel);
    let big = src.bool();
    let off = src.below(16);
    let ctxt = Context::new_dbus(if big { Endian::Big } else { Endian::Little }, off);
    let enc = zvariant::to_bytes(ctxt, &v).map_err(|x| Failure::new(format!("{}: encoding {v:?} failed: {x}", e.name)))?;
    let bytes = enc.bytes().to_vec();
    let describe = || format!("type {} ({}, signature {}), value {v:?}, {} offset {off}, bytes {}", e.name, e.kind, e.expected, if big { "BE" } else { "LE" }, hex(&bytes[..bytes.len().min(120)]));
    // the bytes conform to the expected signature
    let Some(seq) = sig::parse_str(e.expected, false) else {
        // (a generator problem, not a property violation)
        eprintln!("INFRA: generator produced an invalid expected signature {}", e.expected);
        std::process::exit(2);
    };
    let (r, _grey) = dbus::unmarshal_seq(&seq, &bytes, big, off, 0);
    match r {
        Ok((vals, used)) => {
            if used != bytes.len() {
                return Err(Failure::new(format!("the serialized bytes have {} bytes beyond a valid encoding of the declared signature; {}", bytes.len() - used, describe())));
            }
            // ... and denote the value the generator's table predicts for this Rust value
            if vals.len() == 1 {
                let want = v.to_r();
                if !vals[0].eq_unordered(&want) {
                    return Err(Failure::new(format!("the serialized bytes denote {} but the value is {}; {}", vals[0].show(), want.show(), describe())));
                }
            }
        }
        Err(rej) => return Err(Failure::new(format!("the serialized bytes do not conform to the declared signature ({rej:?}); {}", describe()))),
    }
    let size = zvariant::serialized_size(ctxt, &v).map_err(|x| Failure::new(format!("serialized_size failed: {x}")))?;
    if size.size() != bytes.len() {
        return Err(Failure::new(format!("serialized_size reports {} for {} bytes; {}", size.size(), bytes.len(), describe())));
    }
    // round trip
    let (back, used): (T, usize) = enc.deserialize().map_err(|x| Failure::new(format!("decoding failed: {x}; {}", describe())))?;
    if back != v {
        return Err(Failure::new(format!("round trip changed the value to {back:?}; {}", describe())));
    }
    if used != bytes.len() {
        return Err(Failure::new(format!("decoding consumed {used} of {} bytes; {}", bytes.len(), describe())));
    }
    // decoding the reference marshaller's bytes for the predicted value gives the value too
    // (the decoder on its own, not only as the inverse of the encoder)
    if seq.len() == 1 {
        let renc = dbus::marshal(&v.to_r(), big, off);
        if renc.fds.is_empty() {
            let data = zvariant::serialized::Data::new(&renc.bytes[..], ctxt);
            let r: zvariant::Result<(T, usize)> = data.deserialize();
            match r {
                Ok((b2, _)) if b2 == v => {}
                Ok((b2, _)) => return Err(Failure::new(format!("decoding the reference encoding gives {b2:?}; {}", describe()))),
                Err(x) => return Err(Failure::new(format!("decoding the reference encoding {} failed: {x}; {}", hex(&renc.bytes[..renc.bytes.len().min(120)]), describe()))),
            }
        }
    }
    obs.label(e.kind);
    if e.nesting >= 2 || e.kind.contains("enum") || e.kind.contains("dict") {
        let mut k = e.name.as_bytes().to_vec();
        k.extend_from_slice(&bytes);
        obs.nontrivial(fnv(&k));
        obs.sample(e.kind, describe);
    }
    Ok(())
}

/// derived conversions to and from `Value` / `OwnedValue`
pub fn check_value<T>(e: &TypeEntry, src: &mut Src, obs: &mut Obs) -> CaseResult
where
    T: Type + Clone + PartialEq + std::fmt::Debug + Gen + ToR + TryFrom<Value<'static>> + TryFrom<OwnedValue>,
    Value<'static>: From<T>,
    OwnedValue: TryFrom<T>,
    <T as TryFrom<Value<'static>>>::Error: std::fmt::Debug,
    <T as TryFrom<OwnedValue>>::Error: std::fmt::Debug,
    <OwnedValue as TryFrom<T>>::Error: std::fmt::Debug,
{
    let mut fuel = 10;
    let v = T::gen(src, &mut fuel);
    let describe = || format!("type {} ({}, signature {}), value {v:?}", e.name, e.kind, e.expected);
    let val: Value<'static> = Value::from(v.clone());
    let vs = val.value_signature().to_string();
    if vs != e.expected {
        return Err(Failure::new(format!("the Value made from the type reports signature {vs:?}; {}", describe())));
    }
    let r = bridge::from_value(&val).map_err(|x| Failure::new(format!("harness: {x:?}")))?;
    let want = v.to_r();
    if !r.eq_unordered(&want) {
        return Err(Failure::new(format!("the Value made from the type is {} but the value is {}; {}", r.show(), want.show(), describe())));
    }
    let back = T::try_from(val).map_err(|x| Failure::new(format!("Value -> type failed: {x:?}; {}", describe())))?;
    if back != v {
        return Err(Failure::new(format!("type -> Value -> type gives {back:?}; {}", describe())));
    }
    let owned = OwnedValue::try_from(v.clone()).map_err(|x| Failure::new(format!("type -> OwnedValue failed: {x:?}; {}", describe())))?;
    let back = T::try_from(owned).map_err(|x| Failure::new(format!("OwnedValue -> type failed: {x:?}; {}", describe())))?;
    if back != v {
        return Err(Failure::new(format!("type -> OwnedValue -> type gives {back:?}; {}", describe())));
    }
    obs.label("value-conversions");
    obs.nontrivial(fnv(format!("V{}{:?}", e.name, v).as_bytes()));
    obs.sample("value-conversions", describe);
    Ok(())
}
