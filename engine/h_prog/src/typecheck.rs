//! C09: for a (generated) Rust type T with its expected signature from the generator's own table:
//! the declared signature matches, the serialized bytes are a strictly valid D-Bus encoding of the
//! expected signature (independent reference decoder) consuming everything, and values round-trip.

use crate::genval::Gen;
use serde::{de::DeserializeOwned, Serialize};
use vcore::refmodel::{dbus, sig};
use vcore::run::{CaseResult, Failure, Obs};
use vcore::src::{fnv, hex, Src};
use zvariant::serialized::Context;
use zvariant::{Endian, Type};

pub struct TypeEntry {
    pub name: &'static str,
    pub expected: &'static str,
    pub kind: &'static str,
    /// how many derived types are nested inside (incl. itself)
    pub nesting: u32,
    pub check: fn(&TypeEntry, &mut Src, &mut Obs) -> CaseResult,
}

pub fn check_type<T>(e: &TypeEntry, src: &mut Src, obs: &mut Obs) -> CaseResult
where
    T: Type + Serialize + DeserializeOwned + PartialEq + std::fmt::Debug + Gen,
{
    let declared = T::SIGNATURE.to_string();
    // (a multi-type signature prints with outer parentheses; the table holds single complete types
    // except for the unit struct)
    if declared != e.expected {
        return Err(Failure::new(format!("{} ({}): declared signature {declared:?}, expected {:?}", e.name, e.kind, e.expected)));
    }
    let mut fuel = 10;
    let v = T::gen(src, &mut fuel);
    let big = src.bool();
    let off = src.below(16);
    let ctxt = Context::new_dbus(if big { Endian::Big } else { Endian::Little }, off);
    let enc = zvariant::to_bytes(ctxt, &v).map_err(|x| Failure::new(format!("{}: encoding {v:?} failed: {x}", e.name)))?;
    let bytes = enc.bytes().to_vec();
    let describe = || format!("type {} ({}, signature {}), value {v:?}, {} offset {off}, bytes {}", e.name, e.kind, e.expected, if big { "BE" } else { "LE" }, hex(&bytes[..bytes.len().min(120)]));
    // the bytes conform to the expected signature
    let seq = sig::parse_str(e.expected, false).ok_or_else(|| Failure::new(format!("generator bug: bad expected signature {}", e.expected)))?;
    let (r, _grey) = dbus::unmarshal_seq(&seq, &bytes, big, off, 0);
    match r {
        Ok((_, used)) => {
            if used != bytes.len() {
                return Err(Failure::new(format!("the serialized bytes have {} bytes beyond a valid encoding of the declared signature; {}", bytes.len() - used, describe())));
            }
        }
        Err(rej) => return Err(Failure::new(format!("the serialized bytes do not conform to the declared signature ({rej:?}); {}", describe()))),
    }
    let size = zvariant::serialized_size(ctxt, &v).map_err(|x| Failure::new(format!("serialized_size failed: {x}")))?;
    if size.size() != bytes.len() {
        return Err(Failure::new(format!("serialized_size reports {} for {} bytes; {}", size.size(), bytes.len(), describe())));
    }
    // round trip
    let (back, used): (T, usize) = enc.deserialize().map_err(|x| Failure::new(format!("decoding failed: {x}; {}", describe())))?;
    if back != v {
        return Err(Failure::new(format!("round trip changed the value to {back:?}; {}", describe())));
    }
    if used != bytes.len() {
        return Err(Failure::new(format!("decoding consumed {used} of {} bytes; {}", bytes.len(), describe())));
    }
    obs.label(e.kind);
    if e.nesting >= 2 || e.kind.contains("enum") || e.kind.contains("dict") {
        let mut k = e.name.as_bytes().to_vec();
        k.extend_from_slice(&bytes);
        obs.nontrivial(fnv(&k));
        obs.sample(e.kind, describe);
    }
    Ok(())
}
