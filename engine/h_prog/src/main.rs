#[path = "../../h_zvariant/src/bridge.rs"]
#[allow(dead_code, unexpected_cfgs)]
mod bridge;
mod generated;
mod genval;
mod ifcheck;
mod typecheck;

use vcore::harness::*;
use vcore::run::{CaseResult, Obs, Run};
use vcore::src::Src;

fn c09_case(src: &mut Src, obs: &mut Obs) -> CaseResult {
    let types = generated::types();
    let i = src.below(types.len());
    let e = &types[i];
    if let Some(vc) = e.value_check {
        if src.chance(80) {
            return vc(e, src, obs);
        }
    }
    (e.check)(e, src, obs)
}

fn main() {
    let args = parse_args("h_prog");
    let id = args.id.as_str();
    let mut run = Run::new(id, &args.tier);
    let specs: Vec<Spec> = match id {
        "C09" => {
            let n = generated::types().len();
            run.rule = format!("a generated crate of {n} random type definitions per program (named / tuple / newtype / unit structs, unit enums with default, repr and string representation, data-carrying enums, dictionary structs with optional fields and renaming, nested over integers, floats, strings, object paths, variants, Vec, HashMap, BTreeMap, tuples and arrays), compiled against the library; for every type the generator's own table gives the expected signature; each type is exercised with generated values, both endians, offsets 0..15; oracle: declared signature == expected, the bytes are a strictly valid D-Bus encoding of the expected signature per the independent reference decoder (consuming everything), serialized_size agrees, decode(encode(v)) == v; non-trivial = a type nesting at least 2 derived types, or an enum / dictionary struct; distinct by hash(type, bytes)");
            run.extra.insert("program_seed".into(), serde_json::json!(generated::SEED));
            run.extra.insert("programs".into(), serde_json::json!(1));
            run.extra.insert("types_in_program".into(), serde_json::json!(n));
            vec![spec("types", 60_000, 600_000, 200, c09_case)]
        }
        _ => {
            eprintln!("unknown property {id} for h_prog");
            std::process::exit(2);
        }
    };
    standard_flow(&mut run, &specs, &args.replay);
    run.finish();
}
