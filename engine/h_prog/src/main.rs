#[path = "../../h_zvariant/src/bridge.rs"]
#[allow(dead_code, unexpected_cfgs)]
mod bridge;
mod c26;
mod c27;
mod c28;
mod c33;
#[path = "../../h_zbus/src/env.rs"]
#[allow(dead_code)]
mod env;
mod generated;
mod genval;
mod ifcheck;
mod manual;
#[path = "../../h_zbus/src/sched.rs"]
#[allow(dead_code)]
mod sched;
mod typecheck;

use vcore::harness::*;
use vcore::run::{CaseResult, Obs, Run};
use vcore::src::Src;

fn c09_case(src: &mut Src, obs: &mut Obs) -> CaseResult {
    let types = generated::types();
    let i = src.below(types.len());
    let e = &types[i];
    if let Some(vc) = e.value_check {
        if src.chance(80) {
            return vc(e, src, obs);
        }
    }
    (e.check)(e, src, obs)
}

fn program_facts(run: &mut Run) {
    let ifs = c26::ifaces();
    run.extra.insert("program_seed".into(), serde_json::json!(generated::SEED));
    run.extra.insert("programs".into(), serde_json::json!(1));
    run.extra.insert("interfaces_in_program".into(), serde_json::json!(ifs.len()));
    run.extra.insert("methods_in_program".into(), serde_json::json!(ifs.iter().map(|i| i.methods.len()).sum::<usize>()));
    run.extra.insert("properties_in_program".into(), serde_json::json!(ifs.iter().map(|i| i.props.len()).sum::<usize>()));
    run.extra.insert("signals_in_program".into(), serde_json::json!(ifs.iter().map(|i| i.signals.len()).sum::<usize>()));
}

fn main() {
    let args = parse_args("h_prog");
    let id = args.id.as_str();
    let mut run = Run::new(id, &args.tier);
    let specs: Vec<Spec> = match id {
        "C09" => {
            let n = generated::types().len();
            run.rule = format!("a generated crate of {n} random type definitions per program (named / tuple / newtype / unit structs, structs deriving Value/OwnedValue, unit enums with default, repr and string representation, data-carrying enums, dictionary structs with optional fields and renaming, nested over integers, floats, strings, object paths, variants, char, Ipv4Addr, IpAddr, Duration, NonZero, Wrapping, Vec, VecDeque, BTreeSet, Box, HashMap, BTreeMap, tuples and arrays; every enum / dictionary kind additionally inside arrays, dictionaries, tuples and newtype variants), compiled against the library; for every type the generator's own table gives the expected signature and the reference value of each Rust value; each type is exercised with generated values, both endians, offsets 0..15; oracle: declared signature == expected, the bytes are a strictly valid D-Bus encoding of the expected signature per the independent reference decoder (consuming everything) and denote the predicted value, serialized_size agrees, decode(encode(v)) == v, decode(reference encoding of the predicted value) == v, and derived Value / OwnedValue conversions round-trip with the expected signature; non-trivial = a type nesting at least 2 derived types, or an enum / dictionary struct, or a Value conversion; distinct by hash(type, bytes)");
            run.extra.insert("program_seed".into(), serde_json::json!(generated::SEED));
            run.extra.insert("programs".into(), serde_json::json!(1));
            run.extra.insert("types_in_program".into(), serde_json::json!(n));
            vec![spec("types", 200_000, 1_000_000, 200, c09_case)]
        }
        "C26" => {
            program_facts(&mut run);
            run.rule = "a generated crate of interfaces per program (methods with random argument / return types over std and derived types, sync / async, &self / &mut self, infallible / fdo::Result / custom error, header / emitter / connection / server parameters, renames, out-arg names); per case 1-3 interfaces registered on a tree of 5 paths and a burst of 1-5 raw calls from a reference-built peer, each valid or wrong in exactly one aspect (path incl. existing nodes without the interface, interface incl. one registered elsewhere, member incl. other interfaces' / property / signal names, arguments missing / extra / of another type), with and without the no-reply flag, either endianness, one chunk or several, under a generated executor schedule; oracle: handlers ran exactly for the valid calls with the arguments sent (handler log), exactly one reply per call (none with the no-reply flag), reply body == the value predicted from the handler's label with the declared signature, handler errors by name and text, emitted signals as declared, otherwise the named standard error; non-trivial = a burst with at least one call wrong in exactly one aspect; distinct by hash(kinds, labels)".into();
            let mut s = spec("dispatch", 60_000, 600_000, 160, c26::c26_case);
            s.threads = 0;
            vec![s]
        }
        "C27" => {
            program_facts(&mut run);
            run.rule = "a generated crate of interfaces per program (methods / signals / properties with random types, names, out-arg names, emits-changed modes and doc comments containing XML-special text: < > & -- --> ]]> quotes); per case 1-4 interfaces (and optionally an ObjectManager) registered on a tree of 5 paths and one node of the tree introspected by a reference-built peer; oracle: the XML is well-formed per the harness's own strict XML parser, zbus_xml reads it, every node (recursively) lists exactly the interfaces registered there plus the standard ones (each verified to be served by calling it) and exactly its child nodes, every method / signal / property is declared with the names, directions, types, access and annotation of the generator's table, and on the wire: Get returns a variant of the declared type, calls with arguments of the declared input types are not refused, replies carry the declared output types (single-structure returns excepted), emitted signals carry the declared types; non-trivial = the introspected object has an interface with signals and properties and the tree has more than 2 nodes or a doc comment has XML-special text; distinct by hash(setup)".into();
            vec![spec("introspection", 20_000, 200_000, 120, c27::c27_case)]
        }
        "C28" => {
            program_facts(&mut run);
            run.rule = "a generated crate of interfaces per program (properties with random types over std and Value-derived types, read-write / read-only / write-only, emits-changed true / invalidates / false / const, setters that refuse part of the values, fallible getters); per case one or two interfaces on one object and a history of 3-10 operations sent by a reference-built peer: Get / GetAll / Set, each valid or with an unknown property, unknown interface, read-only or write-only property, wrongly typed value; a model of the current values predicts every reply, the handler log and the PropertiesChanged signals of every step (exactly one carrying the new value or naming the property as invalidated after a successful Set of an emitting property, none otherwise); a final GetAll compares the whole state; non-trivial = a history with a successful Set, a later read of that property and at least one rejected Set; distinct by hash(interfaces, history)".into();
            vec![spec("properties", 40_000, 400_000, 200, c28::c28_case)]
        }
        "C33" => {
            program_facts(&mut run);
            run.rule = "a generated crate of interface + separately written proxy trait pairs per program (methods, properties and signals with random types over std and derived types, renames, fallible handlers with fdo and custom errors); per case a client and a server connection joined by two scripted sockets that the harness pumps under a generated schedule (async proxies), or by a socket pair with the library's executor threads (blocking proxies, 30 s give-up = inconclusive); 1-6 typed proxy operations with generated arguments: method calls (handler log must show exactly the arguments sent; the result or error must be the one predicted from the handler's label; a signal the handler emits must arrive on the proxy's signal stream with equal arguments), property reads (== the server's value per the model) and writes (the setter ran with the value; refused values error out and change nothing); non-trivial = a case with at least 2 completed operations; distinct by hash(interfaces, operations, outcomes)".into();
            let mut b = spec("blocking", 400, 6_000, 120, c33::c33_blocking_case);
            b.threads = 4;
            vec![spec("async", 20_000, 200_000, 400, c33::c33_async_case), b]
        }
        _ => {
            eprintln!("unknown property {id} for h_prog");
            std::process::exit(2);
        }
    };
    standard_flow(&mut run, &specs, &args.replay);
    run.finish();
}
