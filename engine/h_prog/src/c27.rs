//! C27: introspection data of generated interfaces registered on random trees: well-formed (own
//! strict XML parser), read by the library's XML model, listing exactly the interfaces and child
//! nodes of the object, and declaring the types the server accepts and sends on the wire.

use crate::c26::{ifaces, PATHS};
use crate::ifcheck::*;
use std::collections::{BTreeMap, BTreeSet};
use vcore::refmodel::msg::{self, RMsg};
use vcore::refmodel::val::RVal;
use vcore::refmodel::xml::{self, XElem};
use vcore::run::{CaseResult, Failure, Obs};
use vcore::src::{fnv, Src};

const INTRO: &str = "org.freedesktop.DBus.Introspectable";
const PEER: &str = "org.freedesktop.DBus.Peer";
const PROPS: &str = "org.freedesktop.DBus.Properties";
const OM: &str = "org.freedesktop.DBus.ObjectManager";

fn children_of(nodes: &BTreeSet<String>, path: &str) -> BTreeSet<String> {
    let prefix = if path == "/" { "/".to_string() } else { format!("{path}/") };
    nodes.iter().filter(|n| n.starts_with(&prefix) && n.len() > prefix.len()).map(|n| n[prefix.len()..].split('/').next().unwrap().to_string()).collect()
}

fn call_and_settle(sv: &mut Server, c: &RMsg) -> Result<RMsg, Failure> {
    sv.peer.send(c);
    if sv.settle() == crate::sched::Outcome::Budget {
        eprintln!("INFRA: step budget exhausted in C27");
        std::process::exit(2);
    }
    let rs = sv.replies_to(c.serial);
    if rs.len() != 1 {
        return Err(Failure::new(format!("{} replies to {}", rs.len(), show_msg(c))));
    }
    Ok(rs[0].clone())
}

struct Decl {
    ins: Vec<(Option<String>, String)>,
    outs: Vec<(Option<String>, String)>,
}

fn args_of(e: &XElem, is_signal: bool) -> Result<Decl, String> {
    let mut d = Decl { ins: vec![], outs: vec![] };
    for a in e.elems("arg") {
        let ty = a.attr("type").ok_or("arg without type")?.to_string();
        let name = a.attr("name").map(|s| s.to_string());
        match a.attr("direction") {
            Some("in") if !is_signal => d.ins.push((name, ty)),
            Some("out") => d.outs.push((name, ty)),
            None if is_signal => d.outs.push((name, ty)),
            None => d.ins.push((name, ty)),
            Some(x) => return Err(format!("direction {x:?}")),
        }
    }
    Ok(d)
}

pub fn c27_case(src: &mut Src, obs: &mut Obs) -> CaseResult {
    let ifs = ifaces();
    let sb = src.bytes(8);
    let mut sv = Server::new(sb)?;
    let nreg = 1 + src.below(4);
    let mut regs: Vec<(&str, usize)> = vec![];
    for _ in 0..nreg {
        let p = PATHS[src.below(PATHS.len())];
        let i = src.below(ifs.len());
        if regs.iter().any(|r| r.0 == p && r.1 == i) {
            continue;
        }
        sv.register(&ifs[i], p)?;
        regs.push((p, i));
    }
    let om_at: Option<&str> = if src.chance(60) { Some(regs[src.below(regs.len())].0) } else { None };
    if let Some(p) = om_at {
        let c = sv.conn.clone();
        let p2 = p.to_string();
        sv.run_setup("adding an ObjectManager", async move {
            let _ = c.object_server().at(p2, zbus::fdo::ObjectManager).await;
        })?;
    }
    sv.settle();
    // the model tree: every registered path and its ancestors
    let mut nodes: BTreeSet<String> = BTreeSet::new();
    nodes.insert("/".into());
    for (p, _) in &regs {
        let mut cur = String::new();
        for part in p.split('/').filter(|s| !s.is_empty()) {
            cur.push('/');
            cur.push_str(part);
            nodes.insert(cur.clone());
        }
    }
    let node_list: Vec<String> = nodes.iter().cloned().collect();
    let root = node_list[src.below(node_list.len())].clone();
    let setup = format!("registered {:?}{}, introspecting {root}", regs.iter().map(|r| format!("{}@{}", ifs[r.1].rs, r.0)).collect::<Vec<_>>(), om_at.map(|p| format!(", ObjectManager@{p}")).unwrap_or_default());
    let c = sv.peer.call(&root, Some(INTRO), "Introspect", vec![]);
    let r = call_and_settle(&mut sv, &c)?;
    let xmltext = match (r.mtype, r.body.as_slice()) {
        (msg::T_RETURN, [RVal::S(s)]) => s.clone(),
        _ => return Err(Failure::new(format!("Introspect answered {}; {setup}", show_msg(&r)))),
    };
    let short = |s: &str| if s.len() > 1500 { format!("{}…", &s[..s.char_indices().take_while(|(i, _)| *i < 1500).last().map(|(i, c)| i + c.len_utf8()).unwrap_or(0)]) } else { s.to_string() };
    // (a) well-formed
    let tree = match xml::parse(&xmltext) {
        Ok(t) => t,
        Err(e) => {
            // which documented text made it so (for the finding key)
            let key = if e.contains("'--' inside a comment") { "introspection-doc-text-unescaped-in-comment" } else { "" };
            let text = format!("the introspection XML is not well-formed: {e}; {setup}; XML: {}", short(&xmltext));
            return Err(if key.is_empty() { Failure::new(text) } else { Failure::keyed(key, text) });
        }
    };
    if tree.name != "node" {
        return Err(Failure::new(format!("the root element is <{}>; {setup}", tree.name)));
    }
    // (b) the library's own XML model reads it
    let znode = match zbus_xml::Node::from_reader(xmltext.as_bytes()) {
        Ok(n) => n,
        Err(e) => return Err(Failure::new(format!("zbus_xml does not read the introspection XML: {e}; {setup}; XML: {}", short(&xmltext)))),
    };
    // (c) interfaces and child nodes, recursively
    fn check_node(e: &XElem, path: &str, regs: &[(&str, usize)], om_at: Option<&str>, nodes: &BTreeSet<String>, depth: usize) -> Result<(), String> {
        let ifs = ifaces();
        let listed: Vec<&str> = e.elems("interface").map(|i| i.attr("name").unwrap_or("")).collect();
        let lset: BTreeSet<&str> = listed.iter().copied().collect();
        if lset.len() != listed.len() {
            return Err(format!("{path}: an interface is listed twice: {listed:?}"));
        }
        let mut want: BTreeSet<&str> = regs.iter().filter(|r| r.0 == path).map(|r| ifs[r.1].name).collect();
        // the standard interfaces every object of this server answers (verified by calls below)
        want.insert(PEER);
        want.insert(INTRO);
        want.insert(PROPS);
        if om_at == Some(path) {
            want.insert(OM);
        }
        if lset != want {
            return Err(format!("{path}: lists interfaces {lset:?}, the object has {want:?}"));
        }
        let kids: Vec<&XElem> = e.elems("node").collect();
        let knames: Vec<&str> = kids.iter().map(|k| k.attr("name").unwrap_or("")).collect();
        let kset: BTreeSet<String> = knames.iter().map(|s| s.to_string()).collect();
        if kset.len() != knames.len() {
            return Err(format!("{path}: a child node is listed twice: {knames:?}"));
        }
        let wantk = children_of(nodes, path);
        if kset != wantk {
            return Err(format!("{path}: lists child nodes {kset:?}, the object has {wantk:?}"));
        }
        for k in kids {
            // a nested description, when given, must be the child's own
            if k.all_elems().next().is_some() && depth < 8 {
                let cp = if path == "/" { format!("/{}", k.attr("name").unwrap_or("")) } else { format!("{path}/{}", k.attr("name").unwrap_or("")) };
                check_node(k, &cp, regs, om_at, nodes, depth + 1)?;
            }
        }
        Ok(())
    }
    if let Err(e) = check_node(&tree, &root, &regs, om_at, &nodes, 0) {
        return Err(Failure::new(format!("{e}; {setup}; XML: {}", short(&xmltext))));
    }
    // the standard interfaces listed are really served at the root object
    let ping = sv.peer.call(&root, Some(PEER), "Ping", vec![]);
    let pr = call_and_settle(&mut sv, &ping)?;
    if pr.mtype != msg::T_RETURN {
        return Err(Failure::new(format!("{PEER} is listed but Ping answers {}; {setup}", show_msg(&pr))));
    }
    let ga = sv.peer.call(&root, Some(PROPS), "GetAll", vec![RVal::S(PEER.into())]);
    let gr = call_and_settle(&mut sv, &ga)?;
    if gr.mtype == msg::T_ERROR && gr.get_str(msg::F_ERROR_NAME) == Some("org.freedesktop.DBus.Error.UnknownInterface") && error_text(&gr).map(|t| t.contains(PROPS)).unwrap_or(false) {
        return Err(Failure::new(format!("{PROPS} is listed but not served: {}; {setup}", show_msg(&gr))));
    }
    let gm = sv.peer.call(&root, Some(OM), "GetManagedObjects", vec![]);
    let gmr = call_and_settle(&mut sv, &gm)?;
    if (gmr.mtype == msg::T_RETURN) != (om_at == Some(root.as_str())) {
        return Err(Failure::new(format!("ObjectManager listed: {}, but GetManagedObjects answers {}; {setup}", om_at == Some(root.as_str()), show_msg(&gmr))));
    }
    // (d) members of the generated interfaces at the root object against the generator's table, and
    // (e) against what the server does on the wire
    let mut special_docs = 0;
    let zifs: BTreeMap<String, &zbus_xml::Interface<'_>> = znode.interfaces().iter().map(|i| (i.name().to_string(), i)).collect();
    for (p, ii) in regs.iter().filter(|r| r.0 == root) {
        let e = &ifs[*ii];
        let xi = tree.elems("interface").find(|i| i.attr("name") == Some(e.name)).unwrap();
        let Some(zi) = zifs.get(e.name) else { return Err(Failure::new(format!("zbus_xml lost interface {}; {setup}", e.name))) };
        let ctx = |what: &str| format!("{what} of {} ({}); {setup}; XML: {}", e.name, e.rs, short(&xmltext));
        // methods
        let xm: Vec<&XElem> = xi.elems("method").collect();
        let names: BTreeSet<&str> = xm.iter().map(|m| m.attr("name").unwrap_or("")).collect();
        let want: BTreeSet<&str> = e.methods.iter().map(|m| m.member).collect();
        if names != want || xm.len() != e.methods.len() {
            return Err(Failure::new(ctx(&format!("declared methods {names:?} but the interface has {want:?}"))));
        }
        if zi.methods().len() != e.methods.len() || zi.signals().len() != e.signals.len() || zi.properties().len() != e.props.len() {
            return Err(Failure::new(ctx("zbus_xml reads a different number of members than declared")));
        }
        for m in &e.methods {
            let x = xm.iter().find(|x| x.attr("name") == Some(m.member)).unwrap();
            let d = args_of(x, false).map_err(|er| Failure::new(ctx(&format!("method {}: {er}", m.member))))?;
            let ins: Vec<&str> = d.ins.iter().map(|a| a.1.as_str()).collect();
            if ins != m.in_sigs || d.ins.iter().map(|a| a.0.as_deref().unwrap_or("")).collect::<Vec<_>>() != m.in_names {
                return Err(Failure::new(ctx(&format!("method {} declares inputs {:?}, it takes {:?} named {:?}", m.member, d.ins, m.in_sigs, m.in_names))));
            }
            let outs: Vec<&str> = d.outs.iter().map(|a| a.1.as_str()).collect();
            if outs != m.out_sigs {
                return Err(Failure::new(ctx(&format!("method {} declares outputs {:?}, it returns {:?}", m.member, d.outs, m.out_sigs))));
            }
            if !m.out_names.is_empty() && d.outs.iter().map(|a| a.0.as_deref().unwrap_or("")).collect::<Vec<_>>() != m.out_names {
                return Err(Failure::new(ctx(&format!("method {} declares output names {:?}, given {:?}", m.member, d.outs, m.out_names))));
            }
            let zm = zi.methods().iter().find(|z| z.name().as_str() == m.member).ok_or_else(|| Failure::new(ctx(&format!("zbus_xml lost method {}", m.member))))?;
            let ztys: Vec<String> = zm.args().iter().map(|a| a.ty().to_string()).collect();
            let xtys: Vec<String> = d.ins.iter().chain(d.outs.iter()).map(|a| a.1.clone()).collect();
            let mut zs = ztys.clone();
            let mut xs = xtys.clone();
            zs.sort();
            xs.sort();
            if zs != xs {
                return Err(Failure::new(ctx(&format!("zbus_xml reads the argument types of {} as {ztys:?}, the XML says {xtys:?}", m.member))));
            }
            if m.doc.map(|d| d.contains('<') || d.contains('&') || d.contains("--") || d.contains("]]>")).unwrap_or(false) {
                special_docs += 1;
            }
        }
        // signals
        let xs: Vec<&XElem> = xi.elems("signal").collect();
        if xs.len() != e.signals.len() {
            return Err(Failure::new(ctx("a different number of signals is declared")));
        }
        for s in &e.signals {
            let x = xs.iter().find(|x| x.attr("name") == Some(s.member)).ok_or_else(|| Failure::new(ctx(&format!("signal {} is not declared", s.member))))?;
            let d = args_of(x, true).map_err(|er| Failure::new(ctx(&format!("signal {}: {er}", s.member))))?;
            let tys: Vec<&str> = d.outs.iter().map(|a| a.1.as_str()).collect();
            if tys != s.sigs || d.outs.iter().map(|a| a.0.as_deref().unwrap_or("")).collect::<Vec<_>>() != s.names {
                return Err(Failure::new(ctx(&format!("signal {} declares {:?}, it carries {:?} named {:?}", s.member, d.outs, s.sigs, s.names))));
            }
        }
        // properties
        let xp: Vec<&XElem> = xi.elems("property").collect();
        if xp.len() != e.props.len() {
            return Err(Failure::new(ctx("a different number of properties is declared")));
        }
        for pr in &e.props {
            let x = xp.iter().find(|x| x.attr("name") == Some(pr.name)).ok_or_else(|| Failure::new(ctx(&format!("property {} is not declared", pr.name))))?;
            let access = match (pr.read, pr.write) {
                (true, true) => "readwrite",
                (true, false) => "read",
                _ => "write",
            };
            let ann = x.elems("annotation").find(|a| a.attr("name") == Some("org.freedesktop.DBus.Property.EmitsChangedSignal")).and_then(|a| a.attr("value")).unwrap_or("true");
            if x.attr("type") != Some(pr.sig) || x.attr("access") != Some(access) || ann != pr.emits {
                return Err(Failure::new(ctx(&format!("property {} is declared as type {:?} access {:?} emits-changed {ann:?}; it is {} {access} {}", pr.name, x.attr("type"), x.attr("access"), pr.sig, pr.emits))));
            }
            if pr.read {
                // wire: Get returns a variant of the declared type
                let g = sv.peer.call(p, Some(PROPS), "Get", vec![RVal::S(e.name.into()), RVal::S(pr.name.into())]);
                let gr = call_and_settle(&mut sv, &g)?;
                let ok = matches!(gr.body.as_slice(), [RVal::V(b)] if Some(b.0.to_string().as_str()) == x.attr("type"));
                if gr.mtype != msg::T_RETURN || !ok {
                    return Err(Failure::new(ctx(&format!("property {} is declared with type {:?} but Get answers {}", pr.name, x.attr("type"), show_msg(&gr)))));
                }
            }
        }
        // wire: call up to two methods with arguments of the declared types
        for _ in 0..2 {
            let mi = src.below(e.methods.len());
            let m = &e.methods[mi];
            let x = xm.iter().find(|x| x.attr("name") == Some(m.member)).unwrap();
            let d = args_of(x, false).unwrap();
            let spec = (m.gen_call)(src);
            let sent_sig: String = spec.args.iter().map(|a| a.sig().to_string()).collect();
            let declared_in: String = d.ins.iter().map(|a| a.1.as_str()).collect();
            let before = sv.peer.out.len();
            let c = sv.peer.call(p, Some(e.name), m.member, spec.args.clone());
            let r = call_and_settle(&mut sv, &c)?;
            if sent_sig == declared_in && r.mtype == msg::T_ERROR && r.get_str(msg::F_ERROR_NAME) == Some("org.freedesktop.DBus.Error.InvalidArgs") && (m.expect)(&spec.label).is_ok() {
                return Err(Failure::new(ctx(&format!("method {} declares inputs {declared_in:?} but refuses arguments of these types: {}", m.member, show_msg(&r)))));
            }
            if r.mtype == msg::T_RETURN && !m.struct_ret {
                let declared_out: String = d.outs.iter().map(|a| a.1.as_str()).collect();
                if r.body_signature() != declared_out {
                    return Err(Failure::new(ctx(&format!("method {} declares outputs {declared_out:?} but its reply has signature {:?}", m.member, r.body_signature()))));
                }
            }
            if let Some(si) = m.emits {
                let s = &e.signals[si];
                let sx = xs.iter().find(|x| x.attr("name") == Some(s.member)).unwrap();
                let sd = args_of(sx, true).unwrap();
                let declared: String = sd.outs.iter().map(|a| a.1.as_str()).collect();
                for o in sv.peer.out[before..].iter().filter(|o| o.mtype == msg::T_SIGNAL && o.get_str(msg::F_MEMBER) == Some(s.member)) {
                    if o.body_signature() != declared {
                        return Err(Failure::new(ctx(&format!("signal {} is declared as {declared:?} but sent with signature {:?}", s.member, o.body_signature()))));
                    }
                }
            }
        }
    }
    // A second look after the tree changed at or below the introspected node: what is returned is
    // the description of the tree as it is now, not one remembered from before.
    let mut relooked = false;
    if src.chance(150) {
        let p = PATHS[src.below(PATHS.len())];
        let i = src.below(ifs.len());
        let present = regs.iter().any(|r| r.0 == p && r.1 == i);
        let mut change = String::new();
        if !present {
            sv.register(&ifs[i], p)?;
            regs.push((p, i));
            change = format!("then {} was added at {p}", ifs[i].rs);
        } else if regs.iter().filter(|r| r.0 == p).count() > 1 || om_at == Some(p) {
            // (removing one of several interfaces keeps the node whatever its children)
            let (c, p2, f) = (sv.conn.clone(), p.to_string(), ifs[i].remove);
            sv.run_setup("removing an interface", async move {
                let _ = f(c.object_server(), p2).await;
            })?;
            regs.retain(|r| !(r.0 == p && r.1 == i));
            change = format!("then {} was removed from {p}", ifs[i].rs);
        }
        if !change.is_empty() {
            sv.settle();
            let mut nodes2: BTreeSet<String> = BTreeSet::new();
            nodes2.insert("/".into());
            for (p, _) in regs.iter().map(|r| (r.0, r.1)).chain(om_at.map(|p| (p, 0))) {
                let mut cur = String::new();
                for part in p.split('/').filter(|s| !s.is_empty()) {
                    cur.push('/');
                    cur.push_str(part);
                    nodes2.insert(cur.clone());
                }
            }
            let c2 = sv.peer.call(&root, Some(INTRO), "Introspect", vec![]);
            let r2 = call_and_settle(&mut sv, &c2)?;
            let xml2 = match (r2.mtype, r2.body.as_slice()) {
                (msg::T_RETURN, [RVal::S(s)]) => s.clone(),
                _ => return Err(Failure::new(format!("the second Introspect answered {}; {setup}, {change}", show_msg(&r2)))),
            };
            let tree2 = xml::parse(&xml2).map_err(|e| Failure::new(format!("the second introspection XML is not well-formed: {e}; {setup}, {change}")))?;
            if let Err(e) = check_node(&tree2, &root, &regs, om_at, &nodes2, 0) {
                return Err(Failure::new(format!("{e}; {setup}, {change}, then {root} was introspected again; XML: {}", short(&xml2))));
            }
            relooked = true;
        }
    }
    if relooked {
        obs.label("introspected-again-after-a-change");
    }
    obs.label(if root == "/" { "root" } else { "inner-node" });
    let generated_here = regs.iter().filter(|r| r.0 == root).count();
    if generated_here > 0 {
        obs.label("object-with-generated-interfaces");
    }
    if special_docs > 0 {
        obs.label("doc-with-special-text");
    }
    let e_has = regs.iter().filter(|r| r.0 == root).any(|r| !ifs[r.1].signals.is_empty() && !ifs[r.1].props.is_empty());
    if e_has && (special_docs > 0 || nodes.len() > 2) {
        obs.nontrivial(fnv(setup.as_bytes()));
        obs.sample("introspection", || format!("{setup}: {} bytes of XML", xmltext.len()));
    }
    Ok(())
}
