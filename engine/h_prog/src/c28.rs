//! C28: the Properties interface over generated interface definitions. Histories of Get / GetAll /
//! Set (valid, unknown property, unknown interface, read-only, write-only, wrongly typed, refused
//! by the setter) sent by a raw peer; a model of the property values predicts every reply and
//! every PropertiesChanged signal.

use crate::c26::ifaces;
use crate::ifcheck::*;
use vcore::refmodel::msg::{self, RMsg};
use vcore::refmodel::sig::RSig;
use vcore::refmodel::val::RVal;
use vcore::run::{CaseResult, Failure, Obs};
use vcore::src::{fnv, Src};

const PROPS: &str = "org.freedesktop.DBus.Properties";

fn variant(v: &RVal) -> RVal {
    RVal::V(Box::new((v.sig(), v.clone())))
}

fn other_type(v: &RVal) -> RVal {
    match v {
        RVal::S(_) => RVal::U(7),
        RVal::U(_) => RVal::S("seven".into()),
        RVal::A(..) | RVal::Dict(..) | RVal::St(_) => RVal::S("other".into()),
        _ => RVal::A(RSig::S, vec![RVal::S("other".into())]),
    }
}

pub fn c28_case(src: &mut Src, obs: &mut Obs) -> CaseResult {
    let ifs = ifaces();
    let with_props: Vec<usize> = (0..ifs.len()).filter(|i| !ifs[*i].props.is_empty()).collect();
    if with_props.is_empty() {
        eprintln!("INFRA: the generated program has no interface with properties");
        std::process::exit(2);
    }
    let sb = src.bytes(8);
    let mut sv = Server::new(sb)?;
    let path = "/gen";
    let mut regs: Vec<usize> = vec![with_props[src.below(with_props.len())]];
    if src.chance(90) {
        let o = src.below(ifs.len());
        if !regs.contains(&o) {
            regs.push(o);
        }
    }
    for i in &regs {
        sv.register(&ifs[*i], path)?;
    }
    sv.settle();
    // the model: current value of every property of every registered interface
    let mut model: Vec<Vec<RVal>> = regs.iter().map(|i| ifs[*i].props.iter().map(|p| (p.init)()).collect()).collect();
    let nops = 3 + src.below(8);
    let mut history: Vec<String> = vec![];
    let mut interesting = (false, false, false); // successful set, later read of it, rejected set
    let mut set_props: Vec<(usize, usize)> = vec![];
    for step in 0..=nops {
        let last = step == nops;
        let ri = src.below(regs.len());
        let e = &ifs[regs[ri]];
        let before_msgs = sv.peer.out.len();
        let before_log = sv.log.lock().unwrap().len();
        let op = if last { 1 } else { src.weighted(&[4, 2, 6]) };
        // (the last step reads everything back: failed Sets must have left the state alone)
        let mut expect_err = false;
        let mut expect_sig: Option<(String, Option<RVal>)> = None; // property name, Some(value) | invalidated
        let mut expect_log: Option<String> = None;
        let call: RMsg;
        let mut what;
        let mut check_get: Option<RVal> = None;
        let mut check_all = false;
        match op {
            0 if !e.props.is_empty() => {
                let pi = src.below(e.props.len());
                let p = &e.props[pi];
                let mode = src.weighted(&[8, 1, 1]);
                let (iname, pname) = match mode {
                    0 => (e.name.to_string(), p.name.to_string()),
                    1 => (e.name.to_string(), format!("{}x", p.name)),
                    _ => ("gen.Nope".to_string(), p.name.to_string()),
                };
                what = format!("Get({iname}, {pname})");
                if mode != 0 || !p.read {
                    expect_err = true;
                    what.push_str(if mode == 0 { " [write-only]" } else { " [unknown]" });
                } else {
                    check_get = Some(model[ri][pi].clone());
                    if set_props.contains(&(ri, pi)) {
                        interesting.1 = true;
                    }
                }
                call = sv.peer.call(path, Some(PROPS), "Get", vec![RVal::S(iname), RVal::S(pname)]);
            }
            0 | 1 => {
                let unknown = !last && src.chance(30);
                let iname = if unknown { "gen.Nope".to_string() } else { e.name.to_string() };
                what = format!("GetAll({iname})");
                if unknown {
                    expect_err = true;
                } else {
                    check_all = true;
                    if !set_props.is_empty() {
                        interesting.1 = true;
                    }
                }
                call = sv.peer.call(path, Some(PROPS), "GetAll", vec![RVal::S(iname)]);
            }
            _ if !e.props.is_empty() => {
                let pi = src.below(e.props.len());
                let p = &e.props[pi];
                let (val, label) = (p.gen_val)(src);
                let mode = src.weighted(&[8, 2, 1, 1]);
                let mut iname = e.name.to_string();
                let mut pname = p.name.to_string();
                let mut v = val.clone();
                what = String::new();
                match mode {
                    0 => {}
                    1 => {
                        if src.bool() {
                            v = other_type(&val);
                            what = " [wrongly typed]".into();
                        } else {
                            // the right value, but wrapped in a variant once more: type v, not the
                            // property's type
                            v = variant(&val);
                            what = " [wrongly typed: the value inside another variant]".into();
                        }
                    }
                    2 => {
                        pname = format!("{}x", p.name);
                        what = " [unknown property]".into();
                    }
                    _ => {
                        iname = "gen.Nope".into();
                        what = " [unknown interface]".into();
                    }
                }
                if mode != 0 {
                    expect_err = true;
                } else if !p.write {
                    expect_err = true;
                    what = " [read-only]".into();
                } else if p.rejects && fails(&label).is_some() {
                    expect_err = true;
                    expect_log = Some(label.clone());
                    what = " [refused by the setter]".into();
                } else {
                    expect_log = Some(label.clone());
                    model[ri][pi] = val.clone();
                    set_props.push((ri, pi));
                    interesting.0 = true;
                    match p.emits {
                        "true" => expect_sig = Some((p.name.to_string(), Some(val.clone()))),
                        "invalidates" => expect_sig = Some((p.name.to_string(), None)),
                        _ => {}
                    }
                }
                if expect_err {
                    interesting.2 = true;
                }
                what = format!("Set({iname}, {pname}, {}){what}", v.show());
                call = sv.peer.call(path, Some(PROPS), "Set", vec![RVal::S(iname), RVal::S(pname), variant(&v)]);
            }
            _ => continue,
        }
        history.push(what.clone());
        sv.peer.send(&call);
        if sv.settle() == crate::sched::Outcome::Budget {
            eprintln!("INFRA: step budget exhausted in C28");
            std::process::exit(2);
        }
        let describe = || format!("step {step} {what} on {} (properties {:?}) after {:?}", e.rs, e.props.iter().map(|p| format!("{}:{}:{}{}:{}", p.name, p.sig, if p.read { "r" } else { "" }, if p.write { "w" } else { "" }, p.emits)).collect::<Vec<_>>(), &history[..history.len() - 1]);
        if !sv.peer.unparsable.is_empty() {
            return Err(Failure::new(format!("the server wrote a message the reference parser rejects: {}; {}", sv.peer.unparsable[0], describe())));
        }
        let rs = sv.replies_to(call.serial);
        if rs.len() != 1 {
            return Err(Failure::new(format!("{} replies: {:?}; {}", rs.len(), rs.iter().map(|r| show_msg(r)).collect::<Vec<_>>(), describe())));
        }
        let r = rs[0];
        if expect_err {
            if r.mtype != msg::T_ERROR {
                return Err(Failure::new(format!("answered with {} where an error is due; {}", show_msg(r), describe())));
            }
        } else if r.mtype != msg::T_RETURN {
            return Err(Failure::new(format!("answered with {}; {}", show_msg(r), describe())));
        } else if let Some(want) = &check_get {
            let ok = matches!(r.body.as_slice(), [RVal::V(b)] if b.0 == want.sig() && b.1.eq_unordered(want));
            if !ok {
                return Err(Failure::new(format!("Get returned [{}], the property's current value is {} of type {}; {}", r.body.iter().map(|v| v.show()).collect::<Vec<_>>().join(", "), want.show(), want.sig().to_string(), describe())));
            }
        } else if check_all {
            let want: Vec<(String, RVal)> = e.props.iter().enumerate().filter(|(_, p)| p.read).map(|(i, p)| (p.name.to_string(), model[ri][i].clone())).collect();
            let ok = match r.body.as_slice() {
                [RVal::Dict(RSig::S, RSig::V, entries)] => {
                    entries.len() == want.len()
                        && want.iter().all(|(n, v)| {
                            entries.iter().any(|(k, x)| matches!(k, RVal::S(s) if s == n) && matches!(x, RVal::V(b) if b.0 == v.sig() && b.1.eq_unordered(v)))
                        })
                }
                _ => false,
            };
            if !ok {
                return Err(Failure::new(format!("GetAll returned [{}], the readable properties are {:?}; {}", r.body.iter().map(|v| v.show()).collect::<Vec<_>>().join(", "), want.iter().map(|(n, v)| format!("{n}={}", v.show())).collect::<Vec<_>>(), describe())));
            }
        } else if !r.body.is_empty() {
            return Err(Failure::new(format!("Set answered with a non-empty body {}; {}", show_msg(r), describe())));
        }
        // the setter ran iff the Set reached it
        let new_log: Vec<String> = sv.log.lock().unwrap()[before_log..].to_vec();
        let want_log: Vec<String> = expect_log.iter().cloned().collect();
        if new_log != want_log {
            return Err(Failure::new(format!("handlers ran {new_log:?}, warranted {want_log:?}; {}", describe())));
        }
        // signals of this step
        let sigs: Vec<&RMsg> = sv.peer.out[before_msgs..].iter().filter(|m| m.mtype == msg::T_SIGNAL).collect();
        match &expect_sig {
            None => {
                if !sigs.is_empty() {
                    return Err(Failure::new(format!("signals {:?} were emitted although none is due; {}", sigs.iter().map(|s| show_msg(s)).collect::<Vec<_>>(), describe())));
                }
            }
            Some((name, val)) => {
                let ok = sigs.len() == 1 && {
                    let s = sigs[0];
                    s.get_str(msg::F_MEMBER) == Some("PropertiesChanged")
                        && s.get_str(msg::F_INTERFACE) == Some(PROPS)
                        && s.get_str(msg::F_PATH) == Some(path)
                        && match s.body.as_slice() {
                            [RVal::S(i), RVal::Dict(RSig::S, RSig::V, changed), RVal::A(RSig::S, inval)] => {
                                i == e.name
                                    && match val {
                                        Some(v) => inval.is_empty() && changed.len() == 1 && matches!(&changed[0], (RVal::S(k), RVal::V(b)) if k == name && b.0 == v.sig() && b.1.eq_unordered(v)),
                                        None => changed.is_empty() && inval.len() == 1 && inval[0] == RVal::S(name.clone()),
                                    }
                            }
                            _ => false,
                        }
                };
                if !ok {
                    return Err(Failure::new(format!("after the successful Set exactly one PropertiesChanged {} is due, emitted: {:?}; {}", match val { Some(v) => format!("carrying {name}={}", v.show()), None => format!("invalidating {name}") }, sigs.iter().map(|s| show_msg(s)).collect::<Vec<_>>(), describe())));
                }
                // the signal precedes the reply (a client that waits for the reply has seen it)
            }
        }
        obs.label(match op {
            0 => "get",
            1 => "get-all",
            _ => "set",
        });
        if expect_err {
            obs.label("error-due");
        }
        if expect_sig.is_some() {
            obs.label("signal-due");
        }
    }
    if interesting.0 && interesting.1 && interesting.2 {
        obs.nontrivial(fnv(format!("{:?}{:?}", regs, history).as_bytes()));
        obs.sample("history", || format!("interfaces {:?}: {:?}", regs.iter().map(|i| ifs[*i].rs).collect::<Vec<_>>(), history));
    }
    Ok(())
}
