//! C33: generated proxies against generated interfaces. A client connection with the typed proxy
//! and a server connection with the interface, joined by two scripted sockets the harness pumps
//! (async proxies, harness-owned schedule), or by a socket pair with the library's own executor
//! threads (blocking proxies). Handler log, returned values, errors, property values and signal
//! arguments are predicted from the generator's tables.

use crate::c26::ifaces;
use crate::env::GUID;
use crate::ifcheck::*;
use crate::sched::*;
use std::sync::{Arc, Mutex};
use vcore::refmodel::val::RVal;
use vcore::run::{CaseResult, Failure, Obs};
use vcore::src::{fnv, Src};
use zbus::connection::Builder;
use zbus::Connection;

fn new_conn() -> Option<(Connection, Shared)> {
    let (sock, sh) = SSocket::new();
    let fut = async move { Builder::authenticated_socket(sock, GUID).expect("guid").p2p().internal_executor(false).build().await };
    match block_on_simple(fut, 100_000) {
        Some(Ok(c)) => Some((c, sh)),
        _ => None,
    }
}

/// move what one side wrote since last time into the other side's inbound queue
fn pump(from: &Shared, pos: &mut usize, to: &Shared) -> bool {
    let bytes: Vec<u8> = {
        let s = from.lock().unwrap();
        let b: Vec<u8> = s.sent[*pos..].iter().flat_map(|(b, _)| b.iter().copied()).collect();
        *pos = s.sent.len();
        b
    };
    if bytes.is_empty() {
        return false;
    }
    feed(to, bytes, vec![]);
    true
}

fn show_vals(v: &[RVal]) -> String {
    v.iter().map(|x| x.show()).collect::<Vec<_>>().join(", ")
}

/// compare what the proxy operation observed with the prediction; updates the property model
fn judge(e: &IfaceEntry, out: &PxOut, log: &[String], model: &mut [RVal]) -> Result<&'static str, String> {
    match out {
        PxOut::Call { label, result, signal } => {
            let n = log.iter().filter(|l| *l == label).count();
            if n != 1 {
                return Err(format!("the handler ran {n} times with the arguments sent ({label}); handler log {log:?}"));
            }
            let member = &label[e.rs.len() + 1..label.find('|').unwrap_or(label.len())];
            let m = e.methods.iter().find(|m| m.member == member).ok_or("harness: unknown member")?;
            let want = (m.expect)(label);
            match (result, &want) {
                (Ok(a), Ok(b)) => {
                    if a.len() != b.len() || !a.iter().zip(b).all(|(x, y)| x.eq_unordered(y)) {
                        return Err(format!("the proxy returned [{}], the handler returned [{}] ({label})", show_vals(a), show_vals(b)));
                    }
                }
                (Err(a), Err(b)) => {
                    if a != b {
                        return Err(format!("the proxy reports error {a:?}, the handler failed with {b:?} ({label})"));
                    }
                }
                (a, b) => return Err(format!("the proxy returned {a:?}, the handler {b:?} ({label})")),
            }
            if let Some(f) = m.expect_signal {
                let w = f(label);
                match signal {
                    Some(s) if s.len() == w.len() && s.iter().zip(&w).all(|(x, y)| x.eq_unordered(y)) => {}
                    other => return Err(format!("the signal stream delivered {:?}, the handler emitted [{}] ({label})", other.as_ref().map(|s| show_vals(s)), show_vals(&w))),
                }
                return Ok("call+signal");
            }
            Ok(if want.is_err() { "call-error" } else { "call" })
        }
        PxOut::Get { prop, result } => match result {
            Ok(v) if v.eq_unordered(&model[*prop]) => Ok("get"),
            other => Err(format!("reading property {} through the proxy gives {:?}, the server's value is {}", e.props[*prop].name, other.as_ref().map(|v| v.show()), model[*prop].show())),
        },
        PxOut::Set { prop, label, value, result } => {
            let p = &e.props[*prop];
            let refused = p.rejects && fails(label).is_some();
            let n = log.iter().filter(|l| *l == label).count();
            if n != 1 {
                return Err(format!("the setter ran {n} times with the value sent ({label}); handler log {log:?}"));
            }
            match (result, refused) {
                (Ok(()), false) => {
                    model[*prop] = value.clone();
                    Ok("set")
                }
                (Err(_), true) => Ok("set-refused"),
                (r, _) => Err(format!("writing property {} through the proxy gives {r:?}, the setter {} the value ({label})", p.name, if refused { "refuses" } else { "accepts" })),
            }
        }
    }
}

pub fn c33_async_case(src: &mut Src, obs: &mut Obs) -> CaseResult {
    let ifs = ifaces();
    let (Some((server, sa)), Some((client, sb))) = (new_conn(), new_conn()) else { return Err(Failure::new("harness: connections")) };
    let mut sched = Sched::new();
    sched.spawn_ticker("server-exec", server.executor().clone());
    sched.spawn_ticker("client-exec", client.executor().clone());
    let mut sch = crate::env::Sch::new(src.bytes(10));
    let (mut pa, mut pb) = (0usize, 0usize);
    let log: Log = Default::default();
    let nreg = 1 + src.below(2);
    let mut regs: Vec<usize> = vec![];
    for _ in 0..nreg {
        let i = src.below(ifs.len());
        if !regs.contains(&i) {
            regs.push(i);
        }
    }
    // the kept-proxy cases (decided below from the next draw) lean towards two interfaces that have a
    // property name in common, and towards reading and writing properties
    let lean = src.bool();
    if lean && regs.len() == 1 {
        let names: Vec<&str> = ifs[regs[0]].props.iter().map(|p| p.name).collect();
        let cands: Vec<usize> = (0..ifs.len()).filter(|i| *i != regs[0] && ifs[*i].props.iter().any(|p| names.contains(&p.name))).collect();
        if !cands.is_empty() {
            regs.push(cands[src.below(cands.len())]);
        }
    }
    for i in &regs {
        let (c, l, f) = (server.clone(), log.clone(), ifs[*i].register);
        let a = sched.spawn("register", async move {
            let _ = f(c.object_server(), "/gen".to_string(), l).await;
        });
        if sched.run(&mut || sch.next(), 400_000, &mut |s| s.done(a)) != Outcome::Goal {
            return Err(Failure::new("registering an interface does not complete"));
        }
    }
    // (the first operation may start before the object server's dispatch task first ran: calls taken
    // in by then must not be lost — C30's clause, repaired in /repo and exercised here as well)
    if src.bool() {
        let _ = sched.run(&mut || sch.next(), 400_000, &mut |_| false);
    }
    let mut models: Vec<Vec<RVal>> = regs.iter().map(|i| ifs[*i].props.iter().map(|p| (p.init)()).collect()).collect();
    // half the cases build a proxy per operation; the others keep one proxy per interface for the
    // whole case (its property cache then has to follow every change), with a generated caching mode
    let ctx = PxCtx { slots: if lean || src.bool() { Some(Default::default()) } else { None }, cache: src.weighted(&[6, 2, 1]) as u8 };
    // (register index, operation index) of every property read / write there is, those of names
    // that two registered interfaces share listed apart
    let mut prop_ops: Vec<(usize, usize)> = vec![];
    let mut shared_ops: Vec<(usize, usize)> = vec![];
    for (ri, i) in regs.iter().enumerate() {
        for (oi, (k, j)) in ifs[*i].px_ops.iter().enumerate() {
            if *k != "m" {
                prop_ops.push((ri, oi));
                let name = ifs[*i].props[*j].name;
                if regs.iter().enumerate().any(|(rj, i2)| rj != ri && ifs[*i2].props.iter().any(|p| p.name == name)) {
                    shared_ops.push((ri, oi));
                }
            }
        }
    }
    let kept = ctx.slots.is_some();
    let nops = 2 + src.below(if kept { 9 } else { 5 });
    let mut seen_sets: Vec<(usize, usize)> = vec![];
    let mut history: Vec<String> = vec![];
    let mut classes: Vec<&'static str> = vec![];
    for _ in 0..nops {
        let (ri, op) = match (lean, src.weighted(&[3, 3, 4])) {
            (true, 1) if !prop_ops.is_empty() => prop_ops[src.below(prop_ops.len())],
            (true, 2) if !shared_ops.is_empty() => shared_ops[src.below(shared_ops.len())],
            _ => {
                let ri = src.below(regs.len());
                if ifs[regs[ri]].px_ops.is_empty() {
                    continue;
                }
                (ri, src.below(ifs[regs[ri]].px_ops.len()))
            }
        };
        let e = &ifs[regs[ri]];
        let bytes = src.bytes(40);
        let out: Arc<Mutex<Option<Result<PxOut, String>>>> = Default::default();
        let (o2, c, f, cx) = (out.clone(), client.clone(), e.px, ctx.clone());
        let a = sched.spawn("proxy-op", async move {
            let r = f(&c, "/gen".to_string(), op, bytes, cx).await;
            *o2.lock().unwrap() = Some(r);
        });
        let oc = sched.run(&mut || sch.next(), 3_000_000, &mut |s| {
            pump(&sa, &mut pa, &sb);
            pump(&sb, &mut pb, &sa);
            s.done(a)
        });
        let what = format!("{}.{:?}", e.rs, e.px_ops[op]);
        history.push(what.clone());
        match oc {
            Outcome::Goal => {}
            Outcome::Budget => {
                eprintln!("INFRA: step budget exhausted in C33");
                std::process::exit(2);
            }
            Outcome::Quiescent => {
                return Err(Failure::new(format!("the proxy operation {what} never completes (everything is at rest); handler log {:?}; history {history:?}", log.lock().unwrap())));
            }
        }
        // let the rest (property cache tasks, signals in flight) come to rest before the next one
        let _ = sched.run(&mut || sch.next(), 3_000_000, &mut |_| {
            let a = pump(&sa, &mut pa, &sb);
            let b = pump(&sb, &mut pb, &sa);
            let _ = (a, b);
            false
        });
        let r = out.lock().unwrap().take();
        let out = match r {
            Some(Ok(o)) => o,
            Some(Err(e2)) => return Err(Failure::new(format!("proxy operation {what} failed: {e2}; history {history:?}"))),
            None => return Err(Failure::new("harness: no result")),
        };
        let lg = log.lock().unwrap().clone();
        match judge(e, &out, &lg, &mut models[ri]) {
            Ok(c) => {
                classes.push(c);
                if kept && ctx.cache != 2 {
                    // what the kept proxies' caches are made to follow
                    match (&out, c) {
                        (PxOut::Set { prop, .. }, "set") => {
                            seen_sets.push((ri, *prop));
                            if e.props[*prop].interior && e.props[*prop].emits != "false" {
                                classes.push("kept-proxy:set-through-&self-setter");
                            }
                            let name = e.props[*prop].name;
                            if regs.iter().enumerate().any(|(rj, i)| rj != ri && ifs[*i].props.iter().any(|p| p.name == name)) {
                                classes.push("kept-proxy:set-of-a-name-another-interface-has-too");
                            }
                        }
                        (PxOut::Get { prop, .. }, _) if seen_sets.contains(&(ri, *prop)) => classes.push("kept-proxy:get-after-set"),
                        _ => {}
                    }
                }
            }
            Err(m) => return Err(Failure::new(format!("{m}; operation {what} on {} ({}); proxies kept between operations: {kept}, caching mode {}; history {history:?}", e.name, e.rs, ctx.cache))),
        }
        log.lock().unwrap().clear();
    }
    for c in &classes {
        obs.label(c);
    }
    if kept {
        obs.label("proxies-kept-between-operations");
    }
    if classes.len() >= 2 {
        obs.nontrivial(fnv(format!("{regs:?}{history:?}{classes:?}").as_bytes()));
        obs.sample("async-proxy", || format!("interfaces {:?}: {history:?} -> {classes:?}", regs.iter().map(|i| ifs[*i].rs).collect::<Vec<_>>()));
    }
    Ok(())
}

struct Warmup;
#[zbus::interface(name = "gen.Warmup")]
impl Warmup {
    fn nop(&self) {}
}

/// blocking proxies: real threads (the library's executor threads on both connections) over a
/// socket pair; a hang shows as the client's method timeout and is reported as inconclusive
/// (proxies are built per operation here: with the library's own threads a kept proxy's cache task
/// and the caller race for the same signal, and which of them runs first is not the harness's to say)
pub fn c33_blocking_case(src: &mut Src, obs: &mut Obs) -> CaseResult {
    let ifs = ifaces();
    let (s0, s1) = std::os::unix::net::UnixStream::pair().map_err(|e| Failure::new(format!("harness: socketpair: {e}")))?;
    let guid = zbus::Guid::generate();
    let log: Log = Default::default();
    let ri = src.below(ifs.len());
    let e = &ifs[ri];
    if e.px_ops.is_empty() {
        return Ok(());
    }
    // both ends have to be built concurrently (they shake hands)
    let g2 = guid.clone();
    // (half of the cases give an interface to the builder, which starts the object server before the
    // connection takes in anything; the other half create it on demand right before the first call)
    let warm = src.bool();
    let srv = std::thread::spawn(move || zbus::blocking::connection::Builder::unix_stream(s0).server(g2).and_then(|b| if warm { b.p2p().serve_at("/warmup", Warmup) } else { Ok(b.p2p()) }).and_then(|b| b.build()));
    let client = zbus::blocking::connection::Builder::unix_stream(s1).p2p().method_timeout(std::time::Duration::from_secs(20)).build();
    let server = srv.join().map_err(|_| Failure::new("harness: server thread"))?;
    let (server, client) = match (server, client) {
        (Ok(s), Ok(c)) => (s, c),
        (a, b) => {
            eprintln!("INFRA: building the socket-pair connections failed: {:?} / {:?}", a.err(), b.err());
            std::process::exit(2);
        }
    };
    let (l2, f) = (log.clone(), e.register);
    let sc: Connection = server.inner().clone();
    zbus::block_on(async move { f(sc.object_server(), "/gen".to_string(), l2).await }).map_err(|x| Failure::new(format!("registering failed: {x}")))?;
    let mut model: Vec<RVal> = e.props.iter().map(|p| (p.init)()).collect();
    let nops = 1 + src.below(4);
    let mut history = vec![];
    let mut classes = vec![];
    for _ in 0..nops {
        let op = src.below(e.px_ops.len());
        let bytes = src.bytes(40);
        let what = format!("{}.{:?}", e.rs, e.px_ops[op]);
        history.push(what.clone());
        // (a blocking signal iterator has no timeout of its own: the operation runs on a thread the
        // harness gives up on after 30 s — inconclusive, never a violation)
        let (tx, rx) = std::sync::mpsc::channel();
        let (c2, f2) = (client.clone(), e.bpx);
        std::thread::spawn(move || {
            let _ = tx.send(f2(&c2, "/gen".to_string(), op, bytes));
        });
        let res = match rx.recv_timeout(std::time::Duration::from_secs(30)) {
            Ok(r) => r,
            Err(_) => {
                eprintln!("INFRA: blocking proxy operation {what} did not finish within 30 s (inconclusive)");
                std::process::exit(2);
            }
        };
        let out = match res {
            Ok(o) => o,
            Err(m) => {
                if m.contains("timed out") || m.contains("TimedOut") {
                    eprintln!("INFRA: blocking proxy operation {what} timed out (inconclusive)");
                    std::process::exit(2);
                }
                return Err(Failure::new(format!("blocking proxy operation {what} failed: {m}; history {history:?}")));
            }
        };
        if let PxOut::Call { result: Err(x), .. } = &out {
            if x.name.contains("timed out") {
                eprintln!("INFRA: blocking proxy call {what} timed out (inconclusive)");
                std::process::exit(2);
            }
        }
        let lg = log.lock().unwrap().clone();
        match judge(e, &out, &lg, &mut model) {
            Ok(c) => classes.push(c),
            Err(m) => return Err(Failure::new(format!("{m}; blocking operation {what} on {} ({}); history {history:?}", e.name, e.rs))),
        }
        log.lock().unwrap().clear();
    }
    for c in &classes {
        obs.label(c);
    }
    obs.label("blocking");
    if classes.len() >= 2 {
        obs.nontrivial(fnv(format!("B{ri}{history:?}{classes:?}").as_bytes()));
        obs.sample("blocking-proxy", || format!("interface {}: {history:?} -> {classes:?}", e.rs));
    }
    Ok(())
}
