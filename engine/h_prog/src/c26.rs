//! C26: method dispatch on generated interfaces. A raw peer (reference message builder, no zbus
//! code) sends bursts of calls — right ones and ones that are wrong in exactly one aspect (path,
//! interface, member, argument types), with and without the no-reply flag — and every reply,
//! emitted signal and handler invocation is predicted from the generator's own tables.

use crate::ifcheck::*;
use std::collections::HashMap;
use std::sync::OnceLock;
use vcore::refmodel::msg::{self, RMsg};
use vcore::refmodel::val::RVal;
use vcore::run::{CaseResult, Failure, Obs};
use vcore::src::{fnv, Src};

pub fn ifaces() -> &'static Vec<IfaceEntry> {
    static T: OnceLock<Vec<IfaceEntry>> = OnceLock::new();
    T.get_or_init(|| {
        let mut v = crate::generated::ifaces();
        // ... and one interface implemented by hand
        v.push(crate::manual::entry());
        v
    })
}

pub const PATHS: [&str; 5] = ["/gen", "/gen/a", "/gen/a/b", "/other", "/"];

#[derive(Debug, Clone, Copy, PartialEq, Eq)]
enum Kind {
    Valid,
    WrongPath,
    WrongIface,
    WrongMember,
    WrongArgs,
    /// the interface field is left out (legal: the server may pick the interface or refuse)
    NoIface,
}

struct Sent {
    kind: Kind,
    what: String,
    msg: RMsg,
    noreply: bool,
    iface: usize,
    method: usize,
    label: String,
    /// the path is an existing node without the interface (either UnknownObject or
    /// UnknownInterface is a fair answer)
    node_exists: bool,
}

/// a value whose type differs from `v`'s
fn other_type(v: &RVal) -> RVal {
    match v {
        RVal::S(_) => RVal::U(7),
        RVal::U(_) => RVal::S("seven".into()),
        _ => RVal::S("other".into()),
    }
}

pub fn c26_case(src: &mut Src, obs: &mut Obs) -> CaseResult {
    let ifs = ifaces();
    let sb = src.bytes(10);
    let mut sv = Server::new(sb)?;
    let nreg = 1 + src.below(3);
    let mut regs: Vec<(&str, usize)> = vec![];
    for _ in 0..nreg {
        let p = PATHS[src.below(PATHS.len())];
        let i = src.below(ifs.len());
        if regs.iter().any(|r| r.0 == p && r.1 == i) {
            continue;
        }
        if !sv.register(&ifs[i], p)? {
            return Err(Failure::new(format!("registering {} at {p} reported a duplicate", ifs[i].name)));
        }
        regs.push((p, i));
    }
    sv.settle();
    let noiface_case = src.chance(16);
    let ncalls = if noiface_case { 1 } else { 1 + src.below(5) };
    let mut sent: Vec<Sent> = vec![];
    for _ in 0..ncalls {
        let (path, ii) = regs[src.below(regs.len())];
        let e = &ifs[ii];
        let mi = src.below(e.methods.len());
        let m = &e.methods[mi];
        let spec = (m.gen_call)(src);
        // (a call without interface field is the only call of its case: whether it was delivered is
        // read from the handler log)
        let kind = if noiface_case {
            Kind::NoIface
        } else {
            match src.weighted(&[6, 1, 1, 1, 2]) {
                0 => Kind::Valid,
                1 => Kind::WrongPath,
                2 => Kind::WrongIface,
                3 => Kind::WrongMember,
                _ => Kind::WrongArgs,
            }
        };
        let noreply = src.chance(50) && kind != Kind::NoIface;
        let mut p = path.to_string();
        let mut iname = e.name.to_string();
        let mut member = m.member.to_string();
        let mut args = spec.args.clone();
        let mut what = String::new();
        let mut node_exists = false;
        let mut kind = kind;
        match kind {
            Kind::Valid => {}
            Kind::NoIface => {
                what = "no interface field".into();
            }
            Kind::WrongPath => {
                let cands: Vec<&str> = ["/gen", "/gen/a", "/gen/a/b", "/other", "/", "/nowhere", "/gen/ab", "/gen/a/b/c"].into_iter().filter(|c| !regs.iter().any(|r| r.0 == *c && r.1 == ii)).collect();
                p = cands[src.below(cands.len())].to_string();
                // a node exists there if it is registered with other interfaces or is an ancestor
                // of a registered path
                node_exists = regs.iter().any(|r| r.0 == p || p == "/" || r.0.starts_with(&format!("{p}/")));
                what = format!("path {p} instead of {path}");
            }
            Kind::WrongIface => {
                let mut cands: Vec<String> = vec!["gen.Nope".into(), format!("{}x", e.name)];
                for (k, o) in ifs.iter().enumerate() {
                    if !regs.iter().any(|r| r.0 == path && r.1 == k) {
                        cands.push(o.name.to_string());
                    }
                }
                iname = cands[src.below(cands.len())].clone();
                what = format!("interface {iname} instead of {}", e.name);
            }
            Kind::WrongMember => {
                let mut cands: Vec<String> = vec!["NoSuchMember".into(), m.member.to_lowercase(), format!("{}x", m.member)];
                for o in ifs.iter() {
                    for om in &o.methods {
                        cands.push(om.member.to_string());
                    }
                }
                // property and signal names are not methods either
                for pr in &e.props {
                    cands.push(pr.name.to_string());
                }
                for sg in &e.signals {
                    cands.push(sg.member.to_string());
                }
                let cands: Vec<String> = cands.into_iter().filter(|c| !e.methods.iter().any(|x| x.member == c)).collect();
                member = cands[src.below(cands.len())].clone();
                what = format!("member {member} instead of {}", m.member);
            }
            Kind::WrongArgs => {
                let mode = src.below(4);
                if mode == 3 && !args.is_empty() {
                    args = vec![RVal::St(args)];
                    what = "arguments wrapped into one structure".into();
                } else if mode == 0 && !args.is_empty() {
                    args.pop();
                    what = "last argument missing".into();
                } else if mode == 1 && !args.is_empty() {
                    let k = src.below(args.len());
                    args[k] = other_type(&args[k]);
                    what = format!("argument {k} of another type");
                } else {
                    args.push(RVal::U(7));
                    what = "one argument too many".into();
                }
            }
        }
        if kind == Kind::Valid {
            what = "valid".into();
        } else if kind == Kind::WrongArgs && args.iter().map(|a| a.sig().to_string()).collect::<String>() == m.in_sigs.concat() {
            kind = Kind::Valid;
        }
        let mut c = sv.peer.call(&p, if kind == Kind::NoIface { None } else { Some(&iname) }, &member, args);
        if noreply {
            c.flags |= 1;
        }
        if src.chance(40) {
            c.big = true;
        }
        sent.push(Sent { kind, what, msg: c, noreply, iface: ii, method: mi, label: spec.label, node_exists });
    }
    // the burst arrives in one chunk or call by call
    if src.bool() {
        let mut all = vec![];
        for s in &sent {
            all.extend_from_slice(&s.msg.build().bytes);
        }
        crate::sched::feed(&sv.peer.sh, all, vec![]);
    } else {
        for s in &sent {
            sv.peer.send(&s.msg);
        }
    }
    let oc = sv.settle();
    let describe = |i: usize| {
        let s = &sent[i];
        let e = &ifs[s.iface];
        format!(
            "call {} of {}: {}.{}({}) at {} [{}{}], interface {}; registered {:?}",
            i,
            sent.len(),
            s.msg.get_str(msg::F_INTERFACE).unwrap_or(""),
            s.msg.get_str(msg::F_MEMBER).unwrap_or(""),
            s.msg.body.iter().map(|v| v.show()).collect::<Vec<_>>().join(", "),
            s.msg.get_str(msg::F_PATH).unwrap_or(""),
            s.what,
            if s.noreply { ", no reply expected" } else { "" },
            e.rs,
            regs.iter().map(|r| format!("{}@{}", ifs[r.1].rs, r.0)).collect::<Vec<_>>()
        )
    };
    if oc == crate::sched::Outcome::Budget {
        eprintln!("INFRA: step budget exhausted in C26");
        std::process::exit(2);
    }
    if !sv.peer.unparsable.is_empty() {
        return Err(Failure::new(format!("the server wrote a message the reference parser rejects: {}; {}", sv.peer.unparsable[0], describe(0))));
    }
    // handler invocations: exactly the valid calls
    let log = sv.log.lock().unwrap().clone();
    let mut want_log: HashMap<String, usize> = HashMap::new();
    // (arguments sent as one structure holding them are not the declared arguments: a known finding
    // when the handler runs all the same)
    for s in &sent {
        if s.what == "arguments wrapped into one structure" && s.kind == Kind::WrongArgs && log.iter().any(|l| *l == s.label) {
            return Err(Failure::keyed("dispatch-args-in-one-struct-accepted", format!("the handler ran for a call whose body is one structure holding the arguments (signature {:?}) instead of the arguments (declared {:?}); call {}.{} [{}]", s.msg.body_signature(), ifs[s.iface].methods[s.method].in_sigs.concat(), ifs[s.iface].name, ifs[s.iface].methods[s.method].member, s.what)));
        }
    }
    for s in &sent {
        // a call without interface field counts as valid if the server chose to deliver it
        let delivered = s.kind == Kind::NoIface && log.iter().any(|l| *l == s.label);
        if s.kind == Kind::Valid || delivered {
            *want_log.entry(s.label.clone()).or_default() += 1;
            if ifs[s.iface].methods[s.method].header {
                *want_log.entry(format!("hdr|{}|{}", ifs[s.iface].methods[s.method].member, s.msg.serial)).or_default() += 1;
            }
        }
    }
    let mut got_log: HashMap<String, usize> = HashMap::new();
    for l in &log {
        *got_log.entry(l.clone()).or_default() += 1;
    }
    if want_log != got_log {
        let i = sent.iter().position(|s| s.kind != Kind::Valid || want_log.get(&s.label) != got_log.get(&s.label)).unwrap_or(0);
        return Err(Failure::new(format!("handlers ran {:?} but the calls warrant {:?}; {}", got_log, want_log, describe(i))));
    }
    let mut want_signals = 0;
    for (i, s) in sent.iter().enumerate() {
        let e = &ifs[s.iface];
        let m = &e.methods[s.method];
        let rs = sv.replies_to(s.msg.serial);
        // exactly one reply — none of any kind when the call says it expects none (the statement's
        // "(unless no reply is expected)"; routing errors included since the repair recorded in
        // known-findings.txt)
        let ok_n = if s.noreply { rs.is_empty() } else { rs.len() == 1 };
        if !ok_n {
            return Err(Failure::new(format!("{} replies instead of {}: {:?}; {}", rs.len(), if s.noreply { "none" } else { "one" }, rs.iter().map(|r| show_msg(r)).collect::<Vec<_>>(), describe(i))));
        }
        let delivered = s.kind == Kind::NoIface && log.iter().any(|l| *l == s.label);
        if s.kind == Kind::Valid || delivered {
            if let Some(f) = m.expect_signal {
                want_signals += 1;
                let want = f(&s.label);
                let sg = &e.signals[m.emits.unwrap()];
                let found = sv.peer.out.iter().any(|o| o.mtype == msg::T_SIGNAL && o.get_str(msg::F_MEMBER) == Some(sg.member) && o.get_str(msg::F_INTERFACE) == Some(e.name) && o.get_str(msg::F_PATH) == s.msg.get_str(msg::F_PATH) && o.body.len() == want.len() && o.body.iter().zip(&want).all(|(a, b)| a.eq_unordered(b)) && o.body_signature() == sg.sigs.concat());
                if !found {
                    return Err(Failure::new(format!("the handler's signal {} [{}] was not sent as declared ({}); sent: {:?}; {}", sg.member, want.iter().map(|v| v.show()).collect::<Vec<_>>().join(", "), sg.sigs.concat(), sv.peer.out.iter().filter(|o| o.mtype == msg::T_SIGNAL).map(show_msg).collect::<Vec<_>>(), describe(i))));
                }
            }
        }
        let Some(r) = rs.first() else { continue };
        match if delivered { Kind::Valid } else { s.kind } {
            Kind::Valid => match (m.expect)(&s.label) {
                Ok(body) => {
                    if r.mtype != msg::T_RETURN {
                        return Err(Failure::new(format!("answered with {} instead of the handler's result; {}", show_msg(r), describe(i))));
                    }
                    if r.body_signature() != m.body_sig {
                        return Err(Failure::new(format!("the reply has signature {:?}, the declared output types are {:?}; {}", r.body_signature(), m.body_sig, describe(i))));
                    }
                    if r.body.len() != body.len() || !r.body.iter().zip(&body).all(|(a, b)| a.eq_unordered(b)) {
                        return Err(Failure::new(format!("the reply carries [{}] but the handler returned [{}]; {}", r.body.iter().map(|v| v.show()).collect::<Vec<_>>().join(", "), body.iter().map(|v| v.show()).collect::<Vec<_>>().join(", "), describe(i))));
                    }
                }
                Err(x) => {
                    if r.mtype != msg::T_ERROR || r.get_str(msg::F_ERROR_NAME) != Some(&x.name) || (x.text.is_some() && error_text(r) != x.text) || (x.text.is_none() && !r.body.is_empty()) {
                        return Err(Failure::new(format!("answered with {} instead of the handler's error {x:?}; {}", show_msg(r), describe(i))));
                    }
                }
            },
            _ => {
                let allowed: Vec<&str> = match s.kind {
                    Kind::WrongPath if s.node_exists => vec!["org.freedesktop.DBus.Error.UnknownObject", "org.freedesktop.DBus.Error.UnknownInterface"],
                    Kind::WrongPath => vec!["org.freedesktop.DBus.Error.UnknownObject"],
                    Kind::WrongIface => vec!["org.freedesktop.DBus.Error.UnknownInterface"],
                    Kind::WrongMember => vec!["org.freedesktop.DBus.Error.UnknownMethod"],
                    Kind::NoIface => vec!["org.freedesktop.DBus.Error.UnknownObject", "org.freedesktop.DBus.Error.UnknownInterface", "org.freedesktop.DBus.Error.UnknownMethod", "org.freedesktop.DBus.Error.InvalidArgs"],
                    _ => vec!["org.freedesktop.DBus.Error.InvalidArgs"],
                };
                let name = r.get_str(msg::F_ERROR_NAME).unwrap_or("");
                if r.mtype != msg::T_ERROR || !allowed.contains(&name) {
                    let key = if s.kind == Kind::WrongArgs && r.mtype == msg::T_ERROR { format!("wrong-args-error-{name}") } else if s.kind == Kind::NoIface { "no-interface-field-nonstandard-error".to_string() } else { String::new() };
                    let text = format!("answered with {} instead of {}; {}", show_msg(r), allowed.join(" / "), describe(i));
                    return Err(if key.is_empty() { Failure::new(text) } else { Failure::keyed(key, text) });
                }
            }
        }
    }
    // nothing else was written
    let nsig = sv.peer.out.iter().filter(|o| o.mtype == msg::T_SIGNAL).count();
    if nsig != want_signals {
        return Err(Failure::new(format!("{nsig} signals were sent, the handlers emit {want_signals}; {}", describe(0))));
    }
    let serials: Vec<u32> = sent.iter().map(|s| s.msg.serial).collect();
    if let Some(stray) = sv.peer.out.iter().find(|o| (o.mtype == msg::T_RETURN || o.mtype == msg::T_ERROR) && !matches!(o.get(msg::F_REPLY_SERIAL), Some(RVal::U(x)) if serials.contains(x))) {
        return Err(Failure::new(format!("a reply to nothing was sent: {}; {}", show_msg(stray), describe(0))));
    }
    for s in &sent {
        obs.label(match s.kind {
            Kind::Valid => "valid",
            Kind::WrongPath => "wrong-path",
            Kind::WrongIface => "wrong-interface",
            Kind::WrongMember => "wrong-member",
            Kind::WrongArgs => "wrong-arguments",
            Kind::NoIface => "no-interface-field",
        });
        if s.what == "arguments wrapped into one structure" {
            obs.label("arguments-wrapped-into-one-structure");
        }
        if s.noreply {
            obs.label("no-reply-flag");
        }
    }
    if let Some(i) = sent.iter().position(|s| s.kind != Kind::Valid) {
        obs.nontrivial(fnv(sent.iter().map(|s| format!("{:?}{}{}", s.kind, s.what, s.label)).collect::<String>().as_bytes()));
        obs.sample("one-aspect-wrong", || describe(i));
    }
    Ok(())
}
