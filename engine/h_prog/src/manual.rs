//! An interface implemented by hand (the `Interface` trait is public and documented for that), next
//! to the macro-generated ones: it relies on the trait's documented defaults (`set` answers
//! `RequiresMut` for every name, tasks are spawned for methods). It takes part in C26, C27 and C28
//! through an `IfaceEntry` written by hand as well.

use crate::genval::{derived, lbl, ToR};
use crate::ifcheck::*;
use std::collections::HashMap;
use std::fmt::Write;
use vcore::refmodel::val::RVal;
use vcore::src::Src;
use zbus::message::{Header, Message};
use zbus::names::{InterfaceName, MemberName};
use zbus::object_server::{DispatchResult, Interface, SignalEmitter};
use zbus::zvariant::{OwnedValue, Value};
use zbus::{fdo, Connection, ObjectServer};

pub struct Manual {
    pub log: Log,
    pub level: u32,
    pub title: String,
}

const NAME: &str = "gen.Manual";

#[async_trait::async_trait]
impl Interface for Manual {
    fn name() -> InterfaceName<'static> {
        InterfaceName::from_static_str_unchecked(NAME)
    }

    async fn get(&self, property_name: &str, _server: &ObjectServer, _connection: &Connection, _header: Option<&Header<'_>>, _emitter: &SignalEmitter<'_>) -> Option<fdo::Result<OwnedValue>> {
        match property_name {
            "Level" => Some(Ok(OwnedValue::from(self.level))),
            "Title" => Some(OwnedValue::try_from(Value::from(self.title.clone())).map_err(|e| fdo::Error::Failed(e.to_string()))),
            _ => None,
        }
    }

    async fn get_all(&self, _object_server: &ObjectServer, _connection: &Connection, _header: Option<&Header<'_>>, _emitter: &SignalEmitter<'_>) -> fdo::Result<HashMap<String, OwnedValue>> {
        let mut m = HashMap::new();
        m.insert("Level".to_string(), OwnedValue::from(self.level));
        m.insert("Title".to_string(), OwnedValue::try_from(Value::from(self.title.clone())).map_err(|e| fdo::Error::Failed(e.to_string()))?);
        Ok(m)
    }

    // `set` is the trait's default: RequiresMut for every property name

    async fn set_mut(&mut self, property_name: &str, value: &Value<'_>, _object_server: &ObjectServer, _connection: &Connection, _header: Option<&Header<'_>>, _emitter: &SignalEmitter<'_>) -> Option<fdo::Result<()>> {
        match property_name {
            "Level" => match value {
                Value::U32(v) => {
                    self.log.lock().unwrap().push(format!("Manual.Level|set|{}", lbl(&[RVal::U(*v)])));
                    self.level = *v;
                    Some(Ok(()))
                }
                _ => Some(Err(fdo::Error::InvalidArgs("Level is a u32".into()))),
            },
            "Title" => Some(Err(fdo::Error::PropertyReadOnly("Title".into()))),
            _ => None,
        }
    }

    fn call<'call>(&'call self, _server: &'call ObjectServer, connection: &'call Connection, msg: &'call Message, name: MemberName<'call>) -> DispatchResult<'call> {
        match name.as_str() {
            "Echo" => DispatchResult::new_async(connection, msg, async move {
                let body = msg.body();
                let (a0,): (String,) = body.deserialize().map_err(|e| fdo::Error::InvalidArgs(e.to_string()))?;
                let label = format!("Manual.Echo|{}", lbl(&[a0.to_r()]));
                self.log.lock().unwrap().push(label.clone());
                fdo::Result::Ok(derived::<String>(&label))
            }),
            _ => DispatchResult::NotFound,
        }
    }

    fn call_mut<'call>(&'call mut self, _server: &'call ObjectServer, _connection: &'call Connection, _msg: &'call Message, _name: MemberName<'call>) -> DispatchResult<'call> {
        DispatchResult::NotFound
    }

    fn introspect_to_writer(&self, writer: &mut dyn Write, level: usize) {
        let i = " ".repeat(level);
        let _ = writeln!(writer, "{i}<interface name=\"{NAME}\">");
        let _ = writeln!(writer, "{i}  <method name=\"Echo\">");
        let _ = writeln!(writer, "{i}    <arg name=\"a0\" type=\"s\" direction=\"in\"/>");
        let _ = writeln!(writer, "{i}    <arg type=\"s\" direction=\"out\"/>");
        let _ = writeln!(writer, "{i}  </method>");
        let _ = writeln!(writer, "{i}  <property name=\"Level\" type=\"u\" access=\"readwrite\">");
        let _ = writeln!(writer, "{i}    <annotation name=\"org.freedesktop.DBus.Property.EmitsChangedSignal\" value=\"false\"/>");
        let _ = writeln!(writer, "{i}  </property>");
        let _ = writeln!(writer, "{i}  <property name=\"Title\" type=\"s\" access=\"read\">");
        let _ = writeln!(writer, "{i}    <annotation name=\"org.freedesktop.DBus.Property.EmitsChangedSignal\" value=\"const\"/>");
        let _ = writeln!(writer, "{i}  </property>");
        let _ = writeln!(writer, "{i}</interface>");
    }
}

fn register<'a>(os: &'a ObjectServer, path: String, log: Log) -> BoxFut<'a, zbus::Result<bool>> {
    Box::pin(async move { os.at(path, Manual { log, level: 7, title: "manual".into() }).await })
}
fn remove<'a>(os: &'a ObjectServer, path: String) -> BoxFut<'a, zbus::Result<bool>> {
    Box::pin(async move { os.remove::<Manual, _>(path).await })
}
fn px<'a>(_c: &'a Connection, _p: String, _op: usize, _b: Vec<u8>, _x: PxCtx) -> BoxFut<'a, Result<PxOut, String>> {
    Box::pin(async move { Err("the hand-written interface has no generated proxy".to_string()) })
}
fn bpx(_c: &zbus::blocking::Connection, _p: String, _op: usize, _b: Vec<u8>) -> Result<PxOut, String> {
    Err("the hand-written interface has no generated proxy".to_string())
}
fn echo_call(src: &mut Src) -> CallSpec {
    let a0 = vcore::gen::gen_string(src);
    CallSpec { label: format!("Manual.Echo|{}", lbl(&[a0.to_r()])), args: vec![a0.to_r()] }
}
fn echo_expect(label: &str) -> Result<Vec<RVal>, ExpErr> {
    Ok(vec![derived::<String>(label).to_r()])
}
fn level_init() -> RVal {
    RVal::U(7)
}
fn level_gen(src: &mut Src) -> (RVal, String) {
    let v = vcore::gen::gen_u64(src) as u32;
    (RVal::U(v), format!("Manual.Level|set|{}", lbl(&[RVal::U(v)])))
}
fn title_init() -> RVal {
    RVal::S("manual".into())
}
fn title_gen(src: &mut Src) -> (RVal, String) {
    let v = vcore::gen::gen_string(src);
    (RVal::S(v.clone()), format!("Manual.Title|set|{}", lbl(&[RVal::S(v)])))
}

pub fn entry() -> IfaceEntry {
    IfaceEntry {
        rs: "Manual",
        name: NAME,
        spawn: true,
        register,
        remove,
        px,
        bpx,
        methods: vec![MethodEntry { member: "Echo", in_sigs: &["s"], in_names: &["a0"], out_sigs: &["s"], out_names: &[], body_sig: "s", struct_ret: false, mutable: false, is_async: true, mode: 0, header: false, emits: None, gen_call: echo_call, expect: echo_expect, expect_signal: None, doc: None }],
        props: vec![
            PropEntry { name: "Level", sig: "u", read: true, write: true, emits: "false", rejects: false, interior: false, init: level_init, gen_val: level_gen, doc: None },
            PropEntry { name: "Title", sig: "s", read: true, write: false, emits: "const", rejects: false, interior: false, init: title_init, gen_val: title_gen, doc: None },
        ],
        signals: vec![],
        px_ops: vec![],
    }
}
