//! Value generation for the field / argument types the program generator uses (`Gen`), and the
//! harness's own account of what each Rust value is on the wire (`ToR`: Rust value -> reference
//! value, written from the documentation of the impls, never through the library's codec).

use std::collections::{BTreeMap, BTreeSet, HashMap, VecDeque};
use vcore::gen::*;
use vcore::refmodel::sig::RSig;
use vcore::refmodel::val::RVal;
use vcore::src::Src;
use zvariant::{OwnedObjectPath, OwnedValue, Value};

pub trait Gen: Sized {
    fn gen(src: &mut Src, fuel: &mut u32) -> Self;
}

pub trait ToR {
    fn rsig() -> RSig;
    fn to_r(&self) -> RVal;
}

macro_rules! int_impl {
    ($($t:ty => $v:ident),*) => { $(
        impl Gen for $t { fn gen(src: &mut Src, _f: &mut u32) -> Self { gen_u64(src) as $t } }
        impl ToR for $t { fn rsig() -> RSig { RSig::$v } fn to_r(&self) -> RVal { RVal::$v(*self) } }
    )* };
}
int_impl!(u8 => Y, u16 => Q, u32 => U, u64 => T, i16 => N, i32 => I, i64 => X);

impl Gen for bool {
    fn gen(src: &mut Src, _f: &mut u32) -> Self {
        src.bool()
    }
}
impl ToR for bool {
    fn rsig() -> RSig {
        RSig::B
    }
    fn to_r(&self) -> RVal {
        RVal::B(*self)
    }
}
impl Gen for f64 {
    fn gen(src: &mut Src, _f: &mut u32) -> Self {
        f64::from_bits(gen_f64(src, false))
    }
}
impl ToR for f64 {
    fn rsig() -> RSig {
        RSig::D
    }
    fn to_r(&self) -> RVal {
        RVal::D(self.to_bits())
    }
}
impl Gen for String {
    fn gen(src: &mut Src, _f: &mut u32) -> Self {
        gen_string(src)
    }
}
impl ToR for String {
    fn rsig() -> RSig {
        RSig::S
    }
    fn to_r(&self) -> RVal {
        RVal::S(self.clone())
    }
}
impl Gen for char {
    fn gen(src: &mut Src, _f: &mut u32) -> Self {
        *src.pick(&['a', 'Z', '0', ' ', 'é', '→', '日', '𝄞', '\u{7f}', '\u{1}', '\u{10ffff}'])
    }
}
impl ToR for char {
    fn rsig() -> RSig {
        RSig::S
    }
    fn to_r(&self) -> RVal {
        RVal::S(self.to_string())
    }
}
impl Gen for OwnedObjectPath {
    fn gen(src: &mut Src, _f: &mut u32) -> Self {
        OwnedObjectPath::try_from(gen_object_path(src)).expect("valid path")
    }
}
impl ToR for OwnedObjectPath {
    fn rsig() -> RSig {
        RSig::O
    }
    fn to_r(&self) -> RVal {
        RVal::O(self.as_str().to_string())
    }
}
impl Gen for OwnedValue {
    fn gen(src: &mut Src, f: &mut u32) -> Self {
        let v: Value<'static> = match src.below(5) {
            0 => Value::U32(u32::gen(src, f)),
            1 => Value::Str(String::gen(src, f).into()),
            2 => Value::Bool(src.bool()),
            3 => Value::from(vec![u8::gen(src, f), 1, 2]),
            _ => Value::from((u16::gen(src, f), String::gen(src, f))),
        };
        OwnedValue::try_from(v).expect("owned value")
    }
}
/// (only the five shapes `Gen for OwnedValue` produces)
fn value_to_r(v: &Value<'_>) -> (RSig, RVal) {
    match v {
        Value::U32(x) => (RSig::U, RVal::U(*x)),
        Value::U16(x) => (RSig::Q, RVal::Q(*x)),
        Value::U8(x) => (RSig::Y, RVal::Y(*x)),
        Value::Str(s) => (RSig::S, RVal::S(s.as_str().to_string())),
        Value::Bool(b) => (RSig::B, RVal::B(*b)),
        Value::Array(a) => {
            let items: Vec<(RSig, RVal)> = a.iter().map(value_to_r).collect();
            let es = items.first().map(|x| x.0.clone()).unwrap_or(RSig::Y);
            (RSig::A(Box::new(es.clone())), RVal::A(es, items.into_iter().map(|x| x.1).collect()))
        }
        Value::Structure(s) => {
            let items: Vec<(RSig, RVal)> = s.fields().iter().map(value_to_r).collect();
            (RSig::St(items.iter().map(|x| x.0.clone()).collect()), RVal::St(items.into_iter().map(|x| x.1).collect()))
        }
        other => panic!("harness: value shape {other:?} is not generated"),
    }
}
impl ToR for OwnedValue {
    fn rsig() -> RSig {
        RSig::V
    }
    fn to_r(&self) -> RVal {
        RVal::V(Box::new(value_to_r(self)))
    }
}
impl Gen for () {
    fn gen(_src: &mut Src, _f: &mut u32) -> Self {}
}
impl ToR for () {
    fn rsig() -> RSig {
        RSig::St(vec![])
    }
    fn to_r(&self) -> RVal {
        RVal::St(vec![])
    }
}

// ---- std types with built-in impls -------------------------------------------------------------
impl Gen for std::net::Ipv4Addr {
    fn gen(src: &mut Src, _f: &mut u32) -> Self {
        std::net::Ipv4Addr::from(src.u32())
    }
}
impl ToR for std::net::Ipv4Addr {
    fn rsig() -> RSig {
        RSig::St(vec![RSig::Y; 4])
    }
    fn to_r(&self) -> RVal {
        RVal::St(self.octets().iter().map(|b| RVal::Y(*b)).collect())
    }
}
impl Gen for std::net::IpAddr {
    fn gen(src: &mut Src, f: &mut u32) -> Self {
        if src.bool() {
            std::net::IpAddr::V4(Gen::gen(src, f))
        } else {
            let b = src.bytes(16);
            let mut a = [0u8; 16];
            a.copy_from_slice(&b);
            std::net::IpAddr::V6(std::net::Ipv6Addr::from(a))
        }
    }
}
impl ToR for std::net::IpAddr {
    fn rsig() -> RSig {
        RSig::St(vec![RSig::U, RSig::A(Box::new(RSig::Y))])
    }
    fn to_r(&self) -> RVal {
        let (i, o): (u32, Vec<u8>) = match self {
            std::net::IpAddr::V4(a) => (0, a.octets().to_vec()),
            std::net::IpAddr::V6(a) => (1, a.octets().to_vec()),
        };
        RVal::St(vec![RVal::U(i), RVal::A(RSig::Y, o.into_iter().map(RVal::Y).collect())])
    }
}
impl Gen for std::time::Duration {
    fn gen(src: &mut Src, _f: &mut u32) -> Self {
        std::time::Duration::new(gen_u64(src) >> 1, (gen_u64(src) % 1_000_000_000) as u32)
    }
}
impl ToR for std::time::Duration {
    fn rsig() -> RSig {
        RSig::St(vec![RSig::T, RSig::U])
    }
    fn to_r(&self) -> RVal {
        RVal::St(vec![RVal::T(self.as_secs()), RVal::U(self.subsec_nanos())])
    }
}
impl Gen for std::num::NonZeroU32 {
    fn gen(src: &mut Src, _f: &mut u32) -> Self {
        std::num::NonZeroU32::new((gen_u64(src) as u32).max(1)).unwrap()
    }
}
impl ToR for std::num::NonZeroU32 {
    fn rsig() -> RSig {
        RSig::U
    }
    fn to_r(&self) -> RVal {
        RVal::U(self.get())
    }
}
impl Gen for std::num::Wrapping<i32> {
    fn gen(src: &mut Src, _f: &mut u32) -> Self {
        std::num::Wrapping(gen_u64(src) as i32)
    }
}
impl ToR for std::num::Wrapping<i32> {
    fn rsig() -> RSig {
        RSig::I
    }
    fn to_r(&self) -> RVal {
        RVal::I(self.0)
    }
}

// ---- containers --------------------------------------------------------------------------------
fn len(src: &mut Src, fuel: &mut u32) -> usize {
    if *fuel == 0 {
        return 0;
    }
    // now and then a collection longer than the nesting limits are deep (32 / 64): state that leaks
    // from one element to the next only shows with that many elements
    if *fuel >= 6 && src.chance(10) {
        *fuel = 0;
        return 33 + src.below(40);
    }
    let n = src.weighted(&[4, 5, 4, 2]);
    let n = if n == 3 { 3 + src.below(3) } else { n };
    *fuel = fuel.saturating_sub(n as u32);
    n
}

impl<T: Gen> Gen for Vec<T> {
    fn gen(src: &mut Src, fuel: &mut u32) -> Self {
        let n = len(src, fuel);
        (0..n).map(|_| T::gen(src, fuel)).collect()
    }
}
impl<T: ToR> ToR for Vec<T> {
    fn rsig() -> RSig {
        RSig::A(Box::new(T::rsig()))
    }
    fn to_r(&self) -> RVal {
        RVal::A(T::rsig(), self.iter().map(|x| x.to_r()).collect())
    }
}
impl<T: Gen> Gen for VecDeque<T> {
    fn gen(src: &mut Src, fuel: &mut u32) -> Self {
        let n = len(src, fuel);
        (0..n).map(|_| T::gen(src, fuel)).collect()
    }
}
impl<T: ToR> ToR for VecDeque<T> {
    fn rsig() -> RSig {
        RSig::A(Box::new(T::rsig()))
    }
    fn to_r(&self) -> RVal {
        RVal::A(T::rsig(), self.iter().map(|x| x.to_r()).collect())
    }
}
impl<T: Gen + Ord> Gen for BTreeSet<T> {
    fn gen(src: &mut Src, fuel: &mut u32) -> Self {
        let n = len(src, fuel);
        (0..n).map(|_| T::gen(src, fuel)).collect()
    }
}
impl<T: ToR> ToR for BTreeSet<T> {
    fn rsig() -> RSig {
        RSig::A(Box::new(T::rsig()))
    }
    fn to_r(&self) -> RVal {
        RVal::A(T::rsig(), self.iter().map(|x| x.to_r()).collect())
    }
}
impl<T: Gen> Gen for Box<T> {
    fn gen(src: &mut Src, fuel: &mut u32) -> Self {
        Box::new(T::gen(src, fuel))
    }
}
impl<T: ToR> ToR for Box<T> {
    fn rsig() -> RSig {
        T::rsig()
    }
    fn to_r(&self) -> RVal {
        (**self).to_r()
    }
}
impl<T: Gen> Gen for HashMap<String, T> {
    fn gen(src: &mut Src, fuel: &mut u32) -> Self {
        let n = len(src, fuel);
        (0..n).map(|i| (format!("k{i}{}", gen_member_name(src)), T::gen(src, fuel))).collect()
    }
}
impl<T: ToR> ToR for HashMap<String, T> {
    fn rsig() -> RSig {
        RSig::Dict(Box::new(RSig::S), Box::new(T::rsig()))
    }
    fn to_r(&self) -> RVal {
        RVal::Dict(RSig::S, T::rsig(), self.iter().map(|(k, v)| (k.to_r(), v.to_r())).collect())
    }
}
impl<K: Gen + Ord, T: Gen> Gen for BTreeMap<K, T> {
    fn gen(src: &mut Src, fuel: &mut u32) -> Self {
        let n = len(src, fuel);
        (0..n).map(|_| (K::gen(src, fuel), T::gen(src, fuel))).collect()
    }
}
impl<K: ToR, T: ToR> ToR for BTreeMap<K, T> {
    fn rsig() -> RSig {
        RSig::Dict(Box::new(K::rsig()), Box::new(T::rsig()))
    }
    fn to_r(&self) -> RVal {
        RVal::Dict(K::rsig(), T::rsig(), self.iter().map(|(k, v)| (k.to_r(), v.to_r())).collect())
    }
}
macro_rules! tuple_impl {
    ($($n:ident $i:tt),+) => {
        impl<$($n: Gen),+> Gen for ($($n,)+) {
            fn gen(src: &mut Src, fuel: &mut u32) -> Self { ($($n::gen(src, fuel),)+) }
        }
        impl<$($n: ToR),+> ToR for ($($n,)+) {
            fn rsig() -> RSig { RSig::St(vec![$($n::rsig()),+]) }
            fn to_r(&self) -> RVal { RVal::St(vec![$(self.$i.to_r()),+]) }
        }
    };
}
tuple_impl!(A 0);
tuple_impl!(A 0, B 1);
tuple_impl!(A 0, B 1, C 2);
tuple_impl!(A 0, B 1, C 2, D 3);

impl<T: Gen> Gen for [T; 2] {
    fn gen(src: &mut Src, fuel: &mut u32) -> Self {
        [T::gen(src, fuel), T::gen(src, fuel)]
    }
}
impl<T: ToR> ToR for [T; 2] {
    fn rsig() -> RSig {
        RSig::St(vec![T::rsig(), T::rsig()])
    }
    fn to_r(&self) -> RVal {
        RVal::St(vec![self[0].to_r(), self[1].to_r()])
    }
}
impl<T: Gen> Gen for Option<T> {
    fn gen(src: &mut Src, fuel: &mut u32) -> Self {
        if src.bool() {
            Some(T::gen(src, fuel))
        } else {
            None
        }
    }
}

/// the arguments of a message body a value stands for: the fields of a structure, else the value
pub fn body_of<R: ToR>(r: &R) -> Vec<RVal> {
    match r.to_r() {
        RVal::St(f) => f,
        x => vec![x],
    }
}

fn canon(v: &RVal, out: &mut String) {
    match v {
        RVal::S(s) => out.push_str(&format!("{s:?}")),
        RVal::O(s) => out.push_str(&format!("o{s:?}")),
        RVal::G(s) => out.push_str(&format!("g{s:?}")),
        RVal::D(b) => out.push_str(&format!("d{b:x}")),
        RVal::V(b) => {
            out.push_str(&format!("<{}:", b.0.to_string()));
            canon(&b.1, out);
            out.push('>');
        }
        RVal::A(_, items) => {
            out.push('[');
            for i in items {
                canon(i, out);
                out.push(',');
            }
            out.push(']');
        }
        RVal::St(items) => {
            out.push('(');
            for i in items {
                canon(i, out);
                out.push(',');
            }
            out.push(')');
        }
        RVal::Dict(_, _, entries) => {
            // entry order is not part of the value (hash maps iterate in any order)
            let mut es: Vec<String> = entries
                .iter()
                .map(|(k, v)| {
                    let mut s = String::new();
                    canon(k, &mut s);
                    s.push('=');
                    canon(v, &mut s);
                    s
                })
                .collect();
            es.sort();
            out.push('{');
            out.push_str(&es.join(","));
            out.push('}');
        }
        RVal::M(_, m) => match m {
            None => out.push_str("nothing"),
            Some(x) => {
                out.push_str("just ");
                canon(x, out)
            }
        },
        other => out.push_str(&other.show()),
    }
}

/// the label of a call: a canonical rendering of the argument values (as reference values, so that
/// it does not depend on the iteration order of hash maps)
pub fn lbl(args: &[RVal]) -> String {
    let mut s = String::new();
    for a in args {
        canon(a, &mut s);
        s.push(';');
    }
    s
}

/// a deterministic value of R derived from a label (method name + Debug of the arguments)
pub fn derived<R: Gen>(label: &str) -> R {
    let h = vcore::src::fnv(label.as_bytes());
    let mut bytes = vec![];
    let mut x = h | 1;
    for _ in 0..64 {
        x ^= x << 13;
        x ^= x >> 7;
        x ^= x << 17;
        bytes.push((x >> 24) as u8);
    }
    let mut src = Src::new(&bytes);
    let mut fuel = 6;
    R::gen(&mut src, &mut fuel)
}
