//! Value generation for the field / argument types the program generator uses.

use std::collections::{BTreeMap, HashMap};
use vcore::gen::*;
use vcore::src::Src;
use zvariant::{OwnedObjectPath, OwnedValue, Value};

pub trait Gen: Sized {
    fn gen(src: &mut Src, fuel: &mut u32) -> Self;
}

macro_rules! int_gen {
    ($($t:ty),*) => { $( impl Gen for $t { fn gen(src: &mut Src, _f: &mut u32) -> Self { gen_u64(src) as $t } } )* };
}
int_gen!(u8, u16, u32, u64, i16, i32, i64);

impl Gen for bool {
    fn gen(src: &mut Src, _f: &mut u32) -> Self {
        src.bool()
    }
}
impl Gen for f64 {
    fn gen(src: &mut Src, _f: &mut u32) -> Self {
        f64::from_bits(gen_f64(src, false))
    }
}
impl Gen for String {
    fn gen(src: &mut Src, _f: &mut u32) -> Self {
        gen_string(src)
    }
}
impl Gen for OwnedObjectPath {
    fn gen(src: &mut Src, _f: &mut u32) -> Self {
        OwnedObjectPath::try_from(gen_object_path(src)).expect("valid path")
    }
}
impl Gen for OwnedValue {
    fn gen(src: &mut Src, f: &mut u32) -> Self {
        let v: Value<'static> = match src.below(5) {
            0 => Value::U32(u32::gen(src, f)),
            1 => Value::Str(String::gen(src, f).into()),
            2 => Value::Bool(src.bool()),
            3 => Value::from(vec![u8::gen(src, f), 1, 2]),
            _ => Value::from((u16::gen(src, f), String::gen(src, f))),
        };
        OwnedValue::try_from(v).expect("owned value")
    }
}
impl Gen for () {
    fn gen(_src: &mut Src, _f: &mut u32) -> Self {}
}

fn len(src: &mut Src, fuel: &mut u32) -> usize {
    if *fuel == 0 {
        return 0;
    }
    let n = src.weighted(&[4, 5, 4, 2]);
    let n = if n == 3 { 3 + src.below(3) } else { n };
    *fuel = fuel.saturating_sub(n as u32);
    n
}

impl<T: Gen> Gen for Vec<T> {
    fn gen(src: &mut Src, fuel: &mut u32) -> Self {
        let n = len(src, fuel);
        (0..n).map(|_| T::gen(src, fuel)).collect()
    }
}
impl<T: Gen> Gen for HashMap<String, T> {
    fn gen(src: &mut Src, fuel: &mut u32) -> Self {
        let n = len(src, fuel);
        (0..n).map(|i| (format!("k{i}{}", gen_member_name(src)), T::gen(src, fuel))).collect()
    }
}
impl<K: Gen + Ord, T: Gen> Gen for BTreeMap<K, T> {
    fn gen(src: &mut Src, fuel: &mut u32) -> Self {
        let n = len(src, fuel);
        (0..n).map(|_| (K::gen(src, fuel), T::gen(src, fuel))).collect()
    }
}
impl<A: Gen> Gen for (A,) {
    fn gen(src: &mut Src, fuel: &mut u32) -> Self {
        (A::gen(src, fuel),)
    }
}
impl<A: Gen, B: Gen> Gen for (A, B) {
    fn gen(src: &mut Src, fuel: &mut u32) -> Self {
        (A::gen(src, fuel), B::gen(src, fuel))
    }
}
impl<A: Gen, B: Gen, C: Gen> Gen for (A, B, C) {
    fn gen(src: &mut Src, fuel: &mut u32) -> Self {
        (A::gen(src, fuel), B::gen(src, fuel), C::gen(src, fuel))
    }
}
impl<A: Gen, B: Gen, C: Gen, D: Gen> Gen for (A, B, C, D) {
    fn gen(src: &mut Src, fuel: &mut u32) -> Self {
        (A::gen(src, fuel), B::gen(src, fuel), C::gen(src, fuel), D::gen(src, fuel))
    }
}
impl<T: Gen> Gen for [T; 2] {
    fn gen(src: &mut Src, fuel: &mut u32) -> Self {
        [T::gen(src, fuel), T::gen(src, fuel)]
    }
}
impl<T: Gen> Gen for Option<T> {
    fn gen(src: &mut Src, fuel: &mut u32) -> Self {
        if src.bool() {
            Some(T::gen(src, fuel))
        } else {
            None
        }
    }
}

/// a deterministic value of R derived from a label (method name + Debug of the arguments)
pub fn derived<R: Gen>(label: &str) -> R {
    let h = vcore::src::fnv(label.as_bytes());
    let mut bytes = vec![];
    let mut x = h;
    for _ in 0..64 {
        x ^= x << 13;
        x ^= x >> 7;
        x ^= x << 17;
        bytes.push((x >> 24) as u8);
    }
    let mut src = Src::new(&bytes);
    let mut fuel = 8;
    R::gen(&mut src, &mut fuel)
}
