//! C07: container nesting limits (32 arrays, 32 structs, 64 containers in total).

use crate::bridge::*;
use crate::c_dbus::decode_dyn;
use crate::enc::*;
use vcore::refmodel::sig::RSig;
use vcore::refmodel::val::RVal;
use vcore::refmodel::{dbus, gv};
use vcore::run::{CaseResult, Failure, Obs};
use vcore::src::{fnv, Src};
use zvariant::serialized::{Data, Format};

#[derive(Clone, Copy, PartialEq, Eq, Debug)]
pub enum K {
    A,
    S,
    V,
    D,
    M,
}

pub const GRID_AS: [usize; 8] = [0, 1, 2, 30, 31, 32, 33, 34];
pub const GRID_V: [usize; 8] = [0, 1, 2, 3, 30, 31, 32, 33];
pub const GRID_M: [usize; 3] = [0, 1, 2];
pub const ORDERS: usize = 8;

fn build(chain: &[K]) -> RVal {
    let mut v = RVal::Y(7);
    for k in chain.iter().rev() {
        v = match k {
            K::A => RVal::A(v.sig(), vec![v]),
            K::S => RVal::St(vec![v]),
            K::V => RVal::V(Box::new((v.sig(), v))),
            K::D => RVal::Dict(RSig::Y, v.sig(), vec![(RVal::Y(1), v)]),
            K::M => RVal::M(v.sig(), Some(Box::new(v))),
        };
    }
    v
}

fn chain_of(a: usize, s: usize, v: usize, m: usize, dicts: bool, order: usize, seed: u64) -> Vec<K> {
    let mut parts: Vec<Vec<K>> = vec![
        (0..a).map(|i| if dicts && i % 3 == 1 { K::D } else { K::A }).collect(),
        vec![K::S; s],
        vec![K::V; v],
        vec![K::M; m],
    ];
    match order {
        0 => parts.concat(),
        1 => {
            parts.reverse();
            parts.concat()
        }
        2 => {
            // round robin
            let mut out = vec![];
            let mut idx = [0usize; 4];
            loop {
                let mut any = false;
                for (p, part) in parts.iter().enumerate() {
                    if idx[p] < part.len() {
                        out.push(part[idx[p]]);
                        idx[p] += 1;
                        any = true;
                    }
                }
                if !any {
                    break;
                }
            }
            out
        }
        3 => {
            // variants first (each starts a fresh signature), then S, then A
            let mut out = parts[2].clone();
            out.extend(parts[1].iter());
            out.extend(parts[0].iter());
            out.extend(parts[3].iter());
            out
        }
        _ => {
            // deterministic shuffle
            let mut all = parts.concat();
            let mut x = seed ^ (order as u64).wrapping_mul(0x9E3779B97F4A7C15) ^ 0x1234_5678;
            for i in (1..all.len()).rev() {
                x ^= x << 13;
                x ^= x >> 7;
                x ^= x << 17;
                let j = (x % (i as u64 + 1)) as usize;
                all.swap(i, j);
            }
            all
        }
    }
}

/// Case bytes: [a_idx, s_idx, v_idx, m_idx, order, seed, flags]; flags bit0 decode, bit1 gvariant,
/// bit2 variant route, bit3 big endian, bit4 dicts among the arrays
pub fn case_bytes(ai: usize, si: usize, vi: usize, mi: usize, order: usize, seed: u8, flags: u8) -> Vec<u8> {
    vec![ai as u8, si as u8, vi as u8, mi as u8, order as u8, seed, flags]
}

pub fn grid_total() -> u64 {
    (GRID_AS.len() * GRID_AS.len() * GRID_V.len() * GRID_M.len() * ORDERS * 32) as u64
}

pub fn grid_case(mut i: u64) -> Vec<u8> {
    let flags = (i % 32) as u8;
    i /= 32;
    let order = (i % ORDERS as u64) as usize;
    i /= ORDERS as u64;
    let mi = (i % GRID_M.len() as u64) as usize;
    i /= GRID_M.len() as u64;
    let vi = (i % GRID_V.len() as u64) as usize;
    i /= GRID_V.len() as u64;
    let si = (i % GRID_AS.len() as u64) as usize;
    i /= GRID_AS.len() as u64;
    let ai = i as usize;
    case_bytes(ai, si, vi, mi, order, (ai * 31 + si * 7 + vi) as u8, flags)
}

fn is_depth_error(e: &zvariant::Error) -> bool {
    matches!(e, zvariant::Error::MaxDepthExceeded(_))
}

pub fn c07_case(src: &mut Src, obs: &mut Obs) -> CaseResult {
    let ai = src.u8() as usize;
    let si = src.u8() as usize;
    let vi = src.u8() as usize;
    let mi = src.u8() as usize;
    let order = src.u8() as usize % ORDERS;
    let seed = src.u8() as u64;
    let flags = src.u8();
    // random campaigns may supply arbitrary counts 0..40 through large indices
    let pick = |grid: &[usize], i: usize| if i < grid.len() { grid[i] } else { (i - grid.len()) % 41 };
    let (a, s, v) = (pick(&GRID_AS, ai), pick(&GRID_AS, si), pick(&GRID_V, vi));
    let decode = flags & 1 != 0;
    let gvf = flags & 2 != 0 && cfg!(feature = "gvariant");
    let variant_route = flags & 4 != 0;
    let big = flags & 8 != 0;
    let dicts = flags & 16 != 0;
    let m = if gvf { pick(&GRID_M, mi) } else { 0 };
    let mut chain = chain_of(a, s, v, m, dicts, order, seed);
    if chain.is_empty() {
        chain.push(K::S);
    }
    // top-level kinds with a dynamic decode seed
    if decode && !variant_route && !matches!(chain[0], K::A | K::S | K::V) {
        if let Some(p) = chain.iter().position(|k| matches!(k, K::A | K::S | K::V)) {
            chain.swap(0, p);
        } else {
            chain.insert(0, K::S);
        }
    }
    if gvf && !variant_route && chain[0] == K::V && !decode {
        // fine: inner route of a variant-typed value is the variant itself
    }
    let arrays = chain.iter().filter(|k| matches!(k, K::A | K::D)).count();
    let structs = chain.iter().filter(|k| matches!(k, K::S)).count();
    let variants = chain.iter().filter(|k| matches!(k, K::V)).count() + variant_route as usize;
    let maybes = chain.iter().filter(|k| matches!(k, K::M)).count();
    let ok = arrays <= 32 && structs <= 32 && arrays + structs + variants + maybes <= 64;
    let rv = build(&chain);
    let fmt = if gvf {
        #[cfg(feature = "gvariant")]
        {
            Format::GVariant
        }
        #[cfg(not(feature = "gvariant"))]
        {
            Format::DBus
        }
    } else {
        Format::DBus
    };
    let near = [arrays as i64 - 32, structs as i64 - 32, (arrays + structs + variants + maybes) as i64 - 64].iter().any(|d| (-1..=1).contains(d));
    let desc = || {
        let mut sh = String::new();
        for k in &chain {
            sh.push(match k {
                K::A => 'a',
                K::S => '(',
                K::V => 'v',
                K::D => '{',
                K::M => 'm',
            });
        }
        format!(
            "{} {} route={} chain={} arrays={} structs={} variants={} maybes={} total={}",
            if decode { "decode" } else { "encode" },
            if gvf { "gvariant" } else { "dbus" },
            if variant_route { "variant" } else { "inner" },
            sh,
            arrays,
            structs,
            variants,
            maybes,
            arrays + structs + variants + maybes
        )
    };
    let route = if variant_route { Route::Variant } else { Route::Inner };
    let result: Result<(), zvariant::Error> = if !decode {
        let zv = to_value(&rv).map_err(|e| Failure::new(e.0))?;
        let c = ctx(fmt, big, 0);
        match route {
            Route::Variant => zvariant::to_bytes(c, &zv).map(|_| ()),
            Route::Inner => match &zv {
                zvariant::Value::Array(x) => zvariant::to_bytes(c, x).map(|_| ()),
                zvariant::Value::Structure(x) => zvariant::to_bytes(c, x).map(|_| ()),
                zvariant::Value::Value(x) => zvariant::to_bytes(c, &**x).map(|_| ()),
                zvariant::Value::Dict(x) => zvariant::to_bytes_for_signature(c, x.signature(), x).map(|_| ()),
                #[cfg(feature = "gvariant")]
                zvariant::Value::Maybe(x) => zvariant::to_bytes_for_signature(c, x.signature(), x).map(|_| ()),
                _ => unreachable!(),
            },
        }
    } else {
        let (es, ev) = match route {
            Route::Variant => (RSig::V, RVal::V(Box::new((rv.sig(), rv.clone())))),
            Route::Inner => (rv.sig(), rv.clone()),
        };
        let bytes = if gvf { gv::serialize(&ev, big, 0, gv::Dev::default()).0 } else { dbus::marshal(&ev, big, 0).bytes };
        let data = Data::new(bytes, ctx(fmt, big, 0));
        match decode_typed(&data, &es) {
            Ok(()) => Ok(()),
            Err(e) => Err(e),
        }
    };
    obs.label(if ok { "within-limits" } else { "beyond-limits" });
    // C06 overlap: a variant whose own signature nests more than 32 arrays or 32 structs carries an
    // *invalid signature string* (C06 demands the parser rejects it, C03 lists it as a rejection
    // reason of its own). Refusing such a value with a signature error is as legitimate as a depth
    // error, so both are accepted there — and only there.
    let sig_invalid = {
        let mut bad = false;
        let mut in_variant = variant_route;
        let (mut sa, mut ss) = (0, 0);
        for k in &chain {
            match k {
                K::V => {
                    in_variant = true;
                    sa = 0;
                    ss = 0;
                }
                K::A | K::D => sa += 1,
                K::S => ss += 1,
                K::M => {}
            }
            if in_variant && (sa > 32 || ss > 32) {
                bad = true;
            }
        }
        bad
    };
    let is_sig_error = |e: &zvariant::Error| matches!(e, zvariant::Error::SignatureParse(_)) || e.to_string().contains("nvalid signature");
    match (&result, ok) {
        (Ok(()), true) => {}
        (Err(e), false) if is_depth_error(e) => {}
        (Err(e), false) if sig_invalid && is_sig_error(e) => obs.label("refused-as-invalid-signature"),
        (Ok(()), false) => return Err(Failure::new(format!("succeeds although the nesting exceeds the limits: {}", desc()))),
        (Err(e), true) => return Err(Failure::new(format!("fails ({e}) although the nesting is within the limits: {}", desc()))),
        (Err(e), false) => return Err(Failure::new(format!("fails with an error that is not a depth error ({e}): {}", desc()))),
    }
    if near {
        obs.nontrivial(fnv(desc().as_bytes()));
        obs.sample(if ok { "near-limit-ok" } else { "near-limit-fail" }, desc);
    }
    Ok(())
}

/// a value of the same type that completes at once (empty arrays, absent maybes)
fn empty_like(v: &RVal) -> RVal {
    match v {
        RVal::A(e, _) => RVal::A(e.clone(), vec![]),
        RVal::Dict(k, x, _) => RVal::Dict(k.clone(), x.clone(), vec![]),
        RVal::St(f) => RVal::St(f.iter().map(empty_like).collect()),
        RVal::V(b) => RVal::V(Box::new((b.0.clone(), empty_like(&b.1)))),
        RVal::M(c, _) => RVal::M(c.clone(), None),
        x => x.clone(),
    }
}

/// the chain with `count` completed siblings placed before the deep child at container level `at`
fn build_with_siblings(chain: &[K], at: usize, count: usize, filled: bool) -> RVal {
    let mut v = RVal::Y(7);
    for (lvl, k) in chain.iter().enumerate().rev() {
        let sib = |v: &RVal| -> RVal {
            if filled {
                v.clone()
            } else {
                empty_like(v)
            }
        };
        v = match k {
            K::A if lvl == at => {
                let mut items: Vec<RVal> = (0..count).map(|_| sib(&v)).collect();
                items.push(v.clone());
                RVal::A(v.sig(), items)
            }
            K::D if lvl == at => {
                let mut e: Vec<(RVal, RVal)> = (0..count.min(200)).map(|i| (RVal::Y(i as u8 + 2), sib(&v))).collect();
                e.push((RVal::Y(1), v.clone()));
                RVal::Dict(RSig::Y, v.sig(), e)
            }
            K::S if lvl == at => {
                // completed containers of several kinds in front of the deep field
                let mut f: Vec<RVal> = (0..count)
                    .map(|i| match i % 4 {
                        0 => RVal::A(RSig::Y, vec![RVal::Y(1), RVal::Y(2)]),
                        1 => RVal::St(vec![RVal::A(RSig::Q, vec![])]),
                        2 => RVal::V(Box::new((RSig::A(Box::new(RSig::Y)), RVal::A(RSig::Y, vec![RVal::Y(3)])))),
                        _ => RVal::Dict(RSig::Y, RSig::A(Box::new(RSig::Y)), vec![(RVal::Y(0), RVal::A(RSig::Y, vec![]))]),
                    })
                    .collect();
                f.push(v);
                RVal::St(f)
            }
            K::A => RVal::A(v.sig(), vec![v]),
            K::S => RVal::St(vec![v]),
            K::V => RVal::V(Box::new((v.sig(), v))),
            K::D => RVal::Dict(RSig::Y, v.sig(), vec![(RVal::Y(1), v)]),
            K::M => RVal::M(v.sig(), Some(Box::new(v))),
        };
    }
    v
}

/// C07 with siblings: the limits are about the depth of nesting, not about how many containers a
/// value holds side by side. Completed sibling containers in front of a deep child must neither
/// lower the count (over-deep values accepted) nor raise it (wide, shallow values refused).
pub fn c07_sibling_case(src: &mut Src, obs: &mut Obs) -> CaseResult {
    let mode = src.below(3);
    // chain: either around the array / struct / total limits, or shallow
    let (a, s, v) = match mode {
        0 => (*src.pick(&[31usize, 32, 33]), src.below(3), src.below(3)),
        1 => (src.below(3), *src.pick(&[31usize, 32, 33]), src.below(3)),
        _ => (1 + src.below(3), src.below(3), src.below(2)),
    };
    let order = src.below(ORDERS);
    let seed = src.u8() as u64;
    let flags = src.u8();
    let decode = flags & 1 != 0;
    let gvf = flags & 2 != 0 && cfg!(feature = "gvariant");
    let variant_route = flags & 4 != 0;
    let big = flags & 8 != 0;
    let dicts = flags & 16 != 0;
    let filled = flags & 32 != 0;
    let mut chain = chain_of(a, s, v, 0, dicts, order, seed);
    if !matches!(chain[0], K::A | K::S | K::V) {
        if let Some(p) = chain.iter().position(|k| matches!(k, K::A | K::S | K::V)) {
            chain.swap(0, p);
        }
    }
    let levels: Vec<usize> = chain.iter().enumerate().filter(|(_, k)| matches!(k, K::A | K::S | K::D)).map(|(i, _)| i).collect();
    if levels.is_empty() {
        return Ok(());
    }
    // siblings near the top when many (the value would otherwise grow beyond all bounds)
    let many = mode == 2 || src.chance(60);
    let count = if many { *src.pick(&[31usize, 32, 33, 40, 70]) } else { 1 + src.below(2) };
    let at = if many { levels[0] } else { levels[src.below(levels.len())] };
    let filled = filled && (chain.len() <= 6 || !many);
    let arrays = chain.iter().filter(|k| matches!(k, K::A | K::D)).count();
    let structs = chain.iter().filter(|k| matches!(k, K::S)).count();
    let variants = chain.iter().filter(|k| matches!(k, K::V)).count() + variant_route as usize;
    // the siblings in a struct nest at most (struct + variant/dict + array) below `at`
    let sib_extra_ok = {
        let above_a = chain[..=at].iter().filter(|k| matches!(k, K::A | K::D)).count();
        let above_s = chain[..=at].iter().filter(|k| matches!(k, K::S)).count();
        let above_t = at + 1 + variant_route as usize;
        !matches!(chain[at], K::S) || (above_a + 2 <= 32 && above_s + 1 <= 32 && above_t + 3 <= 64)
    };
    let ok = arrays <= 32 && structs <= 32 && arrays + structs + variants <= 64 && sib_extra_ok;
    if !sib_extra_ok && arrays <= 32 && structs <= 32 && arrays + structs + variants <= 64 {
        // (the small siblings themselves would cross a limit: not the situation examined here)
        return Ok(());
    }
    // (struct fields lengthen the signature: keep it a valid one)
    let count = if matches!(chain[at], K::S) { count.min(12) } else { count };
    let rv = build_with_siblings(&chain, at, count, filled);
    if rv.sig().to_string().len() > 250 {
        return Ok(());
    }
    let fmt = if gvf {
        #[cfg(feature = "gvariant")]
        {
            Format::GVariant
        }
        #[cfg(not(feature = "gvariant"))]
        {
            Format::DBus
        }
    } else {
        Format::DBus
    };
    let desc = || {
        let sh: String = chain
            .iter()
            .map(|k| match k {
                K::A => 'a',
                K::S => '(',
                K::V => 'v',
                K::D => '{',
                K::M => 'm',
            })
            .collect();
        format!(
            "{} {} route={} chain={sh} with {count} {} siblings before the deep child at level {at}; arrays={arrays} structs={structs} variants={variants}",
            if decode { "decode" } else { "encode" },
            if gvf { "gvariant" } else { "dbus" },
            if variant_route { "variant" } else { "inner" },
            if filled { "equal" } else { "empty" }
        )
    };
    let result: Result<(), zvariant::Error> = if !decode {
        let zv = to_value(&rv).map_err(|e| Failure::new(e.0))?;
        let c = ctx(fmt, big, 0);
        if variant_route {
            zvariant::to_bytes(c, &zv).map(|_| ())
        } else {
            match &zv {
                zvariant::Value::Array(x) => zvariant::to_bytes(c, x).map(|_| ()),
                zvariant::Value::Structure(x) => zvariant::to_bytes(c, x).map(|_| ()),
                zvariant::Value::Value(x) => zvariant::to_bytes(c, &**x).map(|_| ()),
                zvariant::Value::Dict(x) => zvariant::to_bytes_for_signature(c, x.signature(), x).map(|_| ()),
                _ => return Ok(()),
            }
        }
    } else {
        let (es, ev) = if variant_route { (RSig::V, RVal::V(Box::new((rv.sig(), rv.clone())))) } else { (rv.sig(), rv.clone()) };
        if !matches!(es, RSig::V | RSig::St(_) | RSig::A(_)) {
            return Ok(());
        }
        let bytes = if gvf { gv::serialize(&ev, big, 0, gv::Dev::default()).0 } else { dbus::marshal(&ev, big, 0).bytes };
        let data = Data::new(bytes, ctx(fmt, big, 0));
        decode_typed(&data, &es)
    };
    // (a variant whose own signature nests too deep may be refused as an invalid signature: see
    // c07_case)
    let is_sig_error = |e: &zvariant::Error| matches!(e, zvariant::Error::SignatureParse(_)) || e.to_string().contains("nvalid signature");
    match (&result, ok) {
        (Ok(()), true) => {}
        (Err(e), false) if is_depth_error(e) || is_sig_error(e) => {}
        (Ok(()), false) => return Err(Failure::new(format!("succeeds although the nesting exceeds the limits: {}", desc()))),
        (Err(e), true) => return Err(Failure::new(format!("fails ({e}) although the nesting is within the limits (siblings do not nest): {}", desc()))),
        (Err(e), false) => return Err(Failure::new(format!("fails with an error that is not a depth error ({e}): {}", desc()))),
    }
    obs.label(if many { "many-siblings" } else { "few-siblings" });
    obs.label(if ok { "siblings-within-limits" } else { "siblings-beyond-limits" });
    obs.nontrivial(fnv(desc().as_bytes()));
    obs.sample(if many { "wide" } else { "sibling-before-deep" }, desc);
    Ok(())
}

/// decode keeping zvariant's error type
fn decode_typed(data: &Data<'_, '_>, s: &RSig) -> Result<(), zvariant::Error> {
    let sig = to_sig(s);
    match s {
        RSig::V => data.deserialize::<zvariant::Value<'_>>().map(|_| ()),
        RSig::St(_) => data.deserialize_for_dynamic_signature::<_, zvariant::Structure<'_>>(&sig).map(|_| ()),
        RSig::A(_) => data.deserialize_for_dynamic_signature::<_, zvariant::Array<'_>>(&sig).map(|_| ()),
        _ => {
            let _ = decode_dyn;
            unreachable!("top-level kinds are restricted to A/S/V")
        }
    }
}
