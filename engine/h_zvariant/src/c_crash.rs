//! C04: decoding untrusted bytes never panics / over-allocates; re-encoding decoded values never
//! panics. Runs in every feature configuration (the harness is built four times).

use crate::bridge::*;
use crate::c_dbus::mutate;
use crate::enc::*;
use std::alloc::{GlobalAlloc, Layout, System};
use std::cell::Cell;
use std::collections::HashMap;
use vcore::gen::*;
use vcore::refmodel::sig::RSig;
use vcore::refmodel::val::RVal;
use vcore::refmodel::{dbus, gv};
use vcore::run::{guarded, CaseResult, Failure, Obs};
use vcore::src::{fnv, hex, Src};
use zvariant::serialized::{Data, Format};
use zvariant::{Array, OwnedValue, Structure, Value};

pub struct CountingAlloc;

thread_local! {
    static CUR: Cell<usize> = const { Cell::new(0) };
    static PEAK: Cell<usize> = const { Cell::new(0) };
    static ON: Cell<bool> = const { Cell::new(false) };
}

unsafe impl GlobalAlloc for CountingAlloc {
    unsafe fn alloc(&self, l: Layout) -> *mut u8 {
        let _ = ON.try_with(|on| {
            if on.get() {
                let _ = CUR.try_with(|c| {
                    let n = c.get() + l.size();
                    c.set(n);
                    let _ = PEAK.try_with(|p| {
                        if n > p.get() {
                            p.set(n)
                        }
                    });
                });
            }
        });
        System.alloc(l)
    }
    unsafe fn dealloc(&self, p: *mut u8, l: Layout) {
        let _ = ON.try_with(|on| {
            if on.get() {
                let _ = CUR.try_with(|c| c.set(c.get().saturating_sub(l.size())));
            }
        });
        System.dealloc(p, l)
    }
    unsafe fn realloc(&self, p: *mut u8, l: Layout, new: usize) -> *mut u8 {
        let _ = ON.try_with(|on| {
            if on.get() {
                let _ = CUR.try_with(|c| {
                    let n = c.get().saturating_sub(l.size()) + new;
                    c.set(n);
                    let _ = PEAK.try_with(|p| {
                        if n > p.get() {
                            p.set(n)
                        }
                    });
                });
            }
        });
        System.realloc(p, l, new)
    }
}

/// run `f` and return the peak of bytes allocated above the level at entry
pub fn measure<R>(f: impl FnOnce() -> R) -> (R, usize) {
    CUR.with(|c| c.set(0));
    PEAK.with(|p| p.set(0));
    ON.with(|o| o.set(true));
    let r = f();
    ON.with(|o| o.set(false));
    (r, PEAK.with(|p| p.get()))
}

fn formats() -> Vec<Format> {
    #[allow(unused_mut)]
    let mut v = vec![Format::DBus];
    #[cfg(feature = "gvariant")]
    v.push(Format::GVariant);
    v
}

/// decode targets; every Ok value is re-encoded
fn decode_all(data: &Data<'_, '_>, sig: &zvariant::Signature, target: usize) -> Result<&'static str, Failure> {
    let c = data.context();
    macro_rules! reenc {
        ($name:expr, $v:expr) => {{
            let v = $v;
            let r = guarded(|| zvariant::to_bytes(c, &v).map(|d| d.bytes().len()));
            match r {
                Err(p) => return Err(Failure { key: p.key.map(|k| format!("reencode-{k}")), msg: format!("re-encoding a decoded {} panicked: {}", $name, p.msg) }),
                Ok(_) => {}
            }
        }};
    }
    match target % 12 {
        0 => {
            if let Ok((v, _)) = data.deserialize_for_signature::<_, Value<'_>>(sig) {
                reenc!("Value", v);
                return Ok("ok:Value");
            }
        }
        1 => {
            if let Ok((v, _)) = data.deserialize_for_dynamic_signature::<_, Structure<'_>>(sig) {
                let r = guarded(|| zvariant::to_bytes(c, &v).map(|d| d.bytes().len()));
                if let Err(p) = r {
                    return Err(Failure { key: p.key.map(|k| format!("reencode-{k}")), msg: format!("re-encoding a decoded Structure panicked: {}", p.msg) });
                }
                return Ok("ok:Structure");
            }
        }
        2 => {
            if let Ok((v, _)) = data.deserialize_for_dynamic_signature::<_, Array<'_>>(sig) {
                let r = guarded(|| zvariant::to_bytes(c, &v).map(|d| d.bytes().len()));
                if let Err(p) = r {
                    return Err(Failure { key: p.key.map(|k| format!("reencode-{k}")), msg: format!("re-encoding a decoded Array panicked: {}", p.msg) });
                }
                return Ok("ok:Array");
            }
        }
        3 => {
            if let Ok((v, _)) = data.deserialize_for_signature::<_, OwnedValue>(sig) {
                reenc!("OwnedValue", v);
                return Ok("ok:OwnedValue");
            }
        }
        4 => {
            if let Ok((v, _)) = data.deserialize_for_signature::<_, String>(sig) {
                reenc!("String", v);
                return Ok("ok:String");
            }
        }
        5 => {
            if let Ok((v, _)) = data.deserialize_for_signature::<_, Vec<String>>(sig) {
                reenc!("Vec<String>", v);
                return Ok("ok:Vec<String>");
            }
        }
        6 => {
            if let Ok((v, _)) = data.deserialize_for_signature::<_, HashMap<String, Value<'_>>>(sig) {
                reenc!("HashMap<String,Value>", v);
                return Ok("ok:HashMap");
            }
        }
        7 => {
            if let Ok((v, _)) = data.deserialize_for_signature::<_, (u8, String, Vec<u32>)>(sig) {
                reenc!("(u8,String,Vec<u32>)", v);
                return Ok("ok:tuple");
            }
        }
        8 => {
            if let Ok((v, _)) = data.deserialize_for_signature::<_, Vec<(u64, Vec<u8>)>>(sig) {
                reenc!("Vec<(u64,Vec<u8>)>", v);
                return Ok("ok:vec-tuple");
            }
        }
        9 => {
            #[cfg(any(feature = "gvariant", feature = "option-as-array"))]
            if let Ok((v, _)) = data.deserialize_for_signature::<_, Option<String>>(sig) {
                let _ = v;
                return Ok("ok:Option<String>");
            }
            #[cfg(not(any(feature = "gvariant", feature = "option-as-array")))]
            if let Ok((v, _)) = data.deserialize_for_signature::<_, u32>(sig) {
                reenc!("u32", v);
                return Ok("ok:u32");
            }
        }
        10 => {
            if let Ok((v, _)) = data.deserialize_for_signature::<_, zvariant::OwnedObjectPath>(sig) {
                reenc!("ObjectPath", v);
                return Ok("ok:path");
            }
        }
        _ => {
            if let Ok((v, _)) = data.deserialize_for_signature::<_, &[u8]>(sig) {
                let _ = v;
                return Ok("ok:bytes");
            }
        }
    }
    Ok("err")
}

pub fn c04_case(src: &mut Src, obs: &mut Obs) -> CaseResult {
    let fmts = formats();
    let fmt = fmts[src.below(fmts.len())];
    let is_gv = fmt != Format::DBus;
    let big = src.bool();
    let off = src.below(16);
    let mode = src.weighted(&[10, 4, 3]);
    // "every signature": maybe types are drawn even for D-Bus when the type exists in this build
    let so = SigOpts { maybe: cfg!(feature = "gvariant") && (is_gv || src.chance(40)), fd: true, variant: true, max_depth: 5 };
    #[allow(unused_mut)]
    let (mut s0, mut v0) = gen_typed(src, &so, &ValOpts { multi_sig: true, ..ValOpts::default() });
    #[cfg(feature = "gvariant")]
    if is_gv && src.chance(32) {
        // containers around the 255/256-byte framing-offset threshold
        let (s, v) = crate::c_gv::gen_threshold_sized(src, false);
        s0 = s;
        v0 = v;
        obs.label("threshold-sized");
    }
    let mut wide = false;
    if src.chance(12) {
        // wide containers: structures with around 128 / 256 variable-sized members (their framing
        // offsets alone cross the offset-width thresholds) and arrays with that many elements
        let n = *src.pick(&[100usize, 127, 128, 129, 130, 140, 200, 250, 255]);
        let member = |src: &mut Src| match src.below(3) {
            0 => RVal::S(String::new()),
            1 => RVal::S("a".repeat(src.below(3))),
            _ => RVal::A(RSig::Y, vec![]),
        };
        if src.bool() {
            // (a signature is at most 255 bytes: up to 253 single-code members)
            v0 = RVal::St((0..n.min(253)).map(|_| member(src)).collect());
        } else {
            v0 = RVal::A(RSig::S, (0..n).map(|_| RVal::S("a".repeat(src.below(3)))).collect());
        }
        s0 = v0.sig();
        wide = true;
        obs.label("wide-container");
    }
    let as_variant = src.below(3) == 0;
    let (s, v) = if as_variant { (RSig::V, RVal::V(Box::new((s0.clone(), v0.clone())))) } else { (s0.clone(), v0.clone()) };
    // (wide containers go to the dynamic targets, which follow any signature)
    let target = if wide { src.below(4) } else { src.below(12) };
    // for wide containers also plain runs of equal bytes around the offset-width thresholds
    let mode = if wide && src.chance(110) { 3 } else { mode };
    let (bytes, what, nfds): (Vec<u8>, String, Vec<u32>) = match mode {
        0 => {
            // mutated valid encoding
            if is_gv {
                let (b, fds) = gv::serialize(&v, big, off, gv::Dev::default());
                let mut b = b;
                let n = 1 + src.below(3);
                let mut w = vec![];
                for _ in 0..n {
                    if b.is_empty() {
                        break;
                    }
                    match src.below(7) {
                        0 => {
                            let i = src.below(b.len());
                            b[i] = src.u8();
                            w.push(format!("poke {i}"));
                        }
                        6 if b.len() >= 2 => {
                            // a framing offset just past its neighbour's: an element that ends inside
                            // the padding in front of where it should start
                            let i = (b.len() - 1 - src.below(b.len().min(12))).max(1);
                            b[i] = b[i - 1].wrapping_add(src.below(5) as u8);
                            w.push(format!("offset-after-neighbour {i}"));
                        }
                        5 => {
                            // nudge a byte near the end by a little: a framing offset that now points
                            // just beside an element boundary (into padding, into the offsets)
                            let i = b.len() - 1 - src.below(b.len().min(12));
                            let d = 1 + src.below(4) as u8;
                            b[i] = if src.bool() { b[i].wrapping_add(d) } else { b[i].wrapping_sub(d) };
                            w.push(format!("nudge-tail {i}"));
                        }
                        1 => {
                            // poke near the end: framing offsets live there
                            let i = b.len() - 1 - src.below(b.len().min(6));
                            b[i] = src.u8();
                            w.push(format!("poke-tail {i}"));
                        }
                        2 => {
                            let i = src.below(b.len());
                            b.truncate(i);
                            w.push(format!("truncate {i}"));
                        }
                        3 => {
                            let i = src.below(b.len());
                            b.insert(i, src.u8());
                            w.push(format!("insert {i}"));
                        }
                        _ => {
                            let i = src.below(b.len());
                            b.remove(i);
                            w.push(format!("remove {i}"));
                        }
                    }
                }
                (b, format!("gvariant mutation [{}]", w.join(",")), fds)
            } else if s.contains(&|x| matches!(x, RSig::M(_))) || v.any(&|x| matches!(x, RVal::M(..))) {
                let n = src.below(40);
                (src.bytes(n), "random bytes (maybe type under D-Bus)".into(), vec![])
            } else {
                let enc = dbus::marshal(&v, big, off);
                let m = mutate(src, &enc);
                (m.bytes, format!("dbus mutation [{}]", m.what), enc.fds)
            }
        }
        1 => {
            let n = src.below(64);
            (src.bytes(n), "random bytes".into(), vec![0, 1])
        }
        3 => {
            let n = if src.bool() { *src.pick(&[126usize, 127, 128, 129, 254, 255, 256, 257, 258, 259, 260, 300, 511, 512, 513]) } else { 250 + src.below(270) };
            let fill = *src.pick(&[0u8, 0, 1, 0xff]);
            (vec![fill; n], format!("{n} bytes of {fill:#x}"), vec![])
        }
        _ => {
            // structure-aware garbage: plausible small lengths/offsets
            let n = src.below(48);
            let b: Vec<u8> = (0..n).map(|_| *src.pick(&[0u8, 0, 0, 1, 2, 3, 4, 8, 0xff, b'a', b'y', b'(', b')', b's', b'v', b'{', b'}', 0x80])).collect();
            (b, "structured garbage".into(), vec![0])
        }
    };
    let sig = to_sig(&s);
    let fds: Vec<std::os::fd::OwnedFd> = nfds.iter().map(|h| fd_table().fds[*h as usize % 4].try_clone().expect("dup")).collect();
    let data = Data::new_fds(bytes.clone(), ctx(fmt, big, off), fds);
    let describe = || format!("format={:?} sig={} target={} {} off={} input[{}]={} ({})", fmt, s.to_string(), target, if big { "BE" } else { "LE" }, off, bytes.len(), hex(&bytes[..bytes.len().min(120)]), what);
    let (r, peak) = measure(|| guarded(|| decode_all(&data, &sig, target)));
    let r = match r {
        Ok(r) => r,
        Err(mut p) => {
            p.msg = format!("decoding panicked: {} ; {}", p.msg, describe());
            return Err(p);
        }
    };
    let outcome = match r {
        Ok(o) => o,
        Err(mut f) => {
            f.msg = format!("{} ; {}", f.msg, describe());
            return Err(f);
        }
    };
    let bound = 1024 * (bytes.len() + s.to_string().len()) + 64 * 1024;
    if peak > bound {
        return Err(Failure::new(format!("decoding allocated {peak} bytes at peak for {} input bytes (bound {bound}); {}", bytes.len(), describe())));
    }
    obs.label(outcome);
    obs.label(if is_gv { "gvariant" } else { "dbus" });
    if bytes.len() >= 8 && s.is_container() {
        let mut k = s.to_string().into_bytes();
        k.extend_from_slice(&bytes);
        k.push(target as u8);
        k.push(is_gv as u8);
        obs.nontrivial(fnv(&k));
        obs.sample(&format!("{}-{}", if is_gv { "gv" } else { "dbus" }, outcome), describe);
    }
    Ok(())
}

/// C04, wide containers: structures with around 128 / 256 variable-sized members and arrays with
/// that many elements (their framing offsets alone cross the GVariant offset-width thresholds),
/// fed runs of equal bytes, truncated and tail-poked valid serialisations of lengths around the
/// thresholds. Same oracle as `c04_case`.
pub fn c04_wide_case(src: &mut Src, obs: &mut Obs) -> CaseResult {
    let fmts = formats();
    let fmt = fmts[fmts.len() - 1 - (src.chance(40) as usize).min(fmts.len() - 1)];
    let is_gv = fmt != Format::DBus;
    let big = src.bool();
    let off = *src.pick(&[0usize, 0, 0, 8, 1, 3, 4, 7]);
    let n = *src.pick(&[100usize, 127, 128, 129, 130, 140, 200, 250, 253]);
    let member = |src: &mut Src| match src.below(3) {
        0 => RVal::S(String::new()),
        1 => RVal::S("a".repeat(src.below(3))),
        _ => RVal::A(RSig::Y, vec![]),
    };
    let v0 = match src.below(3) {
        0 => RVal::A(RSig::S, (0..n).map(|_| RVal::S("a".repeat(src.below(3)))).collect()),
        1 => RVal::St((0..n).map(|_| RVal::S(String::new())).collect()),
        _ => RVal::St((0..n).map(|_| member(src)).collect()),
    };
    let s = v0.sig();
    let target = src.below(4);
    let (bytes, what): (Vec<u8>, String) = match src.below(3) {
        0 => {
            let len = if src.bool() { *src.pick(&[126usize, 127, 128, 129, 254, 255, 256, 257, 258, 259, 260, 261, 300, 511, 512, 513]) } else { 250 + src.below(280) };
            let fill = *src.pick(&[0u8, 0, 0, 1, 0xff]);
            (vec![fill; len], format!("{len} bytes of {fill:#x}"))
        }
        k => {
            let mut b = if is_gv { gv::serialize(&v0, big, off, gv::Dev::default()).0 } else { dbus::marshal(&v0, big, off).bytes };
            let mut w = String::from("valid serialisation");
            if k == 1 && !b.is_empty() {
                let cut = if src.bool() { src.below(b.len()) } else { b.len().saturating_sub(1 + src.below(12)) };
                b.truncate(cut);
                w = format!("valid serialisation truncated to {cut}");
            } else if !b.is_empty() {
                let i = b.len() - 1 - src.below(b.len().min(300));
                b[i] = src.u8();
                w = format!("valid serialisation with byte {i} poked");
            }
            (b, w)
        }
    };
    let sig = to_sig(&s);
    let data = Data::new_fds(bytes.clone(), ctx(fmt, big, off), Vec::<std::os::fd::OwnedFd>::new());
    let describe = || format!("format={:?} wide {} with {n} members, target={} {} off={} input[{}]={}… ({})", fmt, if matches!(v0, RVal::A(..)) { "array" } else { "structure" }, target, if big { "BE" } else { "LE" }, off, bytes.len(), hex(&bytes[..bytes.len().min(24)]), what);
    let (r, peak) = measure(|| guarded(|| decode_all(&data, &sig, target)));
    let r = match r {
        Ok(r) => r,
        Err(mut p) => {
            p.msg = format!("decoding panicked: {} ; {}", p.msg, describe());
            return Err(p);
        }
    };
    let outcome = match r {
        Ok(o) => o,
        Err(mut f) => {
            f.msg = format!("{} ; {}", f.msg, describe());
            return Err(f);
        }
    };
    let bound = 1024 * (bytes.len() + s.to_string().len()) + 64 * 1024;
    if peak > bound {
        return Err(Failure::new(format!("decoding allocated {peak} bytes at peak for {} input bytes (bound {bound}); {}", bytes.len(), describe())));
    }
    obs.label(outcome);
    obs.label(if is_gv { "wide-gvariant" } else { "wide-dbus" });
    let mut k = s.to_string().into_bytes();
    k.extend_from_slice(&bytes);
    k.push(target as u8);
    k.push(is_gv as u8);
    obs.nontrivial(fnv(&k));
    obs.sample(&format!("wide-{}-{}", if is_gv { "gv" } else { "dbus" }, outcome), describe);
    Ok(())
}

/// C04, GVariant framing offsets: small containers whose elements end at unaligned positions
/// (string keys in front of 2/4/8-aligned values, arrays of variable-sized structures, nested arrays
/// of strings), serialised by the reference serialiser, with one or two of the trailing framing
/// offsets set just beside an element boundary (into the padding in front of the next element, into
/// the offset table, past the end). Same oracle as `c04_case`.
#[cfg(feature = "gvariant")]
pub fn c04_gvframe_case(src: &mut Src, obs: &mut Obs) -> CaseResult {
    let big = src.bool();
    let off = *src.pick(&[0usize, 0, 8, 1, 4]);
    let key = |src: &mut Src| RVal::S("k".repeat(1 + src.below(4)));
    let val_of = |src: &mut Src, k: usize| match k {
        0 => RVal::U(src.u32()),
        1 => RVal::T(src.u64()),
        2 => RVal::Q(src.u16()),
        3 => RVal::V(Box::new((RSig::U, RVal::U(7)))),
        4 => RVal::St(vec![RVal::U(1), RVal::T(2)]),
        _ => RVal::St(vec![RVal::S("x".repeat(src.below(3))), RVal::U(3)]),
    };
    let n = 2 + src.below(4);
    let k = src.below(6);
    let v = match src.below(4) {
        0 | 1 => {
            let entries: Vec<(RVal, RVal)> = (0..n).map(|_| (key(src), val_of(src, k))).collect();
            // distinct keys
            let entries: Vec<(RVal, RVal)> = entries.into_iter().enumerate().map(|(i, (kk, vv))| (match kk { RVal::S(s) => RVal::S(format!("{s}{i}")), x => x }, vv)).collect();
            RVal::Dict(RSig::S, entries[0].1.sig(), entries)
        }
        2 => {
            let items: Vec<RVal> = (0..n).map(|_| RVal::St(vec![key(src), val_of(src, k)])).collect();
            RVal::A(items[0].sig(), items)
        }
        _ => {
            let items: Vec<RVal> = (0..n).map(|_| RVal::A(RSig::S, (0..src.below(3)).map(|_| key(src)).collect())).collect();
            RVal::A(RSig::A(Box::new(RSig::S)), items)
        }
    };
    let s = v.sig();
    let (mut b, _) = gv::serialize(&v, big, off, gv::Dev::default());
    if b.len() < 4 {
        return Ok(());
    }
    let mut w = vec![];
    for _ in 0..1 + src.below(2) {
        let i = (b.len() - 1 - src.below(b.len().min(n + 2))).max(1);
        let nb = match src.below(6) {
            0 => b[i - 1].wrapping_add(src.below(5) as u8),
            1 => b[i].wrapping_add(1 + src.below(4) as u8),
            2 => b[i].wrapping_sub(1 + src.below(4) as u8),
            3 => (b.len() - src.below(3).min(b.len())) as u8,
            4 => 0,
            _ => src.u8(),
        };
        w.push(format!("{i}:{:#x}->{nb:#x}", b[i]));
        b[i] = nb;
    }
    let target = *src.pick(&[0usize, 0, 3, 2, 6, 1]);
    let sig = to_sig(&s);
    let data = Data::new_fds(b.clone(), ctx(Format::GVariant, big, off), Vec::<std::os::fd::OwnedFd>::new());
    let describe = || format!("format=GVariant sig={} base={} target={} {} off={} input[{}]={} (offsets {})", s.to_string(), v.show(), target, if big { "BE" } else { "LE" }, off, b.len(), hex(&b[..b.len().min(120)]), w.join(","));
    let (r, peak) = measure(|| guarded(|| decode_all(&data, &sig, target)));
    let r = match r {
        Ok(r) => r,
        Err(mut p) => {
            p.msg = format!("decoding panicked: {} ; {}", p.msg, describe());
            return Err(p);
        }
    };
    let outcome = match r {
        Ok(o) => o,
        Err(mut f) => {
            f.msg = format!("{} ; {}", f.msg, describe());
            return Err(f);
        }
    };
    let bound = 1024 * (b.len() + s.to_string().len()) + 64 * 1024;
    if peak > bound {
        return Err(Failure::new(format!("decoding allocated {peak} bytes at peak for {} input bytes (bound {bound}); {}", b.len(), describe())));
    }
    obs.label(outcome);
    obs.label("gv-framing-offsets");
    let mut kk = s.to_string().into_bytes();
    kk.extend_from_slice(&b);
    kk.push(target as u8);
    obs.nontrivial(fnv(&kk));
    obs.sample(&format!("gv-frame-{outcome}"), describe);
    Ok(())
}
