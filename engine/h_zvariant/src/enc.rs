//! Encoding / decoding helpers shared by the zvariant checks.

use crate::bridge::*;
use std::os::fd::AsRawFd;
use vcore::refmodel::dbus;
use vcore::refmodel::sig::RSig;
use vcore::refmodel::val::RVal;
use vcore::run::Failure;
use zvariant::serialized::{Context, Data, Format};
use zvariant::{Endian, Value};

pub fn endian(big: bool) -> Endian {
    if big {
        Endian::Big
    } else {
        Endian::Little
    }
}

pub fn ctx(fmt: Format, big: bool, off: usize) -> Context {
    Context::new(fmt, endian(big), off)
}

pub struct Encoded {
    pub bytes: Vec<u8>,
    /// harness handle of each attached fd (u32::MAX if foreign)
    pub fd_handles: Vec<u32>,
    pub size_reported: usize,
    pub num_fds_reported: u32,
    pub data: Data<'static, 'static>,
}

#[derive(Clone, Copy, Debug, PartialEq, Eq)]
pub enum Route {
    /// the Value serialized as a variant (signature 'v')
    Variant,
    /// the inner Array / Dict / Structure / basic serialized under its own signature
    Inner,
}

/// Encode through zvariant. With `Route::Inner` the value is written under its own signature.
pub fn encode(fmt: Format, big: bool, off: usize, zv: &Value<'_>, route: Route) -> Result<Encoded, Failure> {
    let c = ctx(fmt, big, off);
    let (data, size) = match route {
        Route::Variant => {
            let d = zvariant::to_bytes(c, zv).map_err(|e| Failure::new(format!("to_bytes(variant) failed: {e}")))?;
            let s = zvariant::serialized_size(c, zv).map_err(|e| Failure::new(format!("serialized_size failed: {e}")))?;
            (d, s)
        }
        Route::Inner => {
            macro_rules! basic {
                ($x:expr) => {{
                    let d = zvariant::to_bytes(c, $x).map_err(|e| Failure::new(format!("to_bytes failed: {e}")))?;
                    let s = zvariant::serialized_size(c, $x).map_err(|e| Failure::new(format!("serialized_size failed: {e}")))?;
                    (d, s)
                }};
            }
            match zv {
                Value::U8(x) => basic!(x),
                Value::Bool(x) => basic!(x),
                Value::I16(x) => basic!(x),
                Value::U16(x) => basic!(x),
                Value::I32(x) => basic!(x),
                Value::U32(x) => basic!(x),
                Value::I64(x) => basic!(x),
                Value::U64(x) => basic!(x),
                Value::F64(x) => basic!(x),
                Value::Str(x) => basic!(x),
                Value::Signature(x) => basic!(x),
                Value::ObjectPath(x) => basic!(x),
                Value::Value(x) => basic!(&**x),
                Value::Fd(x) => basic!(x),
                Value::Array(x) => basic!(x),
                Value::Structure(x) => basic!(x),
                Value::Dict(x) => {
                    let d = zvariant::to_bytes_for_signature(c, x.signature(), x).map_err(|e| Failure::new(format!("to_bytes_for_signature failed: {e}")))?;
                    // no DynamicType for Dict: size through the Value wrapper is not comparable; use
                    // the byte length (the size pass is exercised on the other routes)
                    let n = d.bytes().len();
                    let nf = d_fds(&d) as u32;
                    (d, zvariant::serialized::Size::new(n, c).set_num_fds(nf))
                }
                #[cfg(feature = "gvariant")]
                Value::Maybe(x) => {
                    let d = zvariant::to_bytes_for_signature(c, x.signature(), x).map_err(|e| Failure::new(format!("to_bytes_for_signature failed: {e}")))?;
                    let n = d.bytes().len();
                    let nf = d_fds(&d) as u32;
                    (d, zvariant::serialized::Size::new(n, c).set_num_fds(nf))
                }
            }
        }
    };
    let fd_handles = data.fds().iter().map(|f| handle_of_raw(f.as_raw_fd()).unwrap_or(u32::MAX)).collect();
    Ok(Encoded { bytes: data.bytes().to_vec(), fd_handles, size_reported: size.size(), num_fds_reported: size.num_fds(), data })
}

fn d_fds(d: &Data<'_, '_>) -> usize {
    d.fds().len()
}

/// Does `v` use the same fd handle more than once?
pub fn repeated_fd(v: &RVal) -> bool {
    let mut seen = vec![];
    let mut rep = false;
    collect_fds(v, &mut seen, &mut rep);
    rep
}
fn collect_fds(v: &RVal, seen: &mut Vec<u32>, rep: &mut bool) {
    match v {
        RVal::H(h) => {
            if seen.contains(h) {
                *rep = true
            } else {
                seen.push(*h)
            }
        }
        RVal::V(b) => collect_fds(&b.1, seen, rep),
        RVal::A(_, v) | RVal::St(v) => v.iter().for_each(|x| collect_fds(x, seen, rep)),
        RVal::Dict(_, _, e) => e.iter().for_each(|(k, v)| {
            collect_fds(k, seen, rep);
            collect_fds(v, seen, rep)
        }),
        RVal::M(_, Some(x)) => collect_fds(x, seen, rep),
        _ => {}
    }
}
pub fn count_fds(v: &RVal) -> usize {
    let mut n = 0;
    let _ = v.any(&|x| {
        if matches!(x, RVal::H(_)) {
            // counting through a Cell-free trick is awkward; see below
        }
        false
    });
    fn rec(v: &RVal, n: &mut usize) {
        match v {
            RVal::H(_) => *n += 1,
            RVal::V(b) => rec(&b.1, n),
            RVal::A(_, v) | RVal::St(v) => v.iter().for_each(|x| rec(x, n)),
            RVal::Dict(_, _, e) => e.iter().for_each(|(k, v)| {
                rec(k, n);
                rec(v, n)
            }),
            RVal::M(_, Some(x)) => rec(x, n),
            _ => {}
        }
    }
    rec(v, &mut n);
    n
}

/// The C01 oracle: `bytes` (with attached fd handles) is exactly a D-Bus encoding of `expect`
/// (type `sig`) at (big, off), byte-exact modulo dict entry order.
pub fn check_dbus_bytes(sig: &RSig, expect: &RVal, bytes: &[u8], fd_handles: &[u32], big: bool, off: usize) -> Result<(), Failure> {
    let (r, _grey) = dbus::unmarshal(sig, bytes, big, off, fd_handles.len());
    let (dv, consumed) = match r {
        Ok(x) => x,
        Err(e) => {
            return Err(Failure::new(format!(
                "zvariant's bytes are not a valid D-Bus encoding of {}: {:?}; bytes={} expected(ref)={}",
                sig.to_string(),
                e,
                vcore::src::hex(bytes),
                vcore::src::hex(&dbus::marshal(expect, big, off).bytes)
            )))
        }
    };
    if consumed != bytes.len() {
        return Err(Failure::new(format!("encoding has {} trailing bytes after the value", bytes.len() - consumed)));
    }
    // value denoted (fds through the attached list)
    let denoted = dbus::map_fds(&dv, fd_handles);
    if !denoted.eq_unordered(expect) {
        return Err(Failure::new(format!("bytes denote {} but the value was {}", denoted.show(), expect.show())));
    }
    // byte-exact: re-marshal what was decoded (keeps zvariant's entry order and fd indices)
    let mut e = dbus::Enc::new(big, off);
    e.fd_literal = true;
    e.value(&dv);
    if e.bytes != bytes {
        return Err(Failure::new(format!(
            "bytes differ from the reference marshalling: zvariant={} reference={}",
            vcore::src::hex(bytes),
            vcore::src::hex(&e.bytes)
        )));
    }
    // every attached fd is referenced
    for i in 0..fd_handles.len() {
        if !dv.any(&|x| matches!(x, RVal::H(j) if *j as usize == i)) {
            return Err(Failure::new(format!("attached fd #{i} is not referenced by the encoding")));
        }
    }
    Ok(())
}

/// zvariant's `Signature` documents that it cannot tell a multi-type signature "xy" from the
/// structure "(xy)" (it prints the former with outer parentheses). Normalise 'g' values
/// accordingly before comparing decoded values.
pub fn norm_g(v: &RVal) -> RVal {
    v.map(&|x| match x {
        RVal::G(t) => match vcore::refmodel::sig::parse_str(t, false) {
            Some(seq) if seq.len() >= 2 => Some(RVal::G(format!("({t})"))),
            _ => None,
        },
        _ => None,
    })
}
