//! Static (typed) routes of C01/C02/C03/C08 and the built-in part of C09: a table of Rust types
//! with their expected signatures written by hand (never taken from zvariant).
//!
//! For each type T: T::SIGNATURE == expected; a reference-marshalled value decodes into T consuming
//! everything; encoding that T reproduces a valid, value-identical, byte-exact encoding;
//! serialized_size agrees; T -> Value -> T is the identity where the conversions exist.

use crate::bridge::*;
use crate::enc::*;
use serde::{de::DeserializeOwned, Serialize};
use std::collections::{BTreeMap, HashMap};
use vcore::gen::*;
use vcore::refmodel::sig::{self, RSig};
use vcore::refmodel::val::RVal;
use vcore::refmodel::{dbus, gv};
use vcore::run::{CaseResult, Failure, Obs};
use vcore::src::{fnv, hex, Src};
use zvariant::serialized::{Data, Format};
use zvariant::{OwnedObjectPath, OwnedValue, Type, Value};

type Fix = fn(&mut Src, RVal) -> RVal;

fn nofix(_: &mut Src, v: RVal) -> RVal {
    v
}
/// every f64 leaf exactly representable as f32
fn fix_f32(_: &mut Src, v: RVal) -> RVal {
    v.map(&|x| match x {
        RVal::D(b) => {
            let f = f64::from_bits(*b);
            let g = if f.is_nan() { 1.5f32 } else if f.is_finite() && f.abs() > f32::MAX as f64 { 2.5f32 } else { f as f32 };
            Some(RVal::D((g as f64).to_bits()))
        }
        _ => None,
    })
}
/// every i16 leaf within i8
fn fix_i8(_: &mut Src, v: RVal) -> RVal {
    v.map(&|x| match x {
        RVal::N(n) => Some(RVal::N(*n as i8 as i16)),
        _ => None,
    })
}
/// every string leaf exactly one char
fn fix_char(src: &mut Src, v: RVal) -> RVal {
    let c = *src.pick(&['a', 'é', '→', '𝄞', ' ', '\u{7f}']);
    v.map(&|x| match x {
        RVal::S(_) => Some(RVal::S(c.to_string())),
        _ => None,
    })
}
/// arrays hold at most one element (Option as array)
fn fix_opt(_: &mut Src, v: RVal) -> RVal {
    fn go(v: &RVal) -> RVal {
        match v {
            RVal::A(e, items) => RVal::A(e.clone(), items.iter().take(1).map(go).collect()),
            RVal::St(f) => RVal::St(f.iter().map(go).collect()),
            x => x.clone(),
        }
    }
    go(&v)
}
/// a collection of options: every element an array of at most one value, and now and then 33..45
/// elements, most of them None (state leaking from one None to the next shows only past the limits)
fn fix_opts_in_collection(src: &mut Src, v: RVal) -> RVal {
    fn one(v: &RVal) -> RVal {
        match v {
            RVal::A(e, items) => RVal::A(e.clone(), items.iter().take(1).cloned().collect()),
            x => x.clone(),
        }
    }
    let long = src.chance(110);
    let n = 33 + src.below(13);
    match v {
        RVal::A(e, items) => {
            let mut items: Vec<RVal> = items.iter().map(one).collect();
            if long {
                let some: Option<RVal> = items.iter().find(|i| matches!(i, RVal::A(_, x) if !x.is_empty())).cloned();
                let none = match &e {
                    RSig::A(inner) => RVal::A((**inner).clone(), vec![]),
                    _ => return RVal::A(e, items),
                };
                items = (0..n).map(|_| if src.chance(40) { some.clone().unwrap_or(none.clone()) } else { none.clone() }).collect();
            }
            RVal::A(e, items)
        }
        RVal::Dict(k, vs, entries) => {
            let mut entries: Vec<(RVal, RVal)> = entries.iter().map(|(a, b)| (a.clone(), one(b))).collect();
            if long {
                let some: Option<RVal> = entries.iter().map(|e| &e.1).find(|i| matches!(i, RVal::A(_, x) if !x.is_empty())).cloned();
                let none = match &vs {
                    RSig::A(inner) => RVal::A((**inner).clone(), vec![]),
                    _ => return RVal::Dict(k, vs, entries),
                };
                entries = (0..n).map(|i| (RVal::Y(i as u8), if src.chance(40) { some.clone().unwrap_or(none.clone()) } else { none.clone() })).collect();
            }
            RVal::Dict(k, vs, entries)
        }
        x => x,
    }
}
fn fix_nonzero(_: &mut Src, v: RVal) -> RVal {
    v.map(&|x| match x {
        RVal::U(0) => Some(RVal::U(1)),
        RVal::Y(0) => Some(RVal::Y(1)),
        RVal::X(0) => Some(RVal::X(1)),
        _ => None,
    })
}

fn run_one<T>(name: &str, expected: &str, fix: Fix, fmt: Format, src: &mut Src, obs: &mut Obs) -> CaseResult
where
    T: Type + Serialize + DeserializeOwned,
{
    let declared = T::SIGNATURE.to_string();
    if declared != expected {
        return Err(Failure::new(format!("{name}: declared signature is {declared:?}, expected {expected:?}")));
    }
    let is_gv = fmt != Format::DBus;
    let seq = sig::parse_str(expected, true).ok_or_else(|| Failure::new(format!("table bug: {expected}")))?;
    let s = seq[0].clone();
    let so = SigOpts { maybe: is_gv, fd: false, variant: true, max_depth: 4 };
    let mut fuel = 16;
    let v0 = gen_val(src, &s, &ValOpts { nfds: 4, ..ValOpts::default() }, &so, &mut fuel);
    let v = fix(src, v0);
    let big = src.bool();
    let off = src.below(16);
    let (bytes, fdh) = if is_gv {
        // GVariant: conformance of the layout is C05's business (with its known deviations); the
        // typed routes are checked for round trip and for agreement with the dynamic route, so the
        // input is zvariant's own encoding of the equivalent dynamic value
        let _ = gv::Dev::default();
        let zv = to_value(&v).map_err(|e| Failure::new(e.0))?;
        let e = encode(fmt, big, off, &zv, Route::Inner)?;
        (e.bytes, e.fd_handles)
    } else {
        let e = dbus::marshal(&v, big, off);
        (e.bytes, e.fds)
    };
    let describe = || format!("type={name} sig={expected} value={} {} off={} fmt={:?} bytes={}", v.show(), if big { "BE" } else { "LE" }, off, fmt, hex(&bytes[..bytes.len().min(100)]));
    let fds: Vec<std::os::fd::OwnedFd> = fdh.iter().map(|h| fd_table().fds[*h as usize].try_clone().expect("dup")).collect();
    let data = Data::new_fds(bytes.clone(), ctx(fmt, big, off), fds);
    let decoded: Result<(T, usize), _> = data.deserialize();
    let (t, n) = match decoded {
        Ok(x) => x,
        Err(e) => {
            if is_gv {
                // the reference bytes differ from zvariant's own layout where a known GVariant
                // deviation applies (bool width, fixed-struct padding): decode what zvariant writes
                obs.label("gv-reference-bytes-not-decodable");
                return gv_roundtrip_only::<T>(name, &v, big, off, obs);
            }
            return Err(Failure::new(format!("decoding a valid encoding into {name} failed: {e}; {}", describe())));
        }
    };
    if n != bytes.len() {
        return Err(Failure::new(format!("decoding into {name} consumed {n} of {} bytes; {}", bytes.len(), describe())));
    }
    let c = ctx(fmt, big, off);
    let enc = zvariant::to_bytes(c, &t).map_err(|e| Failure::new(format!("encoding {name} failed: {e}; {}", describe())))?;
    let size = zvariant::serialized_size(c, &t).map_err(|e| Failure::new(format!("serialized_size failed: {e}")))?;
    if size.size() != enc.bytes().len() {
        return Err(Failure::new(format!("serialized_size reports {} but {} bytes were written; {}", size.size(), enc.bytes().len(), describe())));
    }
    if !is_gv {
        use std::os::fd::AsRawFd;
        let handles: Vec<u32> = enc.fds().iter().map(|f| handle_of_raw(f.as_raw_fd()).unwrap_or(u32::MAX)).collect();
        check_dbus_bytes(&s, &v, enc.bytes(), &handles, big, off).map_err(|f| Failure { key: f.key, msg: format!("{name}: {} ; {}", f.msg, describe()) })?;
    } else {
        // maps may be re-ordered: compare through a second decode
        if enc.bytes() != &bytes[..] {
            let (_t2, n2): (T, usize) = enc.deserialize().map_err(|e| Failure::new(format!("{name}: decoding its own GVariant encoding failed: {e}; {}", describe())))?;
            if n2 != enc.bytes().len() {
                return Err(Failure::new(format!("{name}: decoding its own GVariant encoding consumed {n2} of {}; {}", enc.bytes().len(), describe())));
            }
            // value-level comparison through the dynamic route: (T,) decoded as a Structure
            let wrapped = zvariant::to_bytes(c, &(&t,)).map_err(|e| Failure::new(format!("encode of (T,) failed: {e}")))?;
            let ws = RSig::St(vec![s.clone()]);
            match crate::c_dbus::decode_dyn(&wrapped, &ws) {
                Ok((dv, _)) => {
                    if !norm_g(&dv).eq_unordered(&norm_g(&RVal::St(vec![v.clone()]))) {
                        return Err(Failure::new(format!("{name}: value changed: decoded-from-reference then re-encoded denotes {} ; {}", dv.show(), describe())));
                    }
                }
                Err(e) => return Err(Failure::new(format!("{name}: dynamic decode of the re-encoded value failed: {e}; {}", describe()))),
            }
            if !expected.contains('{') {
                return Err(Failure::new(format!("{name}: GVariant encoding of the decoded value differs from the reference bytes it was decoded from: {} ; {}", hex(enc.bytes()), describe())));
            }
        }
    }
    obs.label(name);
    if s.is_container() {
        let mut k = name.as_bytes().to_vec();
        k.extend_from_slice(&bytes);
        k.push(big as u8);
        k.push(off as u8);
        obs.nontrivial(fnv(&k));
        obs.sample(name, describe);
    }
    Ok(())
}

/// GVariant fallback: T built from zvariant's own bytes of the dynamic value must round-trip.
fn gv_roundtrip_only<T>(name: &str, v: &RVal, big: bool, off: usize, _obs: &mut Obs) -> CaseResult
where
    T: Type + Serialize + DeserializeOwned,
{
    #[cfg(feature = "gvariant")]
    {
        let zv = to_value(v).map_err(|e| Failure::new(e.0))?;
        let enc = encode(Format::GVariant, big, off, &zv, Route::Inner)?;
        let (t, n): (T, usize) = enc.data.deserialize().map_err(|e| Failure::new(format!("{name}: decoding zvariant's own GVariant bytes of {} failed: {e}", v.show())))?;
        if n != enc.bytes.len() {
            return Err(Failure::new(format!("{name}: consumed {n} of {}", enc.bytes.len())));
        }
        let again = zvariant::to_bytes(ctx(Format::GVariant, big, off), &t).map_err(|e| Failure::new(format!("encode failed: {e}")))?;
        let (_t2, n2): (T, usize) = again.deserialize().map_err(|e| Failure::new(format!("{name}: second decode failed: {e}")))?;
        if n2 != again.bytes().len() {
            return Err(Failure::new(format!("{name}: second decode consumed {n2} of {}", again.bytes().len())));
        }
    }
    let _ = (name, v, big, off);
    Ok(())
}

/// T -> Value -> T and T -> OwnedValue -> T
fn value_law<T>(name: &str, expected: &str, fix: Fix, src: &mut Src, obs: &mut Obs) -> CaseResult
where
    T: Type + Serialize + DeserializeOwned + Clone + PartialEq + std::fmt::Debug + Into<Value<'static>> + TryFrom<Value<'static>> + TryFrom<OwnedValue>,
    <T as TryFrom<Value<'static>>>::Error: std::fmt::Display,
    <T as TryFrom<OwnedValue>>::Error: std::fmt::Display,
{
    let seq = sig::parse_str(expected, false).ok_or_else(|| Failure::new("table bug"))?;
    let s = seq[0].clone();
    let so = SigOpts { maybe: false, fd: false, variant: true, max_depth: 4 };
    let mut fuel = 12;
    let v0 = gen_val(src, &s, &ValOpts { nan: false, ..ValOpts::default() }, &so, &mut fuel);
    let v = fix(src, v0);
    let e = dbus::marshal(&v, false, 0);
    let data = Data::new(e.bytes.clone(), ctx(Format::DBus, false, 0));
    let (t, _): (T, usize) = data.deserialize().map_err(|e| Failure::new(format!("{name}: decode failed: {e}")))?;
    let val: Value<'static> = t.clone().into();
    if val.value_signature().to_string() != expected {
        return Err(Failure::new(format!("{name}: Value::from(T) has signature {} but T declares {expected}", val.value_signature())));
    }
    let owned = OwnedValue::try_from(val.try_clone().map_err(|e| Failure::new(e.to_string()))?).map_err(|e| Failure::new(e.to_string()))?;
    let back = T::try_from(val).map_err(|e| Failure::new(format!("{name}: Value -> T failed: {e} for {}", v.show())))?;
    if back != t {
        return Err(Failure::new(format!("{name}: T -> Value -> T changed the value: {t:?} -> {back:?}")));
    }
    let back2 = T::try_from(owned).map_err(|e| Failure::new(format!("{name}: OwnedValue -> T failed: {e} for {}", v.show())))?;
    if back2 != t {
        return Err(Failure::new(format!("{name}: T -> OwnedValue -> T changed the value: {t:?} -> {back2:?}")));
    }
    obs.label(&format!("value-law:{name}"));
    if s.is_container() {
        obs.nontrivial(fnv(format!("vl{name}{}", v.show()).as_bytes()));
    }
    Ok(())
}

macro_rules! table {
    ($( $t:ty => $sig:expr, $fix:expr ;)*) => {
        fn table_len() -> usize { 0 $( + { let _ = $sig; 1 } )* }
        fn dispatch(i: usize, fmt: Format, src: &mut Src, obs: &mut Obs) -> CaseResult {
            let mut k = 0usize;
            $(
                if i == k { return run_one::<$t>(stringify!($t), $sig, $fix, fmt, src, obs); }
                k += 1;
            )*
            let _ = k;
            Ok(())
        }
    };
}

table! {
    u8 => "y", nofix;
    bool => "b", nofix;
    i16 => "n", nofix;
    u16 => "q", nofix;
    i32 => "i", nofix;
    u32 => "u", nofix;
    i64 => "x", nofix;
    u64 => "t", nofix;
    f64 => "d", nofix;
    i8 => "n", fix_i8;
    f32 => "d", fix_f32;
    char => "s", fix_char;
    String => "s", nofix;
    OwnedObjectPath => "o", nofix;
    zvariant::Signature => "g", nofix;
    OwnedValue => "v", nofix;
    std::num::NonZeroU32 => "u", fix_nonzero;
    (u8,) => "(y)", nofix;
    (u8, u32) => "(yu)", nofix;
    (String, u64, u8) => "(sty)", nofix;
    (u8, (u16, u8), String) => "(y(qy)s)", nofix;
    (u64, bool, i16, f64, String, u8) => "(tbndsy)", nofix;
    Vec<u8> => "ay", nofix;
    Vec<u32> => "au", nofix;
    Vec<u64> => "at", nofix;
    Vec<String> => "as", nofix;
    Vec<bool> => "ab", nofix;
    Vec<(u8, u64)> => "a(yt)", nofix;
    Vec<Vec<u16>> => "aaq", nofix;
    Vec<Vec<(String, f64)>> => "aa(sd)", nofix;
    HashMap<String, u32> => "a{su}", nofix;
    BTreeMap<u8, String> => "a{ys}", nofix;
    HashMap<String, OwnedValue> => "a{sv}", nofix;
    HashMap<u64, Vec<String>> => "a{tas}", nofix;
    BTreeMap<String, BTreeMap<String, u8>> => "a{sa{sy}}", nofix;
    (Vec<u8>, HashMap<String, String>) => "(aya{ss})", nofix;
    [u16; 3] => "(qqq)", nofix;
    [(u8, u32); 2] => "((yu)(yu))", nofix;
    Vec<OwnedValue> => "av", nofix;
    (OwnedValue, u8) => "(vy)", nofix;
    Vec<OwnedObjectPath> => "ao", nofix;
    (u8, Vec<(u8, Vec<(u8, String)>)>) => "(ya(ya(ys)))", nofix;
    std::time::Duration => "(tu)", fix_duration;
    std::time::SystemTime => "(tu)", fix_duration;
    std::net::Ipv4Addr => "(yyyy)", nofix;
    std::net::Ipv6Addr => "(yyyyyyyyyyyyyyyy)", nofix;
    std::net::IpAddr => "(uay)", fix_ipaddr;
    std::net::SocketAddrV4 => "((yyyy)q)", nofix;
    Vec<std::net::IpAddr> => "a(uay)", fix_ipaddr_long;
    Vec<std::net::Ipv4Addr> => "a(yyyy)", fix_long;
    Vec<(u8, String)> => "a(ys)", fix_long;
    Vec<Vec<u32>> => "aau", fix_long;
    HashMap<u32, (u8, u8)> => "a{u(yy)}", fix_long;
    std::collections::VecDeque<u32> => "au", nofix;
    std::collections::BTreeSet<u16> => "aq", fix_set;
    Box<(u8, String)> => "(ys)", nofix;
    std::num::Wrapping<u16> => "q", nofix;
    std::borrow::Cow<'static, str> => "s", nofix;
    std::cell::RefCell<(u8, u32)> => "(yu)", nofix;
    std::sync::Mutex<Vec<String>> => "as", nofix;
    (u32, zvariant::OwnedFd) => "(uh)", nofix;
    Vec<zvariant::OwnedFd> => "ah", nofix;
}

/// now and then a top-level array / dict of 33..45 entries (state leaking from one element to the
/// next shows only past the nesting limits)
fn fix_long(src: &mut Src, v: RVal) -> RVal {
    if !src.chance(40) {
        return v;
    }
    let n = 33 + src.below(13);
    match v {
        RVal::A(e, items) if !items.is_empty() => {
            let out: Vec<RVal> = (0..n).map(|i| items[i % items.len()].clone()).collect();
            RVal::A(e, out)
        }
        RVal::Dict(k, vs, entries) if !entries.is_empty() => {
            let out: Vec<(RVal, RVal)> = (0..n).map(|i| (RVal::U(i as u32 * 7 + 1), entries[i % entries.len()].1.clone())).collect();
            RVal::Dict(k, vs, out)
        }
        x => x,
    }
}
fn ip_of(src: &mut Src) -> RVal {
    let v6 = src.bool();
    let n = if v6 { 16 } else { 4 };
    RVal::St(vec![RVal::U(v6 as u32), RVal::A(RSig::Y, (0..n).map(|_| RVal::Y(src.u8())).collect())])
}
fn fix_ipaddr(src: &mut Src, _v: RVal) -> RVal {
    ip_of(src)
}
fn fix_ipaddr_long(src: &mut Src, _v: RVal) -> RVal {
    let n = if src.chance(60) { 33 + src.below(10) } else { src.below(4) };
    RVal::A(RSig::St(vec![RSig::U, RSig::A(Box::new(RSig::Y))]), (0..n).map(|_| ip_of(src)).collect())
}
/// sets are written in order without repetition
fn fix_set(_: &mut Src, v: RVal) -> RVal {
    match v {
        RVal::A(e, items) => {
            let mut xs: Vec<u16> = items.iter().filter_map(|x| if let RVal::Q(q) = x { Some(*q) } else { None }).collect();
            xs.sort();
            xs.dedup();
            RVal::A(e, xs.into_iter().map(RVal::Q).collect())
        }
        x => x,
    }
}

fn fix_duration(_: &mut Src, v: RVal) -> RVal {
    match v {
        RVal::St(f) => match (&f[0], &f[1]) {
            (RVal::T(s), RVal::U(n)) => RVal::St(vec![RVal::T(*s >> 1), RVal::U(n % 1_000_000_000)]),
            _ => RVal::St(f),
        },
        x => x,
    }
}

#[cfg(feature = "option-as-array")]
mod opt {
    use super::*;
    table! {
        Option<u32> => "au", fix_opt;
        Option<String> => "as", fix_opt;
        Vec<Option<u8>> => "aay", fix_opts_in_collection;
        Vec<Option<String>> => "aas", fix_opts_in_collection;
        std::collections::HashMap<u8, Option<u32>> => "a{yau}", fix_opts_in_collection;
        (Option<u64>, u8) => "(aty)", fix_opt;
        Option<(u8, String)> => "a(ys)", fix_opt;
        Option<Vec<u8>> => "aay", fix_opt;
    }
    pub fn len() -> usize {
        table_len()
    }
    pub fn go(i: usize, fmt: Format, src: &mut Src, obs: &mut Obs) -> CaseResult {
        dispatch(i, fmt, src, obs)
    }
}

#[cfg(all(feature = "gvariant", not(feature = "option-as-array")))]
mod maybe {
    use super::*;
    table! {
        Option<u32> => "mu", nofix;
        Option<String> => "ms", nofix;
        Vec<Option<u8>> => "amy", nofix;
        (Option<u64>, u8) => "(mty)", nofix;
        Option<(u8, String)> => "m(ys)", nofix;
        Option<Option<String>> => "mms", nofix;
    }
    pub fn len() -> usize {
        table_len()
    }
    pub fn go(i: usize, fmt: Format, src: &mut Src, obs: &mut Obs) -> CaseResult {
        dispatch(i, fmt, src, obs)
    }
}

pub fn static_case(src: &mut Src, obs: &mut Obs) -> CaseResult {
    #[allow(unused_mut)]
    let mut fmts = vec![Format::DBus];
    #[cfg(feature = "gvariant")]
    fmts.push(Format::GVariant);
    let fmt = fmts[src.below(fmts.len())];
    let n = table_len();
    #[cfg(feature = "option-as-array")]
    {
        let m = opt::len();
        let i = src.below(n + m);
        if i >= n {
            return opt::go(i - n, fmt, src, obs);
        }
        return dispatch(i, fmt, src, obs);
    }
    #[cfg(all(feature = "gvariant", not(feature = "option-as-array")))]
    {
        let m = maybe::len();
        let i = src.below(n + m);
        if i >= n {
            // Option<T> is a maybe: GVariant only
            return maybe::go(i - n, Format::GVariant, src, obs);
        }
        return dispatch(i, fmt, src, obs);
    }
    #[allow(unreachable_code)]
    {
        let i = src.below(n);
        dispatch(i, fmt, src, obs)
    }
}

pub fn value_law_case(src: &mut Src, obs: &mut Obs) -> CaseResult {
    macro_rules! vl {
        ($( $t:ty => $sig:expr, $fix:expr ;)*) => {{
            let n = 0usize $( + { let _ = $sig; 1 } )*;
            let i = src.below(n);
            let mut k = 0usize;
            $(
                if i == k { return value_law::<$t>(stringify!($t), $sig, $fix, src, obs); }
                k += 1;
            )*
            let _ = k;
            Ok(())
        }};
    }
    vl! {
        u8 => "y", nofix;
        bool => "b", nofix;
        i16 => "n", nofix;
        u16 => "q", nofix;
        i32 => "i", nofix;
        u32 => "u", nofix;
        i64 => "x", nofix;
        u64 => "t", nofix;
        f64 => "d", nofix;
        String => "s", nofix;
        OwnedObjectPath => "o", nofix;
        (u8, u32) => "(yu)", nofix;
        (String, u64, u8) => "(sty)", nofix;
        Vec<u32> => "au", nofix;
        Vec<String> => "as", nofix;
        Vec<Vec<u16>> => "aaq", nofix;
        HashMap<String, u32> => "a{su}", nofix;
        HashMap<u64, Vec<String>> => "a{tas}", nofix;
        Vec<(u8, u64)> => "a(yt)", nofix;
        (u8, (u16, u8), String) => "(y(qy)s)", nofix;
    }
}
