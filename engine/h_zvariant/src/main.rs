mod bridge;
mod c_dbus;
#[cfg(feature = "gvariant")]
mod c_gv;
mod c_depth;
mod c_crash;
mod c_sig;
mod c_static;
mod c_value;
mod enc;

#[global_allocator]
static ALLOC: c_crash::CountingAlloc = c_crash::CountingAlloc;

use vcore::run::{CaseFn, CaseResult, Obs, Run};
use vcore::src::Src;
use zvariant::serialized::Format;

pub struct Spec {
    pub name: &'static str,
    pub f: Box<dyn Fn(&mut Src, &mut Obs) -> CaseResult + Sync>,
    pub quick: u64,
    pub thorough: u64,
    pub max_len: usize,
    /// run by a custom driver (enumeration) instead of a random campaign
    pub custom: bool,
}

fn spec(name: &'static str, quick: u64, thorough: u64, max_len: usize, f: impl Fn(&mut Src, &mut Obs) -> CaseResult + Sync + 'static) -> Spec {
    Spec { name, f: Box::new(f), quick, thorough, max_len, custom: false }
}
fn custom(name: &'static str, f: impl Fn(&mut Src, &mut Obs) -> CaseResult + Sync + 'static) -> Spec {
    Spec { name, f: Box::new(f), quick: 0, thorough: 0, max_len: 0, custom: true }
}

fn main() {
    let args: Vec<String> = std::env::args().collect();
    if args.len() < 2 {
        eprintln!("usage: h_zvariant <ID> [--tier quick|thorough] [--replay FILE]");
        std::process::exit(2);
    }
    let id = args[1].as_str();
    let mut tier = vcore::run::env_tier();
    let mut replay: Option<String> = None;
    let mut i = 2;
    while i < args.len() {
        match args[i].as_str() {
            "--tier" => {
                tier = args[i + 1].clone();
                i += 1
            }
            "--replay" => {
                replay = Some(args[i + 1].clone());
                i += 1
            }
            _ => {}
        }
        i += 1;
    }
    // make sure the fd table exists before any thread starts
    let _ = bridge::fd_table();
    let mut run = Run::new(id, &tier);
    let specs: Vec<Spec> = match id {
        "C01" => {
            run.rule = "generated (signature, value, endian, offset 0..15, route) from a byte string; zvariant's bytes are strictly decoded by the reference unmarshaller, compared as values (dict entries as multiset) and re-marshalled byte-exactly; non-trivial = signature contains a container or string-like type and the encoding is longer than 8 bytes; distinct by hash(signature, bytes, endian, offset)".into();
            vec![spec("dyn", 400_000, 20_000_000, 160, c_dbus::c01_dyn), spec("static", 200_000, 10_000_000, 120, c_static::static_case)]
        }
        "C02" => {
            run.rule = "generated (signature, value, endian, offset, route); decode(encode(v)) compared with v under the reference value AST (bitwise f64, dict as multiset) and consumed == encoded length; non-trivial = container nesting >= 2, or an empty array of a container type, or offset % 8 != 0; distinct by hash(signature, bytes, endian, offset)".into();
            let mut v = vec![spec("dyn-dbus", 300_000, 10_000_000, 160, c_dbus::c02_dyn(Format::DBus)), spec("threshold-dbus", 20_000, 500_000, 24, c_dbus::c02_threshold(Format::DBus))];
            #[cfg(feature = "gvariant")]
            v.push(spec("dyn-gvariant", 300_000, 10_000_000, 160, c_dbus::c02_dyn(Format::GVariant)));
            #[cfg(feature = "gvariant")]
            v.push(spec("threshold-gvariant", 40_000, 1_000_000, 24, c_dbus::c02_threshold(Format::GVariant)));
            v.push(spec("static", 200_000, 10_000_000, 120, c_static::static_case));
            v
        }
        "C03" => {
            run.rule = "reference-marshalled valid encodings, role-aware single and double mutations (padding, bool, terminator, lengths, truncation, UTF-8, NUL, path/signature text, signature length, fd index, pokes, insert/delete, trailing bytes) and random bytes; zvariant Ok <=> reference Accept, equal value and consumed length; non-trivial = mutated encoding rejected by the reference, or an accepted container; distinct by hash(signature, bytes)".into();
            vec![spec("mut", 500_000, 20_000_000, 200, c_dbus::c03_case)]
        }
        #[cfg(feature = "gvariant")]
        "C05" => {
            run.rule = "generated GVariant (signature incl. maybe, value, endian, offset, route) plus containers aimed at the 255/256 and 65535/65536 framing-offset thresholds (array, struct, dict entry, nested); zvariant's bytes compared byte-for-byte with the reference normal-form serialiser; non-trivial = a variable-size child inside a container (framing offsets present) or a maybe; distinct by hash(signature, bytes, endian, offset)".into();
            vec![spec("gv", 60_000, 2_000_000, 200, c_gv::c05_case)]
        }
        "C06" => {
            run.rule = "exhaustive: every string over the 21-symbol alphabet {all type codes, brackets, m, invalid z} up to length 5 (quick) / 6 (thorough) and over the 10-symbol container alphabet {y s v a ( ) { } m z} up to length 7 / 8, plus generated limit strings (length 250..260, array/struct/dict depth 29..35, every kind of dict key); oracle = independent recogniser of the D-Bus type grammar; non-trivial = accepted string containing a container code, or rejected for a semantic reason (key kind, empty struct, dict placement/arity, length, depth); enumerated strings are pairwise distinct by construction".into();
            run.exhaustive = Some(true);
            vec![custom("sig", c_sig::c06_one)]
        }
        "C07" => {
            run.rule = "container chains over {array, dict, struct, variant, maybe} around a byte leaf with (arrays, structs, variants, maybes) counts from the boundary grid {0,1,2,30..34} x {0,1,2,30..34} x {0..3,30..33} x {0,1,2}, 8 orders (sorted, reversed, round-robin, variants-first, 4 shuffles), encode (nested Values) and decode (bytes from the reference marshaller/serialiser), both formats, both routes, both endians — the whole grid is enumerated; plus random counts 0..40; oracle = counting model (<=32 arrays, <=32 structs, <=64 total) and the error must be MaxDepthExceeded; non-trivial = some count within +-1 of its limit; distinct by hash of the chain description".into();
            run.exhaustive = Some(true);
            run.rule.push_str("; plus sibling shapes: a chain around a limit (or a shallow one) with 1-2 or 31-70 completed sibling containers (empty or equal arrays / dict entries, or small arrays, structs, variants and dicts as struct fields) placed before the deep child at a generated level — depth is the longest root-to-leaf path, siblings must neither lower nor raise the count");
            vec![spec("depth", 20_000, 400_000, 7, c_depth::c07_case), spec("siblings", 30_000, 600_000, 12, c_depth::c07_sibling_case)]
        }
        "C04" => {
            run.rule = "per feature configuration ({}, gvariant, option-as-array, both — one harness build each): generated signature (maybe types also under D-Bus when the build has them) x {role-aware mutation of a valid reference encoding (D-Bus) / pokes, tail pokes, truncation, insert, delete on a reference GVariant serialisation, random bytes, structured garbage} x 12 decode targets (Value, Structure, Array, OwnedValue, String, Vec<String>, HashMap<String,Value>, tuples, Option, ObjectPath, &[u8]); oracle: no panic (catch_unwind), peak allocation during decode <= 1024*(input+signature length)+64 KiB (counting global allocator), every decoded value re-encodes without panic; non-trivial = container signature and >= 8 input bytes; distinct by hash(signature, bytes, target, format)".into();
            run.rule.push_str("; plus wide containers: structures with 100..253 variable-sized members and arrays with that many elements, fed runs of equal bytes of lengths around 128 / 256 / 512, and truncated / tail-poked valid serialisations");
            let v = vec![spec("crash", 300_000, 20_000_000, 220, c_crash::c04_case), spec("wide", 40_000, 2_000_000, 24, c_crash::c04_wide_case)];
            #[cfg(feature = "gvariant")]
            let v = {
                let mut v = v;
                run.rule.push_str("; plus GVariant framing offsets: small dicts with string keys / arrays of variable-sized structures / nested string arrays from the reference serialiser with one or two trailing framing offsets set just beside an element boundary");
                v.push(spec("gv-frame", 120_000, 4_000_000, 40, c_crash::c04_gvframe_case));
                v
            };
            v
        }
        "C08" => {
            run.rule = "triples (a, b, c) of dynamic values of one generated type (incl. NaN, +-0, fds, maybe): b and c are copies, one-leaf near misses or fresh values; checked: reflexive/symmetric/transitive ==, cmp antisymmetric/transitive/consistent with == and partial_cmp, equal => equal hash, try_clone / try_to_owned twins keep value, equality, hash and signature, value_signature() == the type it was built with == the signature carried by its encoded variant; non-trivial = nesting depth >= 2 and the type contains a double or a dict; distinct by hash(type, a, b, c)".into();
            {
                run.rule.push_str("; plus construction routes: a vector (of bytes, integers, strings, tuples, vectors, dynamic values incl. a value holding a value) handed to Array::from by value, as a slice and by reference and to Value::new must give equal values with the element signature, equal hash, the predicted content and the reference bytes");
                vec![spec("laws", 200_000, 5_000_000, 200, c_value::c08_case), spec("t-value-t", 100_000, 3_000_000, 120, c_static::value_law_case), spec("routes", 60_000, 1_000_000, 60, c_value::c08_routes_case)]
            }
        }
        _ => {
            eprintln!("unknown property {id} for h_zvariant");
            std::process::exit(2);
        }
    };
    if let Some(p) = replay {
        let checks: Vec<(&str, CaseFn)> = specs.iter().map(|s| (s.name, &*s.f as CaseFn)).collect();
        run.replay_file(std::path::Path::new(&p), &checks);
        run.finish();
    }
    for s in &specs {
        run.replay_committed(s.name, &*s.f);
    }
    for s in &specs {
        if s.custom {
            continue;
        }
        let n = run.pick(s.quick, s.thorough);
        run.campaign(s.name, n, s.max_len, &*s.f);
    }
    // custom drivers
    match id {
        "C06" => {
            let f = &*specs[0].f;
            let (l21, l10) = run.pick((5, 7), (6, 8));
            let n21 = c_sig::count_upto(21, l21);
            run.enumerate("sig", n21, &|i| c_sig::nth_string(c_sig::SIGMA21, i), f);
            // the 10-symbol alphabet is a subset of the 21-symbol one: only its longer strings are new
            let skip = c_sig::count_upto(10, l21);
            let n10 = c_sig::count_upto(10, l10) - skip;
            run.enumerate("sig", n10, &|i| c_sig::nth_string(c_sig::SIGMA10, i + skip), f);
            let lim = c_sig::limit_cases();
            run.obs.count("limit-cases", lim.len() as u64);
            run.enumerate("sig", lim.len() as u64, &|i| lim[i as usize].clone(), f);
            run.extra.insert("enumerated".into(), serde_json::json!({"sigma21_max_len": l21, "sigma21_strings": n21, "sigma10_max_len": l10, "sigma10_strings": n10, "limit_strings": lim.len()}));
            if run.truncated {
                run.exhaustive = Some(false);
            }
        }
        "C07" => {
            let f = &*specs[0].f;
            // quick: every 4th grid point (all counts still appear with every order); thorough: all
            let total = c_depth::grid_total();
            let stride = run.pick(4u64, 1u64);
            run.enumerate("depth", total / stride, &|i| c_depth::grid_case(i * stride + (i / 32) % stride), f);
            if stride != 1 || run.truncated {
                run.exhaustive = Some(false);
            }
            run.extra.insert("grid_points".into(), serde_json::json!(total / stride));
        }
        _ => {}
    }
    run.finish();
}
