mod bridge;
mod c_dbus;
#[cfg(feature = "gvariant")]
mod c_gv;
mod enc;

use vcore::run::{CaseResult, Obs, Run};
use vcore::src::Src;
use zvariant::serialized::Format;

pub struct Spec {
    pub name: &'static str,
    pub f: Box<dyn Fn(&mut Src, &mut Obs) -> CaseResult + Sync>,
    pub quick: u64,
    pub thorough: u64,
    pub max_len: usize,
}

fn spec(name: &'static str, quick: u64, thorough: u64, max_len: usize, f: impl Fn(&mut Src, &mut Obs) -> CaseResult + Sync + 'static) -> Spec {
    Spec { name, f: Box::new(f), quick, thorough, max_len }
}

fn main() {
    let args: Vec<String> = std::env::args().collect();
    if args.len() < 2 {
        eprintln!("usage: h_zvariant <ID> [--tier quick|thorough] [--replay FILE]");
        std::process::exit(2);
    }
    let id = args[1].as_str();
    let mut tier = vcore::run::env_tier();
    let mut replay: Option<String> = None;
    let mut i = 2;
    while i < args.len() {
        match args[i].as_str() {
            "--tier" => {
                tier = args[i + 1].clone();
                i += 1
            }
            "--replay" => {
                replay = Some(args[i + 1].clone());
                i += 1
            }
            _ => {}
        }
        i += 1;
    }
    // make sure the fd table exists before any thread starts
    let _ = bridge::fd_table();
    let mut run = Run::new(id, &tier);
    let specs: Vec<Spec> = match id {
        "C01" => {
            run.rule = "generated (signature, value, endian, offset 0..15, route) from a byte string; zvariant's bytes are strictly decoded by the reference unmarshaller, compared as values (dict entries as multiset) and re-marshalled byte-exactly; non-trivial = signature contains a container or string-like type and the encoding is longer than 8 bytes; distinct by hash(signature, bytes, endian, offset)".into();
            vec![spec("dyn", 40_000, 3_000_000, 160, c_dbus::c01_dyn)]
        }
        "C02" => {
            run.rule = "generated (signature, value, endian, offset, route); decode(encode(v)) compared with v under the reference value AST (bitwise f64, dict as multiset) and consumed == encoded length; non-trivial = container nesting >= 2, or an empty array of a container type, or offset % 8 != 0; distinct by hash(signature, bytes, endian, offset)".into();
            let mut v = vec![spec("dyn-dbus", 40_000, 3_000_000, 160, c_dbus::c02_dyn(Format::DBus))];
            #[cfg(feature = "gvariant")]
            v.push(spec("dyn-gvariant", 40_000, 3_000_000, 160, c_dbus::c02_dyn(Format::GVariant)));
            v
        }
        "C03" => {
            run.rule = "reference-marshalled valid encodings, role-aware single and double mutations (padding, bool, terminator, lengths, truncation, UTF-8, NUL, path/signature text, signature length, fd index, pokes, insert/delete, trailing bytes) and random bytes; zvariant Ok <=> reference Accept, equal value and consumed length; non-trivial = mutated encoding rejected by the reference, or an accepted container; distinct by hash(signature, bytes)".into();
            vec![spec("mut", 60_000, 4_000_000, 200, c_dbus::c03_case)]
        }
        #[cfg(feature = "gvariant")]
        "C05" => {
            run.rule = "generated GVariant (signature incl. maybe, value, endian, offset, route) plus containers aimed at the 255/256 and 65535/65536 framing-offset thresholds (array, struct, dict entry, nested); zvariant's bytes compared byte-for-byte with the reference normal-form serialiser; non-trivial = a variable-size child inside a container (framing offsets present) or a maybe; distinct by hash(signature, bytes, endian, offset)".into();
            vec![spec("gv", 40_000, 2_000_000, 200, c_gv::c05_case)]
        }
        _ => {
            eprintln!("unknown property {id} for h_zvariant");
            std::process::exit(2);
        }
    };
    if let Some(p) = replay {
        let checks: Vec<(&str, vcore::run::CaseFn)> = specs.iter().map(|s| (s.name, &*s.f as vcore::run::CaseFn)).collect();
        run.replay_file(std::path::Path::new(&p), &checks);
        run.finish();
    }
    for s in &specs {
        run.replay_committed(s.name, &*s.f);
    }
    for s in &specs {
        let n = run.pick(s.quick, s.thorough);
        run.campaign(s.name, n, s.max_len, &*s.f);
    }
    run.finish();
}
