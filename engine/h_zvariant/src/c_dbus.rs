//! C01 (byte-exact D-Bus encoding), C02 (round trip, D-Bus part), C03 (decoder accepts exactly the
//! valid encodings) — dynamic-value routes.

use crate::bridge::*;
use crate::enc::*;
use std::os::fd::AsRawFd;
use vcore::gen::*;
use vcore::refmodel::dbus::{self, Rej, Role};
use vcore::refmodel::sig::RSig;
use vcore::refmodel::val::RVal;
use vcore::run::{CaseResult, Failure, Obs};
use vcore::src::{fnv, hex, Src};
use vcore::{vensure, vfail};
use zvariant::serialized::{Data, Format};
use zvariant::{Array, Structure, Value};

fn so() -> SigOpts {
    SigOpts { maybe: false, fd: true, variant: true, max_depth: 5 }
}

fn nontrivial_c01(s: &RSig, len: usize) -> bool {
    (s.is_container() || s.is_stringlike() || s.contains(&|x| x.is_container() || x.is_stringlike())) && len > 8
}

pub fn c01_dyn(src: &mut Src, obs: &mut Obs) -> CaseResult {
    let (s, v) = gen_typed(src, &so(), &ValOpts::default());
    let big = src.bool();
    let off = src.below(16);
    let route = if src.below(3) == 0 { Route::Variant } else { Route::Inner };
    let zv = to_value(&v).map_err(|e| Failure::new(e.0))?;
    let enc = encode(Format::DBus, big, off, &zv, route)?;
    let (es, ev) = match route {
        Route::Variant => (RSig::V, RVal::V(Box::new((s.clone(), v.clone())))),
        Route::Inner => (s.clone(), v.clone()),
    };
    for c in sig_classes(&s) {
        obs.label(c);
    }
    obs.label(if route == Route::Variant { "route:variant" } else { "route:inner" });
    obs.label(if big { "BE" } else { "LE" });
    if off % 8 != 0 {
        obs.label("offset-unaligned");
    }
    check_dbus_bytes(&es, &ev, &enc.bytes, &enc.fd_handles, big, off)?;
    vensure!(
        enc.size_reported == enc.bytes.len(),
        "serialized_size reports {} but {} bytes were written (sig {}, value {})",
        enc.size_reported,
        enc.bytes.len(),
        es.to_string(),
        ev.show()
    );
    if enc.num_fds_reported as usize != enc.fd_handles.len() {
        let msg = format!(
            "serialized_size reports {} fds but {} are attached (sig {}, value {})",
            enc.num_fds_reported,
            enc.fd_handles.len(),
            es.to_string(),
            ev.show()
        );
        // classifier: the only difference is that the size pass counts every occurrence of a repeated fd
        if repeated_fd(&v) && enc.num_fds_reported as usize == count_fds(&v) {
            return Err(Failure::keyed("size-numfds-counts-repeated-fd", msg));
        }
        return Err(Failure::new(msg));
    }
    if nontrivial_c01(&es, enc.bytes.len()) {
        let mut k = es.to_string().into_bytes();
        k.extend_from_slice(&enc.bytes);
        k.push(big as u8);
        k.push(off as u8);
        obs.nontrivial(fnv(&k));
        obs.sample(sig_classes(&s).last().copied().unwrap_or("plain"), || {
            format!("sig={} value={} endian={} offset={} bytes={}", es.to_string(), ev.show(), if big { "BE" } else { "LE" }, off, hex(&enc.bytes[..enc.bytes.len().min(48)]))
        });
    }
    Ok(())
}

/// decode `data` as type `s` into an RVal through the dynamic routes
pub fn decode_dyn(data: &Data<'_, '_>, s: &RSig) -> Result<(RVal, usize), String> {
    let sig = to_sig(s);
    macro_rules! typed {
        ($t:ty, $f:expr) => {{
            let (x, n): ($t, usize) = data.deserialize().map_err(|e| e.to_string())?;
            Ok(($f(x), n))
        }};
    }
    match s {
        RSig::Y => typed!(u8, RVal::Y),
        RSig::B => typed!(bool, RVal::B),
        RSig::N => typed!(i16, RVal::N),
        RSig::Q => typed!(u16, RVal::Q),
        RSig::I => typed!(i32, RVal::I),
        RSig::U => typed!(u32, RVal::U),
        RSig::X => typed!(i64, RVal::X),
        RSig::T => typed!(u64, RVal::T),
        RSig::D => typed!(f64, |x: f64| RVal::D(x.to_bits())),
        RSig::S => typed!(String, RVal::S),
        RSig::O => typed!(zvariant::OwnedObjectPath, |x: zvariant::OwnedObjectPath| RVal::O(x.as_str().to_string())),
        RSig::G => typed!(zvariant::Signature, |x: zvariant::Signature| RVal::G(x.to_string())),
        RSig::H => {
            let (x, n): (zvariant::Fd<'_>, usize) = data.deserialize().map_err(|e| e.to_string())?;
            Ok((RVal::H(handle_of_raw(x.as_raw_fd()).unwrap_or(u32::MAX)), n))
        }
        RSig::V => {
            let (x, n): (Value<'_>, usize) = data.deserialize().map_err(|e| e.to_string())?;
            let inner = from_value(&x).map_err(|e| e.0)?;
            let is = from_sig(x.value_signature()).ok_or("unit signature")?;
            Ok((RVal::V(Box::new((is, inner))), n))
        }
        RSig::St(_) => {
            let (x, n): (Structure<'_>, usize) = data.deserialize_for_dynamic_signature(&sig).map_err(|e| e.to_string())?;
            Ok((from_value(&Value::Structure(x)).map_err(|e| e.0)?, n))
        }
        RSig::A(_) => {
            let (x, n): (Array<'_>, usize) = data.deserialize_for_dynamic_signature(&sig).map_err(|e| e.to_string())?;
            Ok((from_value(&Value::Array(x)).map_err(|e| e.0)?, n))
        }
        RSig::Dict(..) | RSig::M(_) => {
            // no dynamic seed for Dict/Maybe: go through a one-field structure at an 8-aligned
            // position is not the same bytes; callers avoid these as top-level types
            Err("unsupported top-level type for decode_dyn".into())
        }
    }
}

/// structures (alone, and as the second element of an array behind an element of odd length) whose
/// encoded size lies in the last 8 bytes below a framing-offset threshold (255, now and then 65535),
/// at every starting offset: where the size of the framing offsets is decided, a few bytes of
/// padding in front must not count
pub fn c02_threshold(fmt: Format) -> impl Fn(&mut Src, &mut Obs) -> CaseResult + Sync {
    move |src, obs| {
        let first = match src.below(4) {
            0 => RVal::Q(7),
            1 => RVal::U(7),
            2 => RVal::T(7),
            _ => RVal::D(1.5f64.to_bits()),
        };
        let big_threshold = src.chance(12);
        let limit = if big_threshold { 65535usize } else { 255 };
        let target = limit - src.below(9);
        let extra = src.below(3);
        let tail: RVal = match src.below(3) {
            0 => RVal::S("t".repeat(src.below(4))),
            1 => RVal::A(RSig::Y, (0..src.below(4)).map(|i| RVal::Y(i as u8)).collect()),
            _ => RVal::S(String::new()),
        };
        let in_array = src.bool();
        let big = src.bool();
        let off = src.below(16);
        let route = if src.below(3) == 0 { Route::Variant } else { Route::Inner };
        // find the length of the first string that makes the structure exactly `target` bytes long
        let mk = |l: usize| {
            let mut f = vec![first.clone(), RVal::S("a".repeat(l))];
            for k in 0..extra {
                f.push(RVal::S("b".repeat(k)));
            }
            f.push(tail.clone());
            RVal::St(f)
        };
        let mut l = target.saturating_sub(24);
        let mut st = mk(l);
        for _ in 0..40 {
            let zv = to_value(&st).map_err(|e| Failure::new(e.0))?;
            let n = encode(fmt, false, 0, &zv, Route::Inner)?.bytes.len();
            if n == target {
                break;
            }
            l = if n < target { l + (target - n) } else { l.saturating_sub(n - target) };
            st = mk(l);
        }
        let (s, v) = if in_array {
            // an element of odd length in front of it
            let odd = mk(1 + 2 * src.below(3));
            let v = RVal::A(st.sig(), vec![odd, st]);
            (v.sig(), v)
        } else {
            (st.sig(), st)
        };
        obs.label(if big_threshold { "threshold-65535" } else { "threshold-255" });
        obs.label(if in_array { "threshold:second-array-element" } else { "threshold:top-level" });
        c02_roundtrip(fmt, s, v, big, off, route, obs)
    }
}

pub fn c02_dyn(fmt: Format) -> impl Fn(&mut Src, &mut Obs) -> CaseResult + Sync {
    move |src, obs| {
        let gv = fmt != Format::DBus;
        let sopts = SigOpts { maybe: gv, ..so() };
        let (s, v) = gen_typed(src, &sopts, &ValOpts::default());
        let big = src.bool();
        let off = src.below(16);
        let route = if src.below(3) == 0 { Route::Variant } else { Route::Inner };
        c02_roundtrip(fmt, s, v, big, off, route, obs)
    }
}

fn c02_roundtrip(fmt: Format, mut s: RSig, mut v: RVal, big: bool, off: usize, mut route: Route, obs: &mut Obs) -> CaseResult {
    {
        let gv = fmt != Format::DBus;
        if matches!(s, RSig::Dict(..) | RSig::M(_)) && route == Route::Inner {
            // wrap: these have no top-level dynamic decode seed
            v = RVal::St(vec![v]);
            s = v.sig();
        }
        if gv && route == Route::Inner && matches!(s, RSig::V) {
            route = Route::Variant;
        }
        let zv = to_value(&v).map_err(|e| Failure::new(e.0))?;
        let enc = encode(fmt, big, off, &zv, route)?;
        let (es, ev) = match route {
            Route::Variant => (RSig::V, RVal::V(Box::new((s.clone(), v.clone())))),
            Route::Inner => (s.clone(), v.clone()),
        };
        for c in sig_classes(&s) {
            obs.label(c);
        }
        let (dv, consumed) = decode_dyn(&enc.data, &es).map_err(|e| {
            Failure::new(format!("decoding zvariant's own encoding failed: {e}; sig={} value={} bytes={}", es.to_string(), ev.show(), hex(&enc.bytes[..enc.bytes.len().min(300)])))
        })?;
        vensure!(dv.eq_unordered(&ev), "round trip changed the value: sig={} in={} out={}", es.to_string(), ev.show(), dv.show());
        vensure!(consumed == enc.bytes.len(), "decode consumed {} of {} encoded bytes (sig={} value={})", consumed, enc.bytes.len(), es.to_string(), ev.show());
        // OwnedValue path
        if route == Route::Variant {
            let (ov, n): (zvariant::OwnedValue, usize) = enc.data.deserialize().map_err(|e| Failure::new(format!("OwnedValue decode failed: {e}")))?;
            let back = from_value(&ov).map_err(|e| Failure::new(e.0))?;
            let RVal::V(b) = &ev else { unreachable!() };
            vensure!(back.eq_unordered(&b.1), "OwnedValue round trip changed the value: in={} out={}", b.1.show(), back.show());
            vensure!(n == enc.bytes.len(), "OwnedValue decode consumed {} of {}", n, enc.bytes.len());
        }
        let deep = v.depth() >= 2;
        let empty_container_array = v.any(&|x| matches!(x, RVal::A(e, items) if items.is_empty() && e.is_container()));
        if deep || empty_container_array || off % 8 != 0 {
            let mut k = es.to_string().into_bytes();
            k.extend_from_slice(&enc.bytes);
            k.push(big as u8);
            k.push(off as u8);
            obs.nontrivial(fnv(&k));
            obs.label(if deep { "nested>=2" } else if empty_container_array { "empty-array-of-container" } else { "unaligned-only" });
            obs.sample(if deep { "nested" } else { "other" }, || format!("sig={} value={} {} off={} len={}", es.to_string(), ev.show(), if big { "BE" } else { "LE" }, off, enc.bytes.len()));
        }
        Ok(())
    }
}

// ---------------------------------------------------------------------------------------------
// C03

#[derive(Debug)]
pub struct Mutated {
    pub bytes: Vec<u8>,
    pub what: String,
}

fn put_u32(b: &mut [u8], at: usize, v: u32, big: bool) {
    let x = if big { v.to_be_bytes() } else { v.to_le_bytes() };
    b[at..at + 4].copy_from_slice(&x);
}
fn get_u32(b: &[u8], at: usize, big: bool) -> u32 {
    let a = [b[at], b[at + 1], b[at + 2], b[at + 3]];
    if big {
        u32::from_be_bytes(a)
    } else {
        u32::from_le_bytes(a)
    }
}

/// Role-aware mutation of a valid encoding.
pub fn mutate(src: &mut Src, enc: &dbus::Enc) -> Mutated {
    let mut b = enc.bytes.clone();
    let pick_role = |src: &mut Src, r: Role| -> Option<usize> {
        let idx: Vec<usize> = enc.roles.iter().enumerate().filter(|(_, x)| **x == r).map(|(i, _)| i).collect();
        if idx.is_empty() {
            None
        } else {
            Some(idx[src.below(idx.len())])
        }
    };
    // start index of each run of a role
    let runs = |r: Role| -> Vec<usize> {
        let mut v = vec![];
        for i in 0..enc.roles.len() {
            if enc.roles[i] == r && (i == 0 || enc.roles[i - 1] != r || (r == Role::Len || r == Role::Bool || r == Role::FdIdx) && (i - run_start(&enc.roles, i)) % 4 == 0) {
                v.push(i);
            }
        }
        v
    };
    fn run_start(roles: &[Role], i: usize) -> usize {
        let mut j = i;
        while j > 0 && roles[j - 1] == roles[i] {
            j -= 1;
        }
        j
    }
    let kind = src.below(16);
    let what;
    match kind {
        0 => {
            if let Some(i) = pick_role(src, Role::Pad) {
                b[i] = 1 + src.below(255) as u8;
                what = format!("padding byte {i} non-zero");
            } else {
                what = "none".into();
            }
        }
        1 => {
            let r = runs(Role::Bool);
            if !r.is_empty() {
                let at = r[src.below(r.len())];
                let v = *src.pick(&[2u32, 0x100, 0x0100_0000, 0xffff_ffff, 3]);
                put_u32(&mut b, at, v, enc.big);
                what = format!("bool at {at} := {v:#x}");
            } else {
                what = "none".into();
            }
        }
        2 => {
            if let Some(i) = pick_role(src, Role::Nul) {
                b[i] = 1 + src.below(255) as u8;
                what = format!("terminator at {i} non-zero");
            } else {
                what = "none".into();
            }
        }
        3 => {
            // drop a terminator byte entirely
            if let Some(i) = pick_role(src, Role::Nul) {
                b.remove(i);
                what = format!("terminator at {i} removed");
            } else {
                what = "none".into();
            }
        }
        4 => {
            let r = runs(Role::Len);
            if !r.is_empty() {
                let at = r[src.below(r.len())];
                let old = get_u32(&b, at, enc.big);
                let delta = *src.pick(&[1i64, -1, 2, -2, 4, -4, 8, -8, 3, 7]);
                let nv = (old as i64 + delta).max(0) as u32;
                put_u32(&mut b, at, nv, enc.big);
                what = format!("length at {at}: {old} -> {nv}");
            } else {
                what = "none".into();
            }
        }
        5 => {
            let r = runs(Role::Len);
            if !r.is_empty() {
                let at = r[src.below(r.len())];
                let nv = *src.pick(&[0xffff_ffffu32, 0x8000_0000, 0x0400_0001, 0x7fff_fff8, 0x1_0000]);
                put_u32(&mut b, at, nv, enc.big);
                what = format!("length at {at} := {nv:#x}");
            } else {
                what = "none".into();
            }
        }
        6 => {
            // truncate at a value boundary or anywhere
            if !b.is_empty() {
                let at = if src.bool() && !enc.boundaries.is_empty() { enc.boundaries[src.below(enc.boundaries.len())] } else { src.below(b.len()) };
                b.truncate(at);
                what = format!("truncated to {at}");
            } else {
                what = "none".into();
            }
        }
        7 => {
            if let Some(i) = pick_role(src, Role::Str) {
                let v = *src.pick(&[0xffu8, 0xc0, 0x80, 0xfe, 0xed, 0xf8]);
                b[i] = v;
                what = format!("string byte {i} := {v:#x} (UTF-8)");
            } else {
                what = "none".into();
            }
        }
        8 => {
            if let Some(i) = pick_role(src, Role::Str) {
                b[i] = 0;
                what = format!("string byte {i} := NUL");
            } else {
                what = "none".into();
            }
        }
        9 => {
            // break path / signature text with a character of the wrong class
            let r = if src.bool() { Role::Str } else { Role::SigTxt };
            if let Some(i) = pick_role(src, r) {
                let v = *src.pick(&[b'/', b'-', b'.', b'a', b'(', b')', b'{', b'}', b'z', b'v', b'y', b' ']);
                b[i] = v;
                what = format!("text byte {i} := {:?}", v as char);
            } else {
                what = "none".into();
            }
        }
        10 => {
            if let Some(i) = pick_role(src, Role::SigLen) {
                let old = b[i];
                let nv = match src.below(4) {
                    0 => 0,
                    1 => old.wrapping_add(1),
                    2 => old.wrapping_sub(1),
                    _ => 255,
                };
                b[i] = nv;
                what = format!("signature length at {i}: {old} -> {nv}");
            } else {
                what = "none".into();
            }
        }
        11 => {
            let r = runs(Role::FdIdx);
            if !r.is_empty() {
                let at = r[src.below(r.len())];
                let nv = *src.pick(&[4u32, 7, 0xffff_ffff, 0x100]);
                put_u32(&mut b, at, nv, enc.big);
                what = format!("fd index at {at} := {nv}");
            } else {
                what = "none".into();
            }
        }
        12 | 13 => {
            // 1–3 random byte pokes
            let n = 1 + src.below(3);
            let mut w = vec![];
            for _ in 0..n {
                if b.is_empty() {
                    break;
                }
                let i = src.below(b.len());
                let v = src.u8();
                b[i] = v;
                w.push(format!("{i}:={v:#x}"));
            }
            what = format!("random pokes {}", w.join(","));
        }
        14 => {
            // insert or delete a byte
            if !b.is_empty() {
                let i = src.below(b.len());
                if src.bool() {
                    b.insert(i, src.u8());
                    what = format!("byte inserted at {i}");
                } else {
                    b.remove(i);
                    what = format!("byte removed at {i}");
                }
            } else {
                what = "none".into();
            }
        }
        _ => {
            // valid encoding plus trailing garbage
            let n = src.below(6);
            for _ in 0..n {
                b.push(src.u8());
            }
            what = format!("valid + {n} trailing bytes");
        }
    }
    Mutated { bytes: b, what }
}

fn dup_fds(handles: &[u32]) -> Vec<std::os::fd::OwnedFd> {
    handles.iter().map(|h| fd_table().fds[*h as usize].try_clone().expect("dup")).collect()
}

/// classify a disagreement between zvariant (accepts) and the reference (rejects)
fn classify_false_accept(rej: Rej) -> Option<&'static str> {
    match rej {
        Rej::Nul => Some("dbus-de-terminator-not-checked"),
        Rej::Path => Some("dbus-de-variant-object-path-unchecked"),
        Rej::VariantSig => Some("dbus-de-variant-signature-not-single-type"),
        Rej::Sig => Some("dbus-de-signature-text-beyond-grammar"),
        _ => None,
    }
}

/// a value nested around the limits (32 arrays, 32 structs, 64 in total), also through variants
/// and with a completed sibling in front of the deep child
pub fn gen_deep(src: &mut Src) -> RVal {
    let a = *src.pick(&[0usize, 1, 2, 30, 31, 32, 33, 34]);
    let s = *src.pick(&[0usize, 1, 2, 30, 31, 32, 33, 34]);
    let v = *src.pick(&[0usize, 1, 2, 3, 30, 31, 63, 64, 65, 66]);
    let mut kinds: Vec<u8> = vec![];
    kinds.extend(std::iter::repeat(b'a').take(a));
    kinds.extend(std::iter::repeat(b'(').take(s));
    kinds.extend(std::iter::repeat(b'v').take(v));
    kinds.truncate(110);
    for i in (1..kinds.len()).rev() {
        let j = src.below(i + 1);
        kinds.swap(i, j);
    }
    let sib_at = if kinds.is_empty() { 0 } else { src.below(kinds.len()) };
    let with_sib = src.bool();
    fn empty_like(v: &RVal) -> RVal {
        match v {
            RVal::A(e, _) => RVal::A(e.clone(), vec![]),
            RVal::St(f) => RVal::St(f.iter().map(empty_like).collect()),
            RVal::V(b) => RVal::V(Box::new((b.0.clone(), empty_like(&b.1)))),
            x => x.clone(),
        }
    }
    let mut val = RVal::Y(7);
    for (lvl, k) in kinds.iter().enumerate().rev() {
        val = match k {
            b'a' if with_sib && lvl == sib_at => RVal::A(val.sig(), vec![empty_like(&val), val]),
            b'a' => RVal::A(val.sig(), vec![val]),
            b'(' if with_sib && lvl == sib_at => RVal::St(vec![RVal::A(RSig::Y, vec![RVal::Y(1)]), val]),
            b'(' => RVal::St(vec![val]),
            _ => RVal::V(Box::new((val.sig(), val))),
        };
    }
    val
}

pub fn c03_case(src: &mut Src, obs: &mut Obs) -> CaseResult {
    let (mut s0, mut v0) = gen_typed(src, &so(), &ValOpts::default());
    if src.chance(16) {
        v0 = gen_deep(src);
        s0 = v0.sig();
        obs.label("deep-nesting");
    }
    let big = src.bool();
    let off = src.below(16);
    // top-level decode target: as variant, or the type itself (wrap dict in a struct)
    let (s, v) = match src.below(3) {
        0 => (RSig::V, RVal::V(Box::new((s0.clone(), v0.clone())))),
        _ => {
            if matches!(s0, RSig::Dict(..)) {
                let w = RVal::St(vec![v0.clone()]);
                (w.sig(), w)
            } else {
                (s0.clone(), v0.clone())
            }
        }
    };
    let enc = dbus::marshal(&v, big, off);
    let mode = src.weighted(&[2, 12, 3, 1]);
    let (bytes, what) = match mode {
        0 => (enc.bytes.clone(), "valid".to_string()),
        1 => {
            let m = mutate(src, &enc);
            (m.bytes, m.what)
        }
        2 => {
            // two mutations
            let m1 = mutate(src, &enc);
            let mut e2 = enc.clone();
            if m1.bytes.len() == enc.bytes.len() {
                e2.bytes = m1.bytes.clone();
                let m2 = mutate(src, &e2);
                (m2.bytes, format!("{} + {}", m1.what, m2.what))
            } else {
                (m1.bytes, m1.what)
            }
        }
        _ => {
            let n = src.below(40);
            (src.bytes(n), "random bytes".to_string())
        }
    };
    let nfds = enc.fds.len();
    let (rres, grey) = dbus::unmarshal(&s, &bytes, big, off, nfds);
    if grey {
        obs.label("grey-skipped");
        return Ok(());
    }
    let data = Data::new_fds(bytes.clone(), ctx(Format::DBus, big, off), dup_fds(&enc.fds));
    let zres = decode_dyn(&data, &s);
    let describe = || format!("sig={} base={} mutation=[{}] {} off={} bytes={}", s.to_string(), v.show(), what, if big { "BE" } else { "LE" }, off, hex(&bytes[..bytes.len().min(200)]));
    match (&rres, &zres) {
        (Ok((rv, rn)), Ok((zv, zn))) => {
            let rvh = norm_g(&dbus::map_fds(rv, &enc.fds));
            if !norm_g(zv).eq_unordered(&rvh) {
                // duplicate dict keys: the Dict type keeps one entry per key (not demanded)
                if has_dup_keys(rv) {
                    obs.label("dup-dict-keys-skipped");
                    return Ok(());
                }
                vfail!("decoded value differs: zvariant={} reference={} ; {}", zv.show(), rvh.show(), describe());
            }
            vensure!(zn == rn, "consumed length differs: zvariant={} reference={} ; {}", zn, rn, describe());
            obs.label("both-accept");
            if s.is_container() {
                let mut k = s.to_string().into_bytes();
                k.extend_from_slice(&bytes);
                obs.nontrivial(fnv(&k));
                obs.sample("accept", describe);
            }
        }
        (Err(_), Err(_)) => {
            obs.label("both-reject");
            if mode == 1 || mode == 2 {
                let mut k = s.to_string().into_bytes();
                k.extend_from_slice(&bytes);
                obs.nontrivial(fnv(&k));
                obs.label(&format!("reject:{:?}", rres.as_ref().err().unwrap()));
                obs.sample(&format!("reject-{:?}", rres.as_ref().err().unwrap()), describe);
            }
        }
        (Err(rej), Ok((zv, zn))) => {
            let msg = format!("zvariant accepts an invalid encoding (reference: {:?}) as {} consuming {}; {}", rej, zv.show(), zn, describe());
            return Err(match classify_false_accept(*rej) {
                Some(k) => Failure::keyed(k, msg),
                None => Failure::new(msg),
            });
        }
        (Ok((rv, _)), Err(e)) => {
            vfail!("zvariant rejects a valid encoding of {} : {} ; {}", rv.show(), e, describe());
        }
    }
    Ok(())
}

fn has_dup_keys(v: &RVal) -> bool {
    v.any(&|x| match x {
        RVal::Dict(_, _, e) => {
            for i in 0..e.len() {
                for j in 0..i {
                    let same = match (&e[i].0, &e[j].0) {
                        (RVal::D(a), RVal::D(b)) => f64::from_bits(*a) == f64::from_bits(*b) || (f64::from_bits(*a).is_nan() || f64::from_bits(*b).is_nan()),
                        (a, b) => a == b,
                    };
                    if same {
                        return true;
                    }
                }
            }
            // NaN keys break BTreeMap ordering assumptions; also skipped
            e.iter().any(|(k, _)| matches!(k, RVal::D(b) if f64::from_bits(*b).is_nan()))
        }
        _ => false,
    })
}
