//! RVal/RSig <-> zvariant::{Value, Signature}. Signatures are built with the dynamic constructors,
//! never with zvariant's parser.

use std::os::fd::{AsRawFd, BorrowedFd, FromRawFd, OwnedFd};
use std::sync::OnceLock;
use vcore::refmodel::sig::RSig;
use vcore::refmodel::val::RVal;
use zvariant::{Array, Dict, Fd, ObjectPath, Signature, Str, StructureBuilder, Value};

pub struct FdTable {
    pub fds: Vec<OwnedFd>,
    pub inos: Vec<(u64, u64)>,
}

pub fn ino_of(fd: i32) -> Option<(u64, u64)> {
    let mut st: libc::stat = unsafe { std::mem::zeroed() };
    if unsafe { libc::fstat(fd, &mut st) } == 0 {
        Some((st.st_dev as u64, st.st_ino as u64))
    } else {
        None
    }
}

static TABLE: OnceLock<FdTable> = OnceLock::new();

/// Four distinct pipes (distinct inodes) owned by the process for its whole life.
pub fn fd_table() -> &'static FdTable {
    TABLE.get_or_init(|| {
        let mut fds = vec![];
        let mut inos = vec![];
        for _ in 0..4 {
            let mut p = [0i32; 2];
            assert_eq!(unsafe { libc::pipe2(p.as_mut_ptr(), libc::O_CLOEXEC) }, 0);
            let r = unsafe { OwnedFd::from_raw_fd(p[0]) };
            // keep the write end open too (leak) so the pipe stays alive
            std::mem::forget(unsafe { OwnedFd::from_raw_fd(p[1]) });
            inos.push(ino_of(r.as_raw_fd()).unwrap());
            fds.push(r);
        }
        FdTable { fds, inos }
    })
}

pub fn handle_of_raw(fd: i32) -> Option<u32> {
    let ino = ino_of(fd)?;
    fd_table().inos.iter().position(|x| *x == ino).map(|i| i as u32)
}

pub fn to_sig(s: &RSig) -> Signature {
    match s {
        RSig::Y => Signature::U8,
        RSig::B => Signature::Bool,
        RSig::N => Signature::I16,
        RSig::Q => Signature::U16,
        RSig::I => Signature::I32,
        RSig::U => Signature::U32,
        RSig::X => Signature::I64,
        RSig::T => Signature::U64,
        RSig::D => Signature::F64,
        RSig::S => Signature::Str,
        RSig::O => Signature::ObjectPath,
        RSig::G => Signature::Signature,
        RSig::V => Signature::Variant,
        RSig::H => Signature::Fd,
        RSig::A(c) => Signature::array(to_sig(c)),
        RSig::Dict(k, v) => Signature::dict(to_sig(k), to_sig(v)),
        RSig::St(f) => Signature::structure(f.iter().map(to_sig).collect::<Vec<_>>()),
        #[cfg(feature = "gvariant")]
        RSig::M(c) => Signature::maybe(to_sig(c)),
        #[cfg(not(feature = "gvariant"))]
        RSig::M(_) => panic!("maybe without gvariant"),
    }
}

/// Signature of a sequence of types (message-body style): one type -> itself, several -> struct.
pub fn to_sig_seq(ss: &[RSig]) -> Signature {
    match ss.len() {
        0 => Signature::Unit,
        1 => to_sig(&ss[0]),
        _ => Signature::structure(ss.iter().map(to_sig).collect::<Vec<_>>()),
    }
}

pub fn from_sig(s: &Signature) -> Option<RSig> {
    Some(match s {
        Signature::Unit => return None,
        Signature::U8 => RSig::Y,
        Signature::Bool => RSig::B,
        Signature::I16 => RSig::N,
        Signature::U16 => RSig::Q,
        Signature::I32 => RSig::I,
        Signature::U32 => RSig::U,
        Signature::I64 => RSig::X,
        Signature::U64 => RSig::T,
        Signature::F64 => RSig::D,
        Signature::Str => RSig::S,
        Signature::ObjectPath => RSig::O,
        Signature::Signature => RSig::G,
        Signature::Variant => RSig::V,
        Signature::Fd => RSig::H,
        Signature::Array(c) => RSig::A(Box::new(from_sig(c.signature())?)),
        Signature::Dict { key, value } => RSig::Dict(Box::new(from_sig(key.signature())?), Box::new(from_sig(value.signature())?)),
        Signature::Structure(f) => RSig::St(f.iter().map(from_sig).collect::<Option<Vec<_>>>()?),
        #[cfg(feature = "gvariant")]
        Signature::Maybe(c) => RSig::M(Box::new(from_sig(c.signature())?)),
    })
}

#[derive(Debug)]
pub struct BridgeErr(pub String);

pub fn to_value(v: &RVal) -> Result<Value<'static>, BridgeErr> {
    let e = |x: zvariant::Error| BridgeErr(format!("constructing value: {x}"));
    Ok(match v {
        RVal::Y(x) => Value::U8(*x),
        RVal::B(x) => Value::Bool(*x),
        RVal::N(x) => Value::I16(*x),
        RVal::Q(x) => Value::U16(*x),
        RVal::I(x) => Value::I32(*x),
        RVal::U(x) => Value::U32(*x),
        RVal::X(x) => Value::I64(*x),
        RVal::T(x) => Value::U64(*x),
        RVal::D(x) => Value::F64(f64::from_bits(*x)),
        RVal::S(s) => Value::Str(Str::from(s.clone())),
        RVal::O(s) => Value::ObjectPath(ObjectPath::try_from(s.clone()).map_err(e)?),
        RVal::G(s) => Value::Signature(Signature::try_from(s.as_str()).map_err(|x| BridgeErr(format!("signature {s:?}: {x}")))?),
        RVal::V(b) => Value::Value(Box::new(to_value(&b.1)?)),
        RVal::H(h) => {
            let t = fd_table();
            let raw = t.fds[*h as usize].as_raw_fd();
            Value::Fd(Fd::from(unsafe { BorrowedFd::borrow_raw(raw) }))
        }
        RVal::A(elem, items) => {
            let mut a = Array::new(&to_sig(elem));
            for it in items {
                a.append(to_value(it)?).map_err(e)?;
            }
            Value::Array(a)
        }
        RVal::Dict(k, vs, entries) => {
            let mut d = Dict::new(&to_sig(k), &to_sig(vs));
            for (a, b) in entries {
                d.append(to_value(a)?, to_value(b)?).map_err(e)?;
            }
            Value::Dict(d)
        }
        RVal::St(fields) => {
            let mut b = StructureBuilder::new();
            for f in fields {
                b = b.append_field(to_value(f)?);
            }
            Value::Structure(b.build().map_err(e)?)
        }
        #[cfg(feature = "gvariant")]
        RVal::M(c, x) => match x {
            None => Value::Maybe(zvariant::Maybe::nothing(&to_sig(c))),
            Some(x) => Value::Maybe(zvariant::Maybe::just(to_value(x)?)),
        },
        #[cfg(not(feature = "gvariant"))]
        RVal::M(..) => return Err(BridgeErr("maybe without gvariant".into())),
    })
}

/// zvariant Value -> RVal. Fds become harness handles via fstat; unknown fds -> u32::MAX.
pub fn from_value(v: &Value<'_>) -> Result<RVal, BridgeErr> {
    let sg = |s: &Signature| from_sig(s).ok_or_else(|| BridgeErr(format!("unit signature inside value: {s:?}")));
    Ok(match v {
        Value::U8(x) => RVal::Y(*x),
        Value::Bool(x) => RVal::B(*x),
        Value::I16(x) => RVal::N(*x),
        Value::U16(x) => RVal::Q(*x),
        Value::I32(x) => RVal::I(*x),
        Value::U32(x) => RVal::U(*x),
        Value::I64(x) => RVal::X(*x),
        Value::U64(x) => RVal::T(*x),
        Value::F64(x) => RVal::D(x.to_bits()),
        Value::Str(s) => RVal::S(s.as_str().to_string()),
        Value::ObjectPath(s) => RVal::O(s.as_str().to_string()),
        Value::Signature(s) => RVal::G(s.to_string()),
        Value::Value(b) => {
            let inner = from_value(b)?;
            RVal::V(Box::new((sg(b.value_signature())?, inner)))
        }
        Value::Fd(fd) => RVal::H(handle_of_raw(fd.as_raw_fd()).unwrap_or(u32::MAX)),
        Value::Array(a) => RVal::A(sg(a.element_signature())?, a.inner().iter().map(from_value).collect::<Result<Vec<_>, _>>()?),
        Value::Dict(d) => {
            let (k, vs) = match d.signature() {
                Signature::Dict { key, value } => (sg(key.signature())?, sg(value.signature())?),
                s => return Err(BridgeErr(format!("dict with signature {s}"))),
            };
            let mut entries = vec![];
            for (a, b) in d.iter() {
                entries.push((from_value(a)?, from_value(b)?));
            }
            RVal::Dict(k, vs, entries)
        }
        Value::Structure(s) => RVal::St(s.fields().iter().map(from_value).collect::<Result<Vec<_>, _>>()?),
        #[cfg(feature = "gvariant")]
        Value::Maybe(m) => {
            let c = sg(m.value_signature())?;
            match m.inner() {
                None => RVal::M(c, None),
                Some(x) => RVal::M(c, Some(Box::new(from_value(x)?))),
            }
        }
    })
}
