//! C05: GVariant encoding against the reference normal-form serialiser.
#![cfg(feature = "gvariant")]

use crate::bridge::*;
use crate::enc::*;
use vcore::gen::*;
use vcore::refmodel::gv::{self, Dev};
use vcore::refmodel::sig::RSig;
use vcore::refmodel::val::RVal;
use vcore::run::{CaseResult, Failure, Obs};
use vcore::src::{fnv, hex, Src};
use zvariant::serialized::Format;

fn so() -> SigOpts {
    SigOpts { maybe: true, fd: true, variant: true, max_depth: 5 }
}

/// all non-empty combinations of deviation switches, single switches first
fn dev_combos() -> Vec<(String, Dev)> {
    let names = ["gv-bool-4-bytes", "gv-fixed-struct-no-tail-padding", "gv-offset-width-ignores-table"];
    let mut v = vec![];
    for mask in 1u32..8 {
        let d = Dev { bool_u32: mask & 1 != 0, no_fixed_struct_tail_pad: mask & 2 != 0, offset_width_ignores_table: mask & 4 != 0 };
        let n: Vec<&str> = (0..3).filter(|i| mask & (1 << i) != 0).map(|i| names[i]).collect();
        v.push((n.join("+"), d));
    }
    v.sort_by_key(|(n, _)| n.matches('+').count());
    v
}

/// Threshold-aimed value: a container whose size lands around 255/256 or 65535/65536.
pub fn gen_threshold(src: &mut Src) -> (RSig, RVal) {
    let big_thr = src.chance(40);
    gen_threshold_sized(src, big_thr)
}

pub fn gen_threshold_sized(src: &mut Src, big_thr: bool) -> (RSig, RVal) {
    let target = if big_thr { 65_520 + src.below(32) } else { 240 + src.below(32) };
    let shape = src.below(6);
    let pad = |n: usize| RVal::S("p".repeat(n));
    match shape {
        0 => {
            // as with k strings: total = sum(len+1) + k*w
            let k = 1 + src.below(3);
            let mut items = vec![];
            let each = target / k;
            for i in 0..k {
                let l = if i + 1 == k { target.saturating_sub(each * (k - 1)) } else { each };
                items.push(pad(l.saturating_sub(2)));
            }
            (RSig::A(Box::new(RSig::S)), RVal::A(RSig::S, items))
        }
        1 => {
            // struct (s s y): two offsets? only non-last variable members get offsets
            let a = src.below(target.max(1));
            let v = RVal::St(vec![pad(a), pad(target.saturating_sub(a + 4)), RVal::Y(7)]);
            (v.sig(), v)
        }
        2 => {
            // a{ss} with one entry whose payload is around the threshold
            let kl = src.below(20);
            let e = (RVal::S("k".repeat(kl)), pad(target.saturating_sub(kl + 3)));
            (RSig::Dict(Box::new(RSig::S), Box::new(RSig::S)), RVal::Dict(RSig::S, RSig::S, vec![e]))
        }
        3 => {
            // nested one level down: a(ss)
            let a = src.below(target.max(1));
            let inner = RVal::St(vec![pad(a), pad(target.saturating_sub(a + 3))]);
            (RSig::A(Box::new(inner.sig())), RVal::A(inner.sig(), vec![inner]))
        }
        4 => {
            // a{sv}
            let kl = src.below(20);
            let e = (RVal::S("k".repeat(kl)), RVal::V(Box::new((RSig::S, pad(target.saturating_sub(kl + 12))))));
            (RSig::Dict(Box::new(RSig::S), Box::new(RSig::V)), RVal::Dict(RSig::S, RSig::V, vec![e]))
        }
        _ => {
            // aay
            let a = src.below(target.max(1));
            let v = RVal::A(
                RSig::A(Box::new(RSig::Y)),
                vec![RVal::A(RSig::Y, vec![RVal::Y(1); a]), RVal::A(RSig::Y, vec![RVal::Y(2); target.saturating_sub(a + 2)])],
            );
            (v.sig(), v)
        }
    }
}

pub fn c05_case(src: &mut Src, obs: &mut Obs) -> CaseResult {
    let thr = src.chance(24);
    let (s, v) = if thr { gen_threshold(src) } else { gen_typed(src, &so(), &ValOpts::default()) };
    let big = src.bool();
    // GVariant prescribes the serialised form of a value that starts aligned; starting offsets
    // that are not a multiple of 8 are exercised with leading zero padding as the expectation
    let off = if src.chance(64) { src.below(16) } else { 8 * src.below(2) };
    let route = if src.below(3) == 0 { Route::Variant } else { Route::Inner };
    let zv = to_value(&v).map_err(|e| Failure::new(e.0))?;
    // entry order of dicts is whatever the Dict iterates in; the format fixes none
    let vo = from_value(&zv).map_err(|e| Failure::new(e.0))?;
    let enc = encode(Format::GVariant, big, off, &zv, route)?;
    let ev = match route {
        Route::Variant => RVal::V(Box::new((s.clone(), vo.clone()))),
        Route::Inner => vo.clone(),
    };
    for c in sig_classes(&s) {
        obs.label(c);
    }
    if thr {
        obs.label("threshold-aimed");
    }
    if off % 8 != 0 {
        obs.label("offset-unaligned");
    }
    // wire fd numbering: handles in first-occurrence order is what the reference produces
    // (the format does not say whether a repeated handle reuses its index: both are accepted)
    let dedupe = {
        let (e1, f1) = gv::serialize_fd(&ev, big, off, Dev::default(), true);
        e1 == enc.bytes && f1 == enc.fd_handles
    };
    let (expect, fds) = gv::serialize_fd(&ev, big, off, Dev::default(), dedupe);
    let describe = |exp: &[u8]| {
        format!(
            "sig={} value={} {} off={} route={:?} zvariant[{}]={} reference[{}]={}",
            ev.sig().to_string(),
            ev.show(),
            if big { "BE" } else { "LE" },
            off,
            route,
            enc.bytes.len(),
            hex(&enc.bytes[..enc.bytes.len().min(80)]),
            exp.len(),
            hex(&exp[..exp.len().min(80)])
        )
    };
    if enc.bytes != expect || enc.fd_handles != fds {
        if enc.bytes == expect {
            return Err(Failure::new(format!("fd list differs: zvariant={:?} reference={:?}; {}", enc.fd_handles, fds, describe(&expect))));
        }
        for (name, dev) in dev_combos() {
            let (alt, _) = gv::serialize_fd(&ev, big, off, dev, false);
            let (alt2, _) = gv::serialize_fd(&ev, big, off, dev, true);
            if alt == enc.bytes || alt2 == enc.bytes {
                return Err(Failure::keyed(name.clone(), format!("GVariant bytes differ from the normal form (they equal the reference with deviation [{name}]); {}", describe(&expect))));
            }
        }
        return Err(Failure::new(format!("GVariant bytes differ from the normal form; {}", describe(&expect))));
    }
    if enc.size_reported != enc.bytes.len() {
        return Err(Failure::new(format!("serialized_size reports {} but {} bytes were written; {}", enc.size_reported, enc.bytes.len(), describe(&expect))));
    }
    let has_offsets = has_framing(&ev);
    if has_offsets {
        let mut k = ev.sig().to_string().into_bytes();
        k.extend_from_slice(&enc.bytes);
        k.push(big as u8);
        k.push(off as u8);
        obs.nontrivial(fnv(&k));
        obs.sample(if thr { "threshold" } else { sig_classes(&s).last().copied().unwrap_or("plain") }, || describe(&expect));
    }
    Ok(())
}

/// a variable-size child inside a container (framing offsets present) or a maybe
fn has_framing(v: &RVal) -> bool {
    v.any(&|x| match x {
        RVal::M(..) => true,
        RVal::A(e, items) => gv::fixed_size(e).is_none() && !items.is_empty(),
        RVal::Dict(k, vs, items) => (gv::fixed_size(k).is_none() || gv::fixed_size(vs).is_none()) && !items.is_empty(),
        RVal::St(f) => f.len() >= 2 && f[..f.len() - 1].iter().any(|y| gv::fixed_size(&y.sig()).is_none()),
        _ => false,
    })
}
