//! C08: equality / ordering / hashing / conversion laws of dynamic values.

use crate::bridge::*;
use crate::enc::*;
use std::cmp::Ordering;
use std::collections::hash_map::DefaultHasher;
use std::hash::{Hash, Hasher};
use vcore::gen::*;
use vcore::refmodel::sig::RSig;
use vcore::refmodel::val::RVal;
use vcore::run::{CaseResult, Failure, Obs};
use vcore::src::{fnv, Src};
use zvariant::serialized::Format;
use zvariant::Value;

fn hv(v: &Value<'_>) -> u64 {
    let mut s = DefaultHasher::new();
    v.hash(&mut s);
    s.finish()
}

/// change one leaf, keeping the type
fn tweak(src: &mut Src, v: &RVal) -> RVal {
    match v {
        RVal::Y(x) => RVal::Y(x.wrapping_add(1)),
        RVal::B(x) => RVal::B(!x),
        RVal::N(x) => RVal::N(x.wrapping_add(1)),
        RVal::Q(x) => RVal::Q(x.wrapping_add(1)),
        RVal::I(x) => RVal::I(x.wrapping_add(1)),
        RVal::U(x) => RVal::U(x.wrapping_add(1)),
        RVal::X(x) => RVal::X(x.wrapping_add(1)),
        RVal::T(x) => RVal::T(x.wrapping_add(1)),
        RVal::D(x) => {
            let c = [0u64, 0x8000_0000_0000_0000, 0x3ff0_0000_0000_0000, 0x7ff8_0000_0000_0000, 0xfff8_0000_0000_0001];
            let n = c[src.below(5)];
            RVal::D(if n == *x { 0x4000_0000_0000_0000 } else { n })
        }
        RVal::S(s) => RVal::S(format!("{s}x")),
        RVal::O(s) => RVal::O(if s == "/" { "/x".into() } else { format!("{s}/x") }),
        RVal::G(s) => RVal::G(if s.is_empty() { "y".into() } else { String::new() }),
        RVal::H(h) => RVal::H((h + 1) % 4),
        RVal::V(b) => RVal::V(Box::new((b.0.clone(), tweak(src, &b.1)))),
        RVal::A(e, items) => {
            let mut it = items.clone();
            if it.is_empty() || src.below(4) == 0 {
                let mut fuel = 3;
                it.push(gen_val(src, e, &ValOpts::default(), &SigOpts::default(), &mut fuel));
            } else {
                let i = src.below(it.len());
                it[i] = tweak(src, &it[i]);
            }
            RVal::A(e.clone(), it)
        }
        RVal::St(f) => {
            let mut it = f.clone();
            let i = src.below(it.len());
            it[i] = tweak(src, &it[i]);
            RVal::St(it)
        }
        RVal::Dict(k, vs, e) => {
            let mut it = e.clone();
            if it.is_empty() {
                let mut fuel = 3;
                let ko = ValOpts { nan: false, ..ValOpts::default() };
                it.push((gen_val(src, k, &ko, &SigOpts::default(), &mut fuel), gen_val(src, vs, &ValOpts::default(), &SigOpts::default(), &mut fuel)));
            } else {
                let i = src.below(it.len());
                it[i].1 = tweak(src, &it[i].1);
            }
            RVal::Dict(k.clone(), vs.clone(), it)
        }
        RVal::M(c, x) => match x {
            None => {
                let mut fuel = 3;
                RVal::M(c.clone(), Some(Box::new(gen_val(src, c, &ValOpts::default(), &SigOpts::default(), &mut fuel))))
            }
            Some(_) if src.bool() => RVal::M(c.clone(), None),
            Some(x) => RVal::M(c.clone(), Some(Box::new(tweak(src, x)))),
        },
    }
}

fn has_nan(v: &RVal) -> bool {
    v.any(&|x| matches!(x, RVal::D(b) if f64::from_bits(*b).is_nan()))
}
fn denan(v: &RVal) -> RVal {
    v.map(&|x| match x {
        RVal::D(b) if f64::from_bits(*b).is_nan() => Some(RVal::D(0x3ff0_0000_0000_0000)),
        _ => None,
    })
}
fn has_fd(v: &RVal) -> bool {
    v.any(&|x| matches!(x, RVal::H(_)))
}

/// the algebraic laws over a triple; returns the first broken law
fn laws(a: &Value<'_>, b: &Value<'_>, c: &Value<'_>) -> Result<(), String> {
    for x in [a, b, c] {
        if x != x {
            return Err(format!("reflexivity: {x} != itself"));
        }
        if x.cmp(x) != Ordering::Equal {
            return Err(format!("cmp({x},{x}) != Equal"));
        }
    }
    for (x, y) in [(a, b), (b, c), (a, c)] {
        if (x == y) != (y == x) {
            return Err(format!("symmetry: ({x} == {y}) != ({y} == {x})"));
        }
        if x.cmp(y) != y.cmp(x).reverse() {
            return Err(format!("antisymmetry: cmp({x},{y})={:?} but cmp({y},{x})={:?}", x.cmp(y), y.cmp(x)));
        }
        if (x.cmp(y) == Ordering::Equal) != (x == y) {
            return Err(format!("cmp/eq consistency: cmp({x},{y})={:?} but == is {}", x.cmp(y), x == y));
        }
        if let Some(p) = x.partial_cmp(y) {
            if p != x.cmp(y) {
                return Err(format!("partial_cmp({x},{y})={p:?} disagrees with cmp={:?}", x.cmp(y)));
            }
        }
        if x == y && hv(x) != hv(y) {
            return Err(format!("hash: {x} == {y} but their hashes differ"));
        }
    }
    if a == b && b == c && a != c {
        return Err(format!("transitivity of ==: {a} == {b} == {c} but {a} != {c}"));
    }
    // transitivity of <= over all orders of the triple
    let t = [a, b, c];
    for p in [[0, 1, 2], [0, 2, 1], [1, 0, 2], [1, 2, 0], [2, 0, 1], [2, 1, 0]] {
        let (x, y, z) = (t[p[0]], t[p[1]], t[p[2]]);
        if x.cmp(y) != Ordering::Greater && y.cmp(z) != Ordering::Greater && x.cmp(z) == Ordering::Greater {
            return Err(format!("transitivity of cmp: {x} <= {y} <= {z} but {x} > {z}"));
        }
    }
    Ok(())
}

pub fn c08_case(src: &mut Src, obs: &mut Obs) -> CaseResult {
    let gv = cfg!(feature = "gvariant");
    let so = SigOpts { maybe: gv, fd: true, variant: true, max_depth: 4 };
    let vo = ValOpts::default();
    let (s, a) = gen_typed(src, &so, &vo);
    // b, c: twins, near misses or fresh values of the same type
    let mut derive = |src: &mut Src, from: &RVal| -> RVal {
        match src.weighted(&[3, 4, 2]) {
            0 => from.clone(),
            1 => tweak(src, from),
            _ => {
                let mut fuel = 12;
                gen_val(src, &s, &vo, &so, &mut fuel)
            }
        }
    };
    let b = derive(src, &a);
    let c = if src.bool() { derive(src, &b) } else { derive(src, &a) };
    let za = to_value(&a).map_err(|e| Failure::new(e.0))?;
    let zb = to_value(&b).map_err(|e| Failure::new(e.0))?;
    let zc = to_value(&c).map_err(|e| Failure::new(e.0))?;
    for cl in sig_classes(&s) {
        obs.label(cl);
    }
    let nan = has_nan(&a) || has_nan(&b) || has_nan(&c);
    if nan {
        obs.label("has-nan");
    }
    if let Err(m) = laws(&za, &zb, &zc) {
        let msg = format!("{m}  [type {}]", s.to_string());
        if nan {
            // classifier: law-abiding once every NaN is replaced by 1.0
            let (a2, b2, c2) = (denan(&a), denan(&b), denan(&c));
            let (x, y, z) = (to_value(&a2).unwrap(), to_value(&b2).unwrap(), to_value(&c2).unwrap());
            if laws(&x, &y, &z).is_ok() {
                return Err(Failure::keyed("value-nan-breaks-eq-laws", msg));
            }
        }
        return Err(Failure::new(msg));
    }
    // twins of a
    let sig_a = za.value_signature().to_string();
    vensure_sig(&sig_a, &s)?;
    let fd = has_fd(&a);
    let clone = za.try_clone().map_err(|e| Failure::new(format!("try_clone failed: {e}")))?;
    let owned = za.try_to_owned().map_err(|e| Failure::new(format!("try_to_owned failed: {e}")))?;
    let owned_back: Value<'_> = owned.try_clone().map_err(|e| Failure::new(format!("OwnedValue::try_clone failed: {e}")))?.into();
    let twins: [(&str, &Value<'_>); 2] = [("try_clone", &clone), ("try_to_owned", &owned_back)];
    for (how, t) in twins {
        if t.value_signature().to_string() != sig_a {
            return Err(Failure::new(format!("{how} changed the signature: {} -> {}", sig_a, t.value_signature())));
        }
        // structural identity (bitwise f64; fds by the open file they refer to)
        let back = from_value(t).map_err(|e| Failure::new(e.0))?;
        if !back.eq_unordered(&a) {
            return Err(Failure::new(format!("{how} changed the value: {} -> {}", a.show(), back.show())));
        }
        if *t != za {
            let msg = format!("{how} of {} is not == the original", a.show());
            if has_nan(&a) {
                return Err(Failure::keyed("value-nan-breaks-eq-laws", msg));
            }
            if fd {
                // classifier: equal again once every fd leaf is replaced by an integer
                return Err(Failure::keyed("value-fd-copy-compares-by-number", msg));
            }
            return Err(Failure::new(msg));
        }
        if hv(t) != hv(&za) {
            return Err(Failure::new(format!("{how} of {} hashes differently", a.show())));
        }
    }
    // the reported signature is the one written when the value is encoded (as a variant)
    // (a maybe can only be written in GVariant format)
    let has_maybe = s.contains(&|x| matches!(x, RSig::M(_))) || a.any(&|x| matches!(x, RVal::V(b) if b.0.contains(&|y| matches!(y, RSig::M(_)))));
    let enc = encode(Format::DBus_or(gv, has_maybe, src), false, 0, &za, Route::Variant);
    if let Ok(enc) = enc {
        if let Some(wire) = wire_variant_signature(&enc.bytes, enc.data.context().format()) {
            if wire != sig_a {
                return Err(Failure::new(format!("value_signature() is {sig_a:?} but the encoded variant carries {wire:?}")));
            }
        }
    }
    if a.depth() >= 2 && (s.contains(&|x| matches!(x, RSig::D | RSig::Dict(..)))) {
        let mut k = s.to_string().into_bytes();
        k.extend_from_slice(a.show().as_bytes());
        k.extend_from_slice(b.show().as_bytes());
        k.extend_from_slice(c.show().as_bytes());
        obs.nontrivial(fnv(&k));
        obs.sample(if nan { "with-nan" } else { "plain" }, || format!("type={} a={} b={} c={}", s.to_string(), a.show(), b.show(), c.show()));
    }
    Ok(())
}

fn vensure_sig(reported: &str, s: &RSig) -> Result<(), Failure> {
    if reported != s.to_string() {
        return Err(Failure::new(format!("value_signature() reports {reported:?} for a value built with type {:?}", s.to_string())));
    }
    Ok(())
}

trait FormatPick {
    #[allow(non_snake_case)]
    fn DBus_or(gv: bool, force_gv: bool, src: &mut Src) -> Format;
}
impl FormatPick for Format {
    fn DBus_or(gv: bool, force_gv: bool, src: &mut Src) -> Format {
        let _ = (gv, force_gv, &src);
        #[cfg(feature = "gvariant")]
        if gv && (force_gv || src.bool()) {
            return Format::GVariant;
        }
        Format::DBus
    }
}

/// the signature string stored in an encoded variant (D-Bus: leading, GVariant: trailing)
fn wire_variant_signature(bytes: &[u8], fmt: Format) -> Option<String> {
    match fmt {
        Format::DBus => {
            let n = *bytes.first()? as usize;
            std::str::from_utf8(bytes.get(1..1 + n)?).ok().map(|s| s.to_string())
        }
        #[cfg(feature = "gvariant")]
        Format::GVariant => {
            let p = bytes.iter().rposition(|b| *b == 0)?;
            std::str::from_utf8(&bytes[p + 1..]).ok().map(|s| s.to_string())
        }
    }
}

// ------------------------------------------------------------------------------------------------
// construction routes: the same collection handed over by value, as a slice and by reference must
// give one and the same dynamic value (equal, same signature, same hash, same bytes)

fn routes<T>(name: &str, esig: &str, items: Vec<T>, want: &RVal, obs: &mut Obs) -> CaseResult
where
    T: zvariant::Type + Into<Value<'static>> + Clone + std::fmt::Debug,
{
    use zvariant::Array;
    let by_value = Value::Array(Array::from(items.clone()));
    let by_slice = Value::Array(Array::from(&items[..]));
    let by_ref = Value::Array(Array::from(&items));
    let by_new = Value::new(items.clone());
    let by_new_ref = Value::new(&items[..]);
    let want_sig = format!("a{esig}");
    let all = [("Array::from(Vec)", &by_value), ("Array::from(&[T])", &by_slice), ("Array::from(&Vec)", &by_ref), ("Value::new(Vec)", &by_new), ("Value::new(&[T])", &by_new_ref)];
    let refbytes = vcore::refmodel::dbus::marshal(&RVal::V(Box::new((want.sig(), want.clone()))), false, 0).bytes;
    for (how, v) in all {
        let describe = || format!("{how} of {name} {items:?}");
        if v.value_signature().to_string() != want_sig {
            return Err(Failure::new(format!("reports signature {} instead of {want_sig}; {}", v.value_signature(), describe())));
        }
        if *v != by_value || hv(v) != hv(&by_value) || v.cmp(&by_value) != Ordering::Equal {
            return Err(Failure::new(format!("differs from the value built from the owned vector ({:?} vs {:?}); {}", v, by_value, describe())));
        }
        let r = from_value(v).map_err(|e| Failure::new(e.0))?;
        if !r.eq_unordered(want) {
            return Err(Failure::new(format!("holds {} instead of {}; {}", r.show(), want.show(), describe())));
        }
        let enc = zvariant::to_bytes(ctx(Format::DBus, false, 0), v).map_err(|e| Failure::new(format!("does not encode: {e}; {}", describe())))?;
        if enc.bytes() != &refbytes[..] {
            return Err(Failure::new(format!("encodes to {} instead of {}; {}", vcore::src::hex(enc.bytes()), vcore::src::hex(&refbytes), describe())));
        }
    }
    obs.label(&format!("routes:{name}"));
    obs.nontrivial(fnv(format!("{name}{items:?}").as_bytes()));
    obs.sample("construction-routes", || format!("Vec<{name}> {items:?}"));
    Ok(())
}

pub fn c08_routes_case(src: &mut Src, obs: &mut Obs) -> CaseResult {
    let n = src.below(4);
    match src.below(6) {
        0 => {
            let items: Vec<u8> = (0..n).map(|_| gen_u64(src) as u8).collect();
            let want = RVal::A(RSig::Y, items.iter().map(|x| RVal::Y(*x)).collect());
            routes("u8", "y", items, &want, obs)
        }
        1 => {
            let items: Vec<u32> = (0..n).map(|_| gen_u64(src) as u32).collect();
            let want = RVal::A(RSig::U, items.iter().map(|x| RVal::U(*x)).collect());
            routes("u32", "u", items, &want, obs)
        }
        2 => {
            let items: Vec<String> = (0..n).map(|_| gen_string(src)).collect();
            let want = RVal::A(RSig::S, items.iter().map(|x| RVal::S(x.clone())).collect());
            routes("String", "s", items, &want, obs)
        }
        3 => {
            let items: Vec<(u8, u64)> = (0..n).map(|_| (src.u8(), gen_u64(src))).collect();
            let want = RVal::A(RSig::St(vec![RSig::Y, RSig::T]), items.iter().map(|x| RVal::St(vec![RVal::Y(x.0), RVal::T(x.1)])).collect());
            routes("(u8, u64)", "(yt)", items, &want, obs)
        }
        4 => {
            let items: Vec<Vec<u16>> = (0..n).map(|_| (0..src.below(3)).map(|_| src.u16()).collect()).collect();
            let want = RVal::A(RSig::A(Box::new(RSig::Q)), items.iter().map(|x| RVal::A(RSig::Q, x.iter().map(|y| RVal::Q(*y)).collect())).collect());
            routes("Vec<u16>", "aq", items, &want, obs)
        }
        _ => {
            // elements that are dynamic values themselves (signature "av"), also a value holding a value
            let mut items: Vec<Value<'static>> = vec![];
            let mut want = vec![];
            for _ in 0..n {
                let (z, r) = match src.below(4) {
                    0 => {
                        let x = gen_u64(src) as u32;
                        (Value::U32(x), RVal::V(Box::new((RSig::U, RVal::U(x)))))
                    }
                    1 => {
                        let s = gen_string(src);
                        (Value::from(s.clone()), RVal::V(Box::new((RSig::S, RVal::S(s)))))
                    }
                    2 => {
                        let x = src.u8();
                        (Value::Value(Box::new(Value::U8(x))), RVal::V(Box::new((RSig::V, RVal::V(Box::new((RSig::Y, RVal::Y(x))))))))
                    }
                    _ => (Value::from(vec![1u8, 2]), RVal::V(Box::new((RSig::A(Box::new(RSig::Y)), RVal::A(RSig::Y, vec![RVal::Y(1), RVal::Y(2)]))))),
                };
                items.push(z);
                want.push(r);
            }
            let want = RVal::A(RSig::V, want);
            routes("Value", "v", items, &want, obs)
        }
    }
}
