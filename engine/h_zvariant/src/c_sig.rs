//! C06: signature grammar — exhaustive enumeration + limit cases against refmodel::sig.

use crate::bridge::*;
use std::collections::hash_map::DefaultHasher;
use std::hash::{Hash, Hasher};
use std::str::FromStr;
use vcore::refmodel::sig::{self, ParseOpts, RSig, Verdict};
use vcore::run::{CaseResult, Failure, Obs};
use vcore::src::Src;
use vcore::{vensure, vfail};
use zvariant::Signature;

pub const SIGMA21: &[u8] = b"ybnqiuxtdsgovha(){}mz";
pub const SIGMA10: &[u8] = b"ysva(){}mz";

/// number of strings over an alphabet of k symbols with length <= l
pub fn count_upto(k: u64, l: u32) -> u64 {
    (0..=l).map(|i| k.pow(i)).sum()
}

/// idx -> string (shortlex order)
pub fn nth_string(alpha: &[u8], mut idx: u64) -> Vec<u8> {
    let k = alpha.len() as u64;
    let mut len = 0u32;
    loop {
        let n = k.pow(len);
        if idx < n {
            break;
        }
        idx -= n;
        len += 1;
    }
    let mut out = vec![0u8; len as usize];
    for i in (0..len as usize).rev() {
        out[i] = alpha[(idx % k) as usize];
        idx /= k;
    }
    out
}

fn h<T: Hash>(t: &T) -> u64 {
    let mut s = DefaultHasher::new();
    t.hash(&mut s);
    s.finish()
}

fn leak(s: Signature) -> &'static Signature {
    Box::leak(Box::new(s))
}

/// the same signature built only from the `static_*` constructors (leaks; used on a sample)
fn to_sig_static(s: &RSig) -> Signature {
    match s {
        RSig::A(c) => Signature::static_array(leak(to_sig_static(c))),
        RSig::Dict(k, v) => Signature::static_dict(leak(to_sig_static(k)), leak(to_sig_static(v))),
        RSig::St(f) => {
            let v: Vec<&'static Signature> = f.iter().map(|x| leak(to_sig_static(x))).collect();
            Signature::static_structure(Box::leak(v.into_boxed_slice()))
        }
        #[cfg(feature = "gvariant")]
        RSig::M(c) => Signature::static_maybe(leak(to_sig_static(c))),
        other => to_sig(other),
    }
}

pub fn c06_one(src: &mut Src, obs: &mut Obs) -> CaseResult {
    let bytes = src.rest().to_vec();
    let shown = String::from_utf8_lossy(&bytes).to_string();
    let maybe = cfg!(feature = "gvariant");
    let verdict = sig::parse(&bytes, &ParseOpts { maybe, limits: true });
    let z = Signature::try_from(&bytes[..]);
    let zv = zvariant_utils::signature::validate(&bytes);
    vensure!(z.is_ok() == zv.is_ok(), "validate() and try_from() disagree on {shown:?}: validate={:?} parse ok={}", zv, z.is_ok());
    if let Ok(st) = std::str::from_utf8(&bytes) {
        let z2 = Signature::from_str(st);
        vensure!(z2.is_ok() == z.is_ok(), "from_str and try_from(&[u8]) disagree on {shown:?}");
    }
    match verdict {
        Verdict::Grey(_) => {
            obs.label("grey-skipped");
            Ok(())
        }
        Verdict::Reject(r) => {
            if z.is_ok() {
                vfail!("zvariant accepts {shown:?} which the D-Bus grammar rejects ({r:?})");
            }
            obs.label(&format!("reject:{r:?}"));
            if r.semantic() {
                obs.nontrivial_enumerated();
                obs.sample(&format!("reject-{r:?}"), || format!("{shown:?} rejected: {r:?}"));
            }
            Ok(())
        }
        Verdict::Accept(seq) => {
            let z = match z {
                Ok(z) => z,
                Err(e) => vfail!("zvariant rejects the valid signature {shown:?}: {e}"),
            };
            let s = shown.as_str();
            let ts = z.to_string();
            let expect = if seq.len() >= 2 { format!("({s})") } else { s.to_string() };
            vensure!(ts == expect, "to_string() of parsed {s:?} is {ts:?}, expected {expect:?}");
            vensure!(format!("{z}") == ts, "Display and to_string differ for {s:?}");
            vensure!(z.string_len() == ts.len(), "string_len()={} but to_string() has {} bytes for {s:?}", z.string_len(), ts.len());
            let np = z.to_string_no_parens();
            let expect_np = match (&seq[..], seq.len()) {
                ([RSig::St(_)], 1) => s[1..s.len() - 1].to_string(),
                _ => s.to_string(),
            };
            vensure!(np == expect_np, "to_string_no_parens() of {s:?} is {np:?}, expected {expect_np:?}");
            // equal signatures in other representations
            let built = to_sig_seq(&seq);
            vensure!(z == built, "parsed {s:?} != the same signature built with the dynamic constructors ({built:?})");
            vensure!(built == z, "equality not symmetric for {s:?}");
            vensure!(h(&z) == h(&built), "equal signatures hash differently (parsed vs dynamic) for {s:?}");
            vensure!(z.cmp(&built) == std::cmp::Ordering::Equal, "cmp(parsed, dynamic) != Equal for {s:?}");
            vensure!(z == ts.as_str(), "Signature {s:?} != its own string {ts:?} (PartialEq<&str>)");
            let has_container = bytes.iter().any(|c| matches!(c, b'a' | b'(' | b'm' | b'v'));
            if has_container && (h(&bytes) % 16 == 0 || bytes.len() > 12) {
                let st = if seq.len() == 1 { to_sig_static(&seq[0]) } else { to_sig_static(&RSig::St(seq.clone())) };
                vensure!(z == st && st == built, "parsed/dynamic {s:?} != the same signature built with static_* constructors");
                vensure!(h(&z) == h(&st), "equal signatures hash differently (parsed vs static) for {s:?}");
                vensure!(z.cmp(&st) == std::cmp::Ordering::Equal && st.cmp(&built) == std::cmp::Ordering::Equal, "cmp with static representation != Equal for {s:?}");
                vensure!(st.to_string() == ts && st.string_len() == ts.len(), "static representation prints differently for {s:?}");
                obs.label("static-representation-compared");
            }
            // re-parse of the printed form is the same signature
            let back = Signature::from_str(&ts).map_err(|e| Failure::new(format!("printed form {ts:?} of {s:?} does not parse: {e}")));
            if ts.len() <= 255 {
                let back = back?;
                vensure!(back == z, "parse(print({s:?})) differs");
            }
            obs.label("accept");
            if has_container {
                obs.nontrivial_enumerated();
                obs.sample("accept-container", || format!("{s:?} accepted, prints {ts:?}"));
            }
            Ok(())
        }
    }
}

/// generated limit cases: lengths 254..257, depths 31..34, dict keys of every kind
pub fn limit_cases() -> Vec<Vec<u8>> {
    let mut v: Vec<String> = vec![];
    for n in 250..=260usize {
        v.push("y".repeat(n));
        v.push(format!("({})", "i".repeat(n.saturating_sub(2))));
        v.push(format!("a{{s{}}}", "v".repeat(1)).repeat(n / 5) + &"y".repeat(n % 5));
        v.push(format!("{}a{{sv}}", "t".repeat(n.saturating_sub(5))));
    }
    for d in 29..=35usize {
        v.push(format!("{}y", "a".repeat(d)));
        v.push(format!("{}y{}", "(".repeat(d), ")".repeat(d)));
        v.push(format!("{}{}y{}", "a".repeat(d), "(".repeat(d), ")".repeat(d)));
        // alternating a( a( ...
        v.push(format!("{}y{}", "a(".repeat(d), ")".repeat(d)));
        // dict nesting: a{s a{s ... y}}
        v.push(format!("{}y{}", "a{s".repeat(d), "}".repeat(d)));
        // structs inside dict values
        v.push(format!("{}y{}", "a{s(".repeat(d), ")}".repeat(d)));
        // deep but in the second member
        v.push(format!("(y{}y{})", "(".repeat(d), ")".repeat(d)));
        v.push(format!("yy{}y", "a".repeat(d)));
        #[cfg(feature = "gvariant")]
        {
            v.push(format!("{}y", "m".repeat(d)));
            v.push(format!("{}y", "ma".repeat(d)));
        }
    }
    for k in ["v", "ay", "(y)", "a{ss}", "(ss)", "as", "vv", "", "y", "s", "o", "g", "h", "d", "b", "my"] {
        v.push(format!("a{{{k}s}}"));
        v.push(format!("a{{{k}}}"));
        v.push(format!("a{{{k}sy}}"));
        v.push(format!("(a{{{k}v}})"));
        v.push(format!("{{{k}s}}"));
        v.push(format!("aa{{{k}a{{{k}s}}}}"));
    }
    v.into_iter().map(|s| s.into_bytes()).collect()
}
