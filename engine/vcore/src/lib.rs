pub mod fuzz;
pub mod gen;
pub mod harness;
pub mod run;
pub mod src;
pub mod refmodel {
    pub mod addr;
    pub mod dbus;
    pub mod gv;
    pub mod matchrule;
    pub mod msg;
    pub mod names;
    pub mod sasl;
    pub mod sig;
    pub mod val;
    pub mod xml;
}
pub use run::{CaseResult, Failure, Obs, Run};
pub use src::Src;
