//! Shared main() scaffolding of the harness binaries.

use crate::run::{CaseFn, CaseResult, Obs, Run};
use crate::src::Src;

pub struct Spec {
    pub name: &'static str,
    pub f: Box<dyn Fn(&mut Src, &mut Obs) -> CaseResult + Sync>,
    pub quick: u64,
    pub thorough: u64,
    pub max_len: usize,
    /// run by a custom driver (enumeration) instead of a random campaign
    pub custom: bool,
    /// worker threads (0 = all)
    pub threads: usize,
}

pub fn spec(name: &'static str, quick: u64, thorough: u64, max_len: usize, f: impl Fn(&mut Src, &mut Obs) -> CaseResult + Sync + 'static) -> Spec {
    Spec { name, f: Box::new(f), quick, thorough, max_len, custom: false, threads: 0 }
}
pub fn custom(name: &'static str, f: impl Fn(&mut Src, &mut Obs) -> CaseResult + Sync + 'static) -> Spec {
    Spec { name, f: Box::new(f), quick: 0, thorough: 0, max_len: 0, custom: true, threads: 0 }
}

pub struct Args {
    pub id: String,
    pub tier: String,
    pub replay: Option<String>,
}

pub fn parse_args(bin: &str) -> Args {
    let args: Vec<String> = std::env::args().collect();
    if args.len() < 2 {
        eprintln!("usage: {bin} <ID> [--tier quick|thorough] [--replay FILE]");
        std::process::exit(2);
    }
    let mut a = Args { id: args[1].clone(), tier: crate::run::env_tier(), replay: None };
    let mut i = 2;
    while i < args.len() {
        match args[i].as_str() {
            "--tier" => {
                a.tier = args[i + 1].clone();
                i += 1
            }
            "--replay" => {
                a.replay = Some(args[i + 1].clone());
                i += 1
            }
            _ => {}
        }
        i += 1;
    }
    a
}

/// replay (if asked) -> committed replays -> random campaigns; custom drivers run afterwards by the caller
pub fn standard_flow(run: &mut Run, specs: &[Spec], replay: &Option<String>) {
    if let Some(p) = replay {
        let checks: Vec<(&str, CaseFn)> = specs.iter().map(|s| (s.name, &*s.f as CaseFn)).collect();
        run.replay_file(std::path::Path::new(p), &checks);
        return;
    }
    for s in specs {
        run.replay_committed(s.name, &*s.f);
    }
    for s in specs {
        if s.custom {
            continue;
        }
        let n = run.pick(s.quick, s.thorough);
        if s.threads == 0 {
            run.campaign(s.name, n, s.max_len, &*s.f);
        } else {
            run.campaign_t(s.name, n, s.max_len, s.threads, &*s.f);
        }
    }
}
