//! Reference GVariant serialiser (normal form), written from the GVariant specification
//! ("Serialisation Format"). Shares no code with zvariant.
//!
//! Every value is serialised into its own buffer assuming it starts at a position aligned for its
//! type; the parent inserts the alignment padding. (A container's alignment is the maximum of its
//! children's, so this is equivalent to absolute alignment.)

use super::sig::RSig;
use super::val::RVal;

pub fn align(s: &RSig) -> usize {
    match s {
        RSig::Y | RSig::B | RSig::S | RSig::O | RSig::G => 1,
        RSig::N | RSig::Q => 2,
        RSig::I | RSig::U | RSig::H => 4,
        RSig::X | RSig::T | RSig::D | RSig::V => 8,
        RSig::A(c) | RSig::M(c) => align(c),
        RSig::Dict(k, v) => align(k).max(align(v)),
        RSig::St(f) => f.iter().map(align).max().unwrap_or(1),
    }
}

/// Some(size) for fixed-size types
pub fn fixed_size(s: &RSig) -> Option<usize> {
    match s {
        RSig::Y | RSig::B => Some(1),
        RSig::N | RSig::Q => Some(2),
        RSig::I | RSig::U | RSig::H => Some(4),
        RSig::X | RSig::T | RSig::D => Some(8),
        RSig::S | RSig::O | RSig::G | RSig::V | RSig::A(_) | RSig::M(_) | RSig::Dict(..) => None,
        RSig::St(f) => {
            if f.is_empty() {
                return Some(1);
            }
            let mut pos = 0usize;
            for x in f {
                let sz = fixed_size(x)?;
                let a = align(x);
                pos = (pos + a - 1) / a * a;
                pos += sz;
            }
            let a = align(s);
            Some((pos + a - 1) / a * a)
        }
    }
}

/// deviation switches used to attribute a mismatch to a known finding
#[derive(Clone, Copy, Default, Debug, PartialEq, Eq)]
pub struct Dev {
    /// booleans written as 4 bytes with alignment 4 (D-Bus layout)
    pub bool_u32: bool,
    /// no trailing padding at the end of fixed-size structures
    pub no_fixed_struct_tail_pad: bool,
    /// framing offset width chosen from the body size only (not counting the offsets themselves)
    pub offset_width_ignores_table: bool,
}

pub struct Ser {
    pub big: bool,
    pub dev: Dev,
    /// wire index of fd handles (first occurrence)
    pub fds: Vec<u32>,
    pub fd_literal: bool,
    /// reuse the wire index when the same handle occurs again
    pub fd_dedupe: bool,
}

fn pad_to(buf: &mut Vec<u8>, a: usize) {
    while buf.len() % a != 0 {
        buf.push(0);
    }
}

pub fn offset_width(body: usize, n: usize) -> usize {
    if n == 0 {
        return 1;
    }
    if body + n <= 0xff {
        1
    } else if body + 2 * n <= 0xffff {
        2
    } else if body + 4 * n <= 0xffff_ffff {
        4
    } else {
        8
    }
}

fn write_offsets(buf: &mut Vec<u8>, offs: &[usize], dev: &Dev) {
    if offs.is_empty() {
        return;
    }
    let w = if dev.offset_width_ignores_table {
        if buf.len() <= 0xff {
            1
        } else if buf.len() <= 0xffff {
            2
        } else {
            4
        }
    } else {
        offset_width(buf.len(), offs.len())
    };
    for o in offs {
        let b = (*o as u64).to_le_bytes();
        buf.extend_from_slice(&b[..w]);
    }
}

impl Ser {
    pub fn new(big: bool) -> Ser {
        Ser { big, dev: Dev::default(), fds: vec![], fd_literal: false, fd_dedupe: true }
    }
    fn al(&self, s: &RSig) -> usize {
        if self.dev.bool_u32 {
            match s {
                RSig::B => 4,
                RSig::A(c) | RSig::M(c) => self.al(c),
                RSig::Dict(k, v) => self.al(k).max(self.al(v)),
                RSig::St(f) => f.iter().map(|x| self.al(x)).max().unwrap_or(1),
                _ => align(s),
            }
        } else {
            align(s)
        }
    }
    fn fixed(&self, s: &RSig) -> Option<usize> {
        match s {
            RSig::B if self.dev.bool_u32 => Some(4),
            RSig::St(f) if !f.is_empty() => {
                let mut pos = 0usize;
                for x in f {
                    let sz = self.fixed(x)?;
                    let a = self.al(x);
                    pos = (pos + a - 1) / a * a;
                    pos += sz;
                }
                if self.dev.no_fixed_struct_tail_pad {
                    Some(pos)
                } else {
                    let a = self.al(s);
                    Some((pos + a - 1) / a * a)
                }
            }
            _ => fixed_size(s),
        }
    }
    fn num(&self, out: &mut Vec<u8>, v: u64, n: usize) {
        if self.big {
            out.extend_from_slice(&v.to_be_bytes()[8 - n..]);
        } else {
            out.extend_from_slice(&v.to_le_bytes()[..n]);
        }
    }

    pub fn value(&mut self, v: &RVal) -> Vec<u8> {
        let mut out = vec![];
        match v {
            RVal::Y(x) => out.push(*x),
            RVal::B(x) => {
                if self.dev.bool_u32 {
                    self.num(&mut out, *x as u64, 4)
                } else {
                    out.push(*x as u8)
                }
            }
            RVal::N(x) => self.num(&mut out, *x as u16 as u64, 2),
            RVal::Q(x) => self.num(&mut out, *x as u64, 2),
            RVal::I(x) => self.num(&mut out, *x as u32 as u64, 4),
            RVal::U(x) => self.num(&mut out, *x as u64, 4),
            RVal::X(x) => self.num(&mut out, *x as u64, 8),
            RVal::T(x) => self.num(&mut out, *x, 8),
            RVal::D(x) => self.num(&mut out, *x, 8),
            RVal::H(h) => {
                let idx = if self.fd_literal {
                    *h as usize
                } else if let (true, Some(i)) = (self.fd_dedupe, self.fds.iter().position(|x| x == h)) {
                    i
                } else {
                    self.fds.push(*h);
                    self.fds.len() - 1
                };
                self.num(&mut out, idx as u64, 4)
            }
            RVal::S(s) | RVal::O(s) | RVal::G(s) => {
                out.extend_from_slice(s.as_bytes());
                out.push(0);
            }
            RVal::V(b) => {
                out = self.value(&b.1);
                out.push(0);
                out.extend_from_slice(b.0.to_string().as_bytes());
            }
            RVal::M(c, x) => {
                if let Some(x) = x {
                    out = self.value(x);
                    if self.fixed(c).is_none() {
                        out.push(0);
                    }
                }
            }
            RVal::A(elem, items) => {
                let a = self.al(elem);
                if self.fixed(elem).is_some() {
                    for it in items {
                        pad_to(&mut out, a);
                        let b = self.value(it);
                        out.extend_from_slice(&b);
                    }
                } else {
                    let mut offs = vec![];
                    for it in items {
                        pad_to(&mut out, a);
                        let b = self.value(it);
                        out.extend_from_slice(&b);
                        offs.push(out.len());
                    }
                    write_offsets(&mut out, &offs, &self.dev);
                }
            }
            RVal::Dict(k, vs, entries) => {
                let es = RSig::St(vec![k.clone(), vs.clone()]);
                let a = self.al(&es);
                let fixed = self.fixed(&es).is_some();
                let mut offs = vec![];
                for (kk, vv) in entries {
                    pad_to(&mut out, a);
                    let b = self.value(&RVal::St(vec![kk.clone(), vv.clone()]));
                    out.extend_from_slice(&b);
                    offs.push(out.len());
                }
                if !fixed {
                    write_offsets(&mut out, &offs, &self.dev);
                }
            }
            RVal::St(fields) => {
                if fields.is_empty() {
                    return vec![0];
                }
                let sig = v.sig();
                let mut offs = vec![];
                let n = fields.len();
                for (i, f) in fields.iter().enumerate() {
                    let fs = f.sig();
                    pad_to(&mut out, self.al(&fs));
                    let b = self.value(f);
                    out.extend_from_slice(&b);
                    if self.fixed(&fs).is_none() && i + 1 != n {
                        offs.push(out.len());
                    }
                }
                if self.fixed(&sig).is_some() {
                    if !self.dev.no_fixed_struct_tail_pad {
                        pad_to(&mut out, self.al(&sig));
                    }
                } else {
                    offs.reverse();
                    write_offsets(&mut out, &offs, &self.dev);
                }
            }
        }
        out
    }
}

/// Serialise `v` at absolute position `offset`: leading zero padding up to the type's alignment,
/// then the normal form.
pub fn serialize(v: &RVal, big: bool, offset: usize, dev: Dev) -> (Vec<u8>, Vec<u32>) {
    serialize_fd(v, big, offset, dev, true)
}

pub fn serialize_fd(v: &RVal, big: bool, offset: usize, dev: Dev, fd_dedupe: bool) -> (Vec<u8>, Vec<u32>) {
    let mut s = Ser::new(big);
    s.fd_dedupe = fd_dedupe;
    s.dev = dev;
    let body = s.value(v);
    let a = s.al(&v.sig());
    let mut out = vec![];
    while (offset + out.len()) % a != 0 {
        out.push(0);
    }
    out.extend_from_slice(&body);
    (out, s.fds)
}

#[cfg(test)]
mod tests {
    use super::*;
    fn s(v: &RVal) -> Vec<u8> {
        serialize(v, false, 0, Dev::default()).0
    }
    #[test]
    fn spec_examples() {
        // examples from the GVariant specification, section 2.6
        // string "hello world"
        assert_eq!(s(&RVal::S("hello world".into())), b"hello world\0".to_vec());
        // maybe string: Just "hello world"
        assert_eq!(s(&RVal::M(RSig::S, Some(Box::new(RVal::S("hello world".into()))))), b"hello world\0\0".to_vec());
        // array of booleans
        assert_eq!(s(&RVal::A(RSig::B, vec![RVal::B(true), RVal::B(false), RVal::B(false), RVal::B(true), RVal::B(true)])), vec![1, 0, 0, 1, 1]);
        // structure ('foo', -1) type (si)
        assert_eq!(s(&RVal::St(vec![RVal::S("foo".into()), RVal::I(-1)])), vec![b'f', b'o', b'o', 0, 0xff, 0xff, 0xff, 0xff, 4]);
        // array of structures [(i,s)]: [(257,'hi'),(258,'bye')]... spec uses a(si): [('hi', -2), ('bye', -1)]
        let v = RVal::A(
            RSig::St(vec![RSig::S, RSig::I]),
            vec![RVal::St(vec![RVal::S("hi".into()), RVal::I(-2)]), RVal::St(vec![RVal::S("bye".into()), RVal::I(-1)])],
        );
        assert_eq!(
            s(&v),
            vec![b'h', b'i', 0, 0, 0xfe, 0xff, 0xff, 0xff, 3, 0, 0, 0, b'b', b'y', b'e', 0, 0xff, 0xff, 0xff, 0xff, 4, 9, 21]
        );
        // array of strings ['i','can','has','strings?']
        let v = RVal::A(RSig::S, ["i", "can", "has", "strings?"].iter().map(|x| RVal::S(x.to_string())).collect());
        let mut exp = b"i\0can\0has\0strings?\0".to_vec();
        exp.extend_from_slice(&[2, 6, 10, 19]);
        assert_eq!(s(&v), exp);
        // nested structure ((ys)as): ((ord 'i', 'can'), ['has', 'strings?'])
        let v = RVal::St(vec![
            RVal::St(vec![RVal::Y(b'i'), RVal::S("can".into())]),
            RVal::A(RSig::S, vec![RVal::S("has".into()), RVal::S("strings?".into())]),
        ]);
        let mut exp = vec![b'i'];
        exp.extend_from_slice(b"can\0");
        exp.extend_from_slice(b"has\0strings?\0");
        exp.extend_from_slice(&[4, 13, 5]);
        assert_eq!(s(&v), exp);
        // simple structure (yy) (0x70, 0x80)
        assert_eq!(s(&RVal::St(vec![RVal::Y(0x70), RVal::Y(0x80)])), vec![0x70, 0x80]);
        // padded structure (iy) (96, 0x70): 60 00 00 00 70 00 00 00
        assert_eq!(s(&RVal::St(vec![RVal::I(96), RVal::Y(0x70)])), vec![0x60, 0, 0, 0, 0x70, 0, 0, 0]);
        // (yi)
        assert_eq!(s(&RVal::St(vec![RVal::Y(0x70), RVal::I(96)])), vec![0x70, 0, 0, 0, 0x60, 0, 0, 0]);
        // array of (iy)
        let v = RVal::A(RSig::St(vec![RSig::I, RSig::Y]), vec![RVal::St(vec![RVal::I(96), RVal::Y(0x70)]), RVal::St(vec![RVal::I(648), RVal::Y(0xf7)])]);
        assert_eq!(s(&v), vec![0x60, 0, 0, 0, 0x70, 0, 0, 0, 0x88, 0x02, 0, 0, 0xf7, 0, 0, 0]);
        // array of bytes
        assert_eq!(s(&RVal::A(RSig::Y, vec![RVal::Y(4), RVal::Y(5), RVal::Y(6), RVal::Y(7)])), vec![4, 5, 6, 7]);
        // array of ints
        assert_eq!(s(&RVal::A(RSig::I, vec![RVal::I(4), RVal::I(258)])), vec![4, 0, 0, 0, 2, 1, 0, 0]);
        // dictionary entry {si} {'a key', 514}
        let v = RVal::St(vec![RVal::S("a key".into()), RVal::I(514)]);
        assert_eq!(s(&v), vec![b'a', b' ', b'k', b'e', b'y', 0, 0, 0, 2, 2, 0, 0, 6]);
        // variant of u32
        assert_eq!(s(&RVal::V(Box::new((RSig::U, RVal::U(7))))), vec![7, 0, 0, 0, 0, b'u']);
        // [[]] :: aay -> one element of size 0 with end offset 0
        assert_eq!(s(&RVal::A(RSig::A(Box::new(RSig::Y)), vec![RVal::A(RSig::Y, vec![])])), vec![0]);
    }
}
