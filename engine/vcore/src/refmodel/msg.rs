//! Reference D-Bus message builder / strict parser, from the "Message Format" chapter of the
//! D-Bus specification. Able to build invalid / unknown variants on purpose.

use super::dbus::{self, Depths, Enc, Rej, Role};
use super::names;
use super::sig::{self, RSig};
use super::val::RVal;

pub const F_PATH: u8 = 1;
pub const F_INTERFACE: u8 = 2;
pub const F_MEMBER: u8 = 3;
pub const F_ERROR_NAME: u8 = 4;
pub const F_REPLY_SERIAL: u8 = 5;
pub const F_DESTINATION: u8 = 6;
pub const F_SENDER: u8 = 7;
pub const F_SIGNATURE: u8 = 8;
pub const F_UNIX_FDS: u8 = 9;

pub const T_CALL: u8 = 1;
pub const T_RETURN: u8 = 2;
pub const T_ERROR: u8 = 3;
pub const T_SIGNAL: u8 = 4;

#[derive(Debug, Clone, PartialEq)]
pub struct RMsg {
    pub big: bool,
    pub mtype: u8,
    pub flags: u8,
    pub version: u8,
    pub serial: u32,
    /// (code, value) — the value is written as a variant of its own type
    pub fields: Vec<(u8, RVal)>,
    /// body arguments (their signature goes into field 8 unless `fields` already has one)
    pub body: Vec<RVal>,
}

#[derive(Debug, Clone, Copy, PartialEq, Eq)]
pub enum MRole {
    Endian,
    Type,
    Flags,
    Version,
    BodyLen,
    Serial,
    FieldsLen,
    FieldCode,
    FieldVal(Role),
    Pad,
    Body(Role),
}

pub struct Built {
    pub bytes: Vec<u8>,
    pub roles: Vec<MRole>,
    /// harness fd handles in wire order
    pub fds: Vec<u32>,
    pub body_offset: usize,
}

impl RMsg {
    pub fn new(mtype: u8, serial: u32) -> RMsg {
        RMsg { big: false, mtype, flags: 0, version: 1, serial, fields: vec![], body: vec![] }
    }
    pub fn field(mut self, code: u8, v: RVal) -> RMsg {
        self.fields.push((code, v));
        self
    }
    pub fn get(&self, code: u8) -> Option<&RVal> {
        self.fields.iter().find(|(c, _)| *c == code).map(|(_, v)| v)
    }
    pub fn get_str(&self, code: u8) -> Option<&str> {
        match self.get(code) {
            Some(RVal::S(s)) | Some(RVal::O(s)) | Some(RVal::G(s)) => Some(s),
            _ => None,
        }
    }
    pub fn body_signature(&self) -> String {
        let mut s = String::new();
        for b in &self.body {
            b.sig().write(&mut s);
        }
        s
    }

    /// Serialise. The SIGNATURE and UNIX_FDS fields are added automatically when the body needs
    /// them and they are not given explicitly.
    pub fn build(&self) -> Built {
        let mut fields = self.fields.clone();
        let bsig = self.body_signature();
        if !bsig.is_empty() && !fields.iter().any(|(c, _)| *c == F_SIGNATURE) {
            fields.push((F_SIGNATURE, RVal::G(bsig)));
        }
        // body first (to know its length and fds)
        let mut body = Enc::new(self.big, 0);
        for v in &self.body {
            body.value(v);
        }
        if !body.fds.is_empty() && !fields.iter().any(|(c, _)| *c == F_UNIX_FDS) {
            fields.push((F_UNIX_FDS, RVal::U(body.fds.len() as u32)));
        }
        let mut bytes = vec![];
        let mut roles = vec![];
        let push = |bytes: &mut Vec<u8>, roles: &mut Vec<MRole>, b: &[u8], r: MRole| {
            for x in b {
                bytes.push(*x);
                roles.push(r);
            }
        };
        let u32b = |v: u32| if self.big { v.to_be_bytes() } else { v.to_le_bytes() };
        push(&mut bytes, &mut roles, &[if self.big { b'B' } else { b'l' }], MRole::Endian);
        push(&mut bytes, &mut roles, &[self.mtype], MRole::Type);
        push(&mut bytes, &mut roles, &[self.flags], MRole::Flags);
        push(&mut bytes, &mut roles, &[self.version], MRole::Version);
        push(&mut bytes, &mut roles, &u32b(body.bytes.len() as u32), MRole::BodyLen);
        push(&mut bytes, &mut roles, &u32b(self.serial), MRole::Serial);
        // fields array a(yv) at offset 12
        let at = bytes.len();
        push(&mut bytes, &mut roles, &u32b(0), MRole::FieldsLen);
        let start = bytes.len(); // 16, 8-aligned
        for (code, v) in &fields {
            while bytes.len() % 8 != 0 {
                push(&mut bytes, &mut roles, &[0], MRole::Pad);
            }
            push(&mut bytes, &mut roles, &[*code], MRole::FieldCode);
            let mut e = Enc::new(self.big, bytes.len());
            e.value(&RVal::V(Box::new((v.sig(), v.clone()))));
            for (b, r) in e.bytes.iter().zip(e.roles.iter()) {
                bytes.push(*b);
                roles.push(MRole::FieldVal(*r));
            }
        }
        let flen = (bytes.len() - start) as u32;
        bytes[at..at + 4].copy_from_slice(&u32b(flen));
        while bytes.len() % 8 != 0 {
            push(&mut bytes, &mut roles, &[0], MRole::Pad);
        }
        let body_offset = bytes.len();
        for (b, r) in body.bytes.iter().zip(body.roles.iter()) {
            bytes.push(*b);
            roles.push(MRole::Body(*r));
        }
        Built { bytes, roles, fds: body.fds, body_offset }
    }
}

#[derive(Debug, Clone, PartialEq, Eq)]
pub enum MRej {
    TooShort,
    Endian,
    Type0,
    Version,
    Serial0,
    Fields(Rej),
    FieldCode0,
    FieldType(u8),
    FieldValue(u8),
    Padding,
    Length,
    TooLong,
    MissingField(u8),
    Body(Rej),
    FdCount,
    DuplicateField(u8),
}

#[derive(Debug, Clone, PartialEq)]
pub struct Parsed {
    pub msg: RMsg,
    pub body_offset: usize,
    pub body_len: usize,
    pub total_len: usize,
    pub unknown_fields: usize,
    pub unknown_flags: bool,
    pub unknown_type: bool,
}

fn field_type(code: u8) -> Option<RSig> {
    Some(match code {
        F_PATH => RSig::O,
        F_INTERFACE | F_MEMBER | F_ERROR_NAME | F_DESTINATION | F_SENDER => RSig::S,
        F_REPLY_SERIAL | F_UNIX_FDS => RSig::U,
        F_SIGNATURE => RSig::G,
        _ => return None,
    })
}

/// total length a header announces: (fields_len, body_len) -> total, from the first 16 bytes
pub fn announced_len(first16: &[u8]) -> Option<usize> {
    if first16.len() < 16 {
        return None;
    }
    let big = match first16[0] {
        b'l' => false,
        b'B' => true,
        _ => return None,
    };
    let rd = |b: &[u8]| {
        let a = [b[0], b[1], b[2], b[3]];
        if big {
            u32::from_be_bytes(a)
        } else {
            u32::from_le_bytes(a)
        }
    };
    let body = rd(&first16[4..8]) as usize;
    let fields = rd(&first16[12..16]) as usize;
    let hdr = 16 + fields;
    Some((hdr + 7) / 8 * 8 + body)
}

/// Strict parse of exactly one complete message.
pub fn parse(bytes: &[u8], nfds: usize) -> Result<Parsed, MRej> {
    if bytes.len() < 16 {
        return Err(MRej::TooShort);
    }
    let big = match bytes[0] {
        b'l' => false,
        b'B' => true,
        _ => return Err(MRej::Endian),
    };
    let mtype = bytes[1];
    if mtype == 0 {
        return Err(MRej::Type0);
    }
    let flags = bytes[2];
    if bytes[3] != 1 {
        return Err(MRej::Version);
    }
    let rd = |at: usize| {
        let a = [bytes[at], bytes[at + 1], bytes[at + 2], bytes[at + 3]];
        if big {
            u32::from_be_bytes(a)
        } else {
            u32::from_le_bytes(a)
        }
    };
    let body_len = rd(4) as usize;
    let serial = rd(8);
    if serial == 0 {
        return Err(MRej::Serial0);
    }
    let flen = rd(12) as usize;
    if flen > (1 << 26) {
        return Err(MRej::TooLong);
    }
    let total = (16 + flen + 7) / 8 * 8 + body_len;
    if total > (1 << 27) {
        return Err(MRej::TooLong);
    }
    if bytes.len() != total {
        return Err(MRej::Length);
    }
    // fields
    let mut d = dbus::Dec::new(bytes, big, 0, nfds);
    d.pos = 16;
    let end = 16 + flen;
    let mut fields = vec![];
    let mut unknown = 0;
    while d.pos < end {
        // struct alignment
        while d.pos % 8 != 0 {
            if d.pos >= end || bytes[d.pos] != 0 {
                return Err(MRej::Fields(Rej::Padding));
            }
            d.pos += 1;
        }
        if d.pos >= end {
            return Err(MRej::Fields(Rej::ArrayLen));
        }
        let code = bytes[d.pos];
        d.pos += 1;
        let v = d.value(&RSig::V, Depths { arrays: 1, structs: 1, variants: 0 }).map_err(MRej::Fields)?;
        if d.pos > end {
            return Err(MRej::Fields(Rej::ArrayLen));
        }
        let RVal::V(b) = v else { unreachable!() };
        if code == 0 {
            return Err(MRej::FieldCode0);
        }
        match field_type(code) {
            Some(t) => {
                if b.0 != t {
                    return Err(MRej::FieldType(code));
                }
                if fields.iter().any(|(c, _)| *c == code) {
                    return Err(MRej::DuplicateField(code));
                }
                // value grammar
                let ok = match (code, &b.1) {
                    (F_INTERFACE, RVal::S(s)) => names::interface_name(s.as_bytes()),
                    (F_MEMBER, RVal::S(s)) => names::member_name(s.as_bytes()),
                    (F_ERROR_NAME, RVal::S(s)) => names::error_name(s.as_bytes()),
                    (F_DESTINATION, RVal::S(s)) => names::bus_name(s.as_bytes()),
                    (F_SENDER, RVal::S(s)) => names::unique_name(s.as_bytes()) || s == "org.freedesktop.DBus",
                    (F_REPLY_SERIAL, RVal::U(n)) => *n != 0,
                    _ => true,
                };
                if !ok {
                    return Err(MRej::FieldValue(code));
                }
                fields.push((code, b.1.clone()));
            }
            None => {
                unknown += 1;
                fields.push((code, b.1.clone()));
            }
        }
    }
    // header padding
    let body_offset = (end + 7) / 8 * 8;
    for i in end..body_offset {
        if bytes[i] != 0 {
            return Err(MRej::Padding);
        }
    }
    let known_type = (1..=4).contains(&mtype);
    let has = |c: u8| fields.iter().any(|(x, _)| *x == c);
    let required: &[u8] = match mtype {
        T_CALL => &[F_PATH, F_MEMBER],
        T_SIGNAL => &[F_PATH, F_INTERFACE, F_MEMBER],
        T_ERROR => &[F_ERROR_NAME, F_REPLY_SERIAL],
        T_RETURN => &[F_REPLY_SERIAL],
        _ => &[],
    };
    for r in required {
        if !has(*r) {
            return Err(MRej::MissingField(*r));
        }
    }
    // body
    let bsig = fields.iter().find(|(c, _)| *c == F_SIGNATURE).map(|(_, v)| match v {
        RVal::G(s) => s.clone(),
        _ => String::new(),
    });
    let types = match &bsig {
        Some(s) => sig::parse_str(s, false).ok_or(MRej::FieldValue(F_SIGNATURE))?,
        None => vec![],
    };
    let declared_fds = fields.iter().find(|(c, _)| *c == F_UNIX_FDS).map(|(_, v)| match v {
        RVal::U(n) => *n as usize,
        _ => 0,
    });
    if declared_fds.unwrap_or(0) != nfds {
        return Err(MRej::FdCount);
    }
    let (r, _) = dbus::unmarshal_seq(&types, &bytes[body_offset..], big, 0, nfds);
    let (vals, used) = r.map_err(MRej::Body)?;
    if used != body_len {
        return Err(MRej::Body(Rej::Truncated));
    }
    let msg = RMsg { big, mtype, flags, version: 1, serial, fields, body: vals };
    Ok(Parsed { msg, body_offset, body_len, total_len: total, unknown_fields: unknown, unknown_flags: flags & !7 != 0, unknown_type: !known_type })
}
