//! A strict, small XML 1.0 well-formedness checker and tree builder, written from the XML
//! recommendation (productions for document, prolog, doctypedecl (skipped, balanced), Comment, PI,
//! CDSect, element, Attribute, Reference, CharData). Shares nothing with quick-xml / zbus_xml.
//! Not supported (rejected): DTD-defined entities, encodings other than UTF-8.

#[derive(Debug, Clone, PartialEq)]
pub enum XNode {
    Elem(XElem),
    Text(String),
    Comment(String),
}

#[derive(Debug, Clone, PartialEq, Default)]
pub struct XElem {
    pub name: String,
    pub attrs: Vec<(String, String)>,
    pub children: Vec<XNode>,
}

impl XElem {
    pub fn attr(&self, n: &str) -> Option<&str> {
        self.attrs.iter().find(|(k, _)| k == n).map(|(_, v)| v.as_str())
    }
    pub fn elems<'a>(&'a self, name: &'a str) -> impl Iterator<Item = &'a XElem> + 'a {
        self.children.iter().filter_map(move |c| match c {
            XNode::Elem(e) if e.name == name => Some(e),
            _ => None,
        })
    }
    pub fn all_elems(&self) -> impl Iterator<Item = &XElem> {
        self.children.iter().filter_map(|c| match c {
            XNode::Elem(e) => Some(e),
            _ => None,
        })
    }
    /// non-whitespace character data directly inside this element
    pub fn text(&self) -> String {
        self.children
            .iter()
            .filter_map(|c| match c {
                XNode::Text(t) => Some(t.as_str()),
                _ => None,
            })
            .collect::<String>()
            .trim()
            .to_string()
    }
}

struct P<'a> {
    s: &'a [u8],
    i: usize,
}

type R<T> = Result<T, String>;

fn is_name_start(c: u8) -> bool {
    c.is_ascii_alphabetic() || c == b'_' || c == b':' || c >= 0x80
}
fn is_name_char(c: u8) -> bool {
    is_name_start(c) || c.is_ascii_digit() || c == b'-' || c == b'.'
}
fn is_ws(c: u8) -> bool {
    matches!(c, b' ' | b'\t' | b'\r' | b'\n')
}

impl<'a> P<'a> {
    fn err<T>(&self, m: &str) -> R<T> {
        Err(format!("{m} at byte {}", self.i))
    }
    fn starts(&self, t: &str) -> bool {
        self.s[self.i..].starts_with(t.as_bytes())
    }
    fn ws(&mut self) -> bool {
        let st = self.i;
        while self.i < self.s.len() && is_ws(self.s[self.i]) {
            self.i += 1;
        }
        self.i > st
    }
    fn name(&mut self) -> R<String> {
        let st = self.i;
        if self.i >= self.s.len() || !is_name_start(self.s[self.i]) {
            return self.err("name expected");
        }
        while self.i < self.s.len() && is_name_char(self.s[self.i]) {
            self.i += 1;
        }
        Ok(String::from_utf8_lossy(&self.s[st..self.i]).to_string())
    }
    fn check_chars(&self, t: &str) -> R<()> {
        // Char ::= #x9 | #xA | #xD | [#x20-#xD7FF] | [#xE000-#xFFFD] | [#x10000-#x10FFFF]
        for c in t.chars() {
            let u = c as u32;
            let ok = u == 9 || u == 10 || u == 13 || (0x20..=0xd7ff).contains(&u) || (0xe000..=0xfffd).contains(&u) || u >= 0x10000;
            if !ok {
                return Err(format!("character U+{u:04X} is not allowed in XML (near byte {})", self.i));
            }
        }
        Ok(())
    }
    fn reference(&mut self) -> R<char> {
        // at '&'
        self.i += 1;
        let st = self.i;
        while self.i < self.s.len() && self.s[self.i] != b';' {
            if self.i - st > 12 {
                return self.err("unterminated reference");
            }
            self.i += 1;
        }
        if self.i >= self.s.len() {
            return self.err("unterminated reference");
        }
        let body = std::str::from_utf8(&self.s[st..self.i]).map_err(|_| "bad reference".to_string())?;
        self.i += 1;
        let c = match body {
            "lt" => '<',
            "gt" => '>',
            "amp" => '&',
            "quot" => '"',
            "apos" => '\'',
            b if b.starts_with("#x") => char::from_u32(u32::from_str_radix(&b[2..], 16).map_err(|_| format!("bad character reference &{b};"))?).ok_or("bad character reference")?,
            b if b.starts_with('#') => char::from_u32(b[1..].parse::<u32>().map_err(|_| format!("bad character reference &{b};"))?).ok_or("bad character reference")?,
            b => return Err(format!("reference to undeclared entity &{b}; near byte {st}")),
        };
        Ok(c)
    }
    fn comment(&mut self) -> R<String> {
        // at "<!--"
        self.i += 4;
        let st = self.i;
        loop {
            if self.i + 2 > self.s.len() {
                return self.err("unterminated comment");
            }
            if self.starts("--") {
                if self.starts("-->") {
                    let t = String::from_utf8_lossy(&self.s[st..self.i]).to_string();
                    self.i += 3;
                    self.check_chars(&t)?;
                    return Ok(t);
                }
                return self.err("'--' inside a comment");
            }
            self.i += 1;
        }
    }
    fn pi(&mut self) -> R<()> {
        // at "<?"
        self.i += 2;
        let n = self.name()?;
        if n.eq_ignore_ascii_case("xml") {
            return self.err("XML declaration not at the start");
        }
        while self.i < self.s.len() && !self.starts("?>") {
            self.i += 1;
        }
        if self.i >= self.s.len() {
            return self.err("unterminated processing instruction");
        }
        self.i += 2;
        Ok(())
    }
    fn doctype(&mut self) -> R<()> {
        // at "<!DOCTYPE": skip to the matching '>' honouring quotes and an internal subset
        self.i += 9;
        if !self.ws() {
            return self.err("space expected after <!DOCTYPE");
        }
        self.name()?;
        let mut depth = 0;
        while self.i < self.s.len() {
            match self.s[self.i] {
                q @ (b'"' | b'\'') => {
                    self.i += 1;
                    while self.i < self.s.len() && self.s[self.i] != q {
                        self.i += 1;
                    }
                    if self.i >= self.s.len() {
                        return self.err("unterminated literal in DOCTYPE");
                    }
                }
                b'[' => depth += 1,
                b']' => depth -= 1,
                b'>' if depth == 0 => {
                    self.i += 1;
                    return Ok(());
                }
                _ => {}
            }
            self.i += 1;
        }
        self.err("unterminated DOCTYPE")
    }
    fn attr_value(&mut self) -> R<String> {
        let q = match self.s.get(self.i) {
            Some(q @ (b'"' | b'\'')) => *q,
            _ => return self.err("quoted attribute value expected"),
        };
        self.i += 1;
        let mut out = String::new();
        loop {
            let Some(&c) = self.s.get(self.i) else { return self.err("unterminated attribute value") };
            if c == q {
                self.i += 1;
                break;
            }
            match c {
                b'<' => return self.err("'<' in an attribute value"),
                b'&' => out.push(self.reference()?),
                _ => {
                    let st = self.i;
                    self.i += 1;
                    while self.i < self.s.len() && (self.s[self.i] & 0xc0) == 0x80 {
                        self.i += 1;
                    }
                    out.push_str(std::str::from_utf8(&self.s[st..self.i]).map_err(|_| "invalid UTF-8".to_string())?);
                }
            }
        }
        self.check_chars(&out)?;
        Ok(out)
    }
    fn element(&mut self, depth: usize) -> R<XElem> {
        // at '<' + name start
        if depth > 200 {
            return self.err("nesting too deep");
        }
        self.i += 1;
        let name = self.name()?;
        let mut e = XElem { name, ..Default::default() };
        loop {
            let had_ws = self.ws();
            if self.starts("/>") {
                self.i += 2;
                return Ok(e);
            }
            if self.starts(">") {
                self.i += 1;
                break;
            }
            if !had_ws {
                return self.err("space expected between attributes");
            }
            let an = self.name()?;
            self.ws();
            if !self.starts("=") {
                return self.err("'=' expected after an attribute name");
            }
            self.i += 1;
            self.ws();
            let v = self.attr_value()?;
            if e.attrs.iter().any(|(k, _)| *k == an) {
                return Err(format!("attribute {an} given twice"));
            }
            e.attrs.push((an, v));
        }
        // content
        let mut text = String::new();
        loop {
            if self.i >= self.s.len() {
                return Err(format!("element <{}> is not closed", e.name));
            }
            if self.starts("</") {
                if !text.is_empty() {
                    self.check_chars(&text)?;
                    e.children.push(XNode::Text(std::mem::take(&mut text)));
                }
                self.i += 2;
                let n = self.name()?;
                if n != e.name {
                    return Err(format!("</{n}> closes <{}> (byte {})", e.name, self.i));
                }
                self.ws();
                if !self.starts(">") {
                    return self.err("'>' expected in an end tag");
                }
                self.i += 1;
                return Ok(e);
            }
            if self.starts("<!--") {
                if !text.is_empty() {
                    self.check_chars(&text)?;
                    e.children.push(XNode::Text(std::mem::take(&mut text)));
                }
                let c = self.comment()?;
                e.children.push(XNode::Comment(c));
                continue;
            }
            if self.starts("<![CDATA[") {
                self.i += 9;
                let st = self.i;
                while self.i < self.s.len() && !self.starts("]]>") {
                    self.i += 1;
                }
                if self.i >= self.s.len() {
                    return self.err("unterminated CDATA section");
                }
                text.push_str(std::str::from_utf8(&self.s[st..self.i]).map_err(|_| "invalid UTF-8".to_string())?);
                self.i += 3;
                continue;
            }
            if self.starts("<?") {
                self.pi()?;
                continue;
            }
            if self.starts("<") {
                if self.i + 1 < self.s.len() && is_name_start(self.s[self.i + 1]) {
                    if !text.is_empty() {
                        self.check_chars(&text)?;
                        e.children.push(XNode::Text(std::mem::take(&mut text)));
                    }
                    let c = self.element(depth + 1)?;
                    e.children.push(XNode::Elem(c));
                    continue;
                }
                return self.err("'<' that starts no markup");
            }
            if self.starts("&") {
                text.push(self.reference()?);
                continue;
            }
            if self.starts("]]>") {
                return self.err("']]>' in character data");
            }
            let st = self.i;
            self.i += 1;
            while self.i < self.s.len() && (self.s[self.i] & 0xc0) == 0x80 {
                self.i += 1;
            }
            text.push_str(std::str::from_utf8(&self.s[st..self.i]).map_err(|_| "invalid UTF-8".to_string())?);
        }
    }
}

/// Parse a complete document; `Err` = not well-formed (with the reason).
pub fn parse(doc: &str) -> Result<XElem, String> {
    let mut p = P { s: doc.as_bytes(), i: 0 };
    if p.starts("\u{feff}") {
        p.i += 3;
    }
    if p.starts("<?xml") && p.s.get(p.i + 5).map(|c| is_ws(*c)).unwrap_or(false) {
        while p.i < p.s.len() && !p.starts("?>") {
            p.i += 1;
        }
        if p.i >= p.s.len() {
            return p.err("unterminated XML declaration");
        }
        p.i += 2;
    }
    let mut seen_doctype = false;
    let root;
    loop {
        p.ws();
        if p.i >= p.s.len() {
            return p.err("no root element");
        }
        if p.starts("<!--") {
            p.comment()?;
        } else if p.starts("<?") {
            p.pi()?;
        } else if p.starts("<!DOCTYPE") {
            if seen_doctype {
                return p.err("second DOCTYPE");
            }
            seen_doctype = true;
            p.doctype()?;
        } else if p.starts("<") && p.i + 1 < p.s.len() && is_name_start(p.s[p.i + 1]) {
            root = p.element(0)?;
            break;
        } else {
            return p.err("markup expected before the root element");
        }
    }
    loop {
        p.ws();
        if p.i >= p.s.len() {
            return Ok(root);
        }
        if p.starts("<!--") {
            p.comment()?;
        } else if p.starts("<?") {
            p.pi()?;
        } else {
            return p.err("content after the root element");
        }
    }
}

#[cfg(test)]
mod tests {
    use super::*;
    #[test]
    fn accepts() {
        let d = "<?xml version=\"1.0\"?>\n<!DOCTYPE node PUBLIC \"-//x//EN\"\n \"http://x/y.dtd\">\n<node name='/a'><!-- c - d --><interface name=\"a.b\"><method name=\"M\"><arg type=\"a{sv}\" direction=\"in\"/></method></interface>t &lt; &#65; <![CDATA[<>&]]></node>\n<!-- z -->";
        let r = parse(d).unwrap();
        assert_eq!(r.name, "node");
        assert_eq!(r.attr("name"), Some("/a"));
        assert_eq!(r.elems("interface").count(), 1);
        assert_eq!(r.text(), "t < A <>&");
    }
    #[test]
    fn rejects() {
        for d in [
            "<a><!-- x -- y --></a>",
            "<a><!-- x ---></a>",
            "<a b=\"1\" b=\"2\"/>",
            "<a>&nbsp;</a>",
            "<a>x & y</a>",
            "<a><b></a></b>",
            "<a/><b/>",
            "<a>]]></a>",
            "<a b=\"<\"/>",
            "<a b=1/>",
            "<a>\u{1}</a>",
            "",
            "<a",
            "<a></a>x",
        ] {
            assert!(parse(d).is_err(), "{d}");
        }
    }
}
