//! D-Bus type signatures, written from the D-Bus specification ("Type System" chapter).
//! Shares no code with zvariant.

#[derive(Debug, Clone, PartialEq, Eq, Hash, PartialOrd, Ord)]
pub enum RSig {
    Y,
    B,
    N,
    Q,
    I,
    U,
    X,
    T,
    D,
    S,
    O,
    G,
    V,
    H,
    A(Box<RSig>),
    Dict(Box<RSig>, Box<RSig>),
    St(Vec<RSig>),
    M(Box<RSig>),
}

#[derive(Debug, Clone, Copy, PartialEq, Eq)]
pub enum Reject {
    BadCode,
    Bracket,
    EmptyStruct,
    DictOutsideArray,
    DictKeyNotBasic,
    DictArity,
    Incomplete,
    TooLong,
    ArrayDepth,
    StructDepth,
    MaybeDisabled,
}
impl Reject {
    /// "semantic" reasons as opposed to plain bracket balance / alphabet
    pub fn semantic(self) -> bool {
        matches!(
            self,
            Reject::EmptyStruct
                | Reject::DictOutsideArray
                | Reject::DictKeyNotBasic
                | Reject::DictArity
                | Reject::TooLong
                | Reject::ArrayDepth
                | Reject::StructDepth
        )
    }
}

impl RSig {
    pub fn is_basic(&self) -> bool {
        matches!(
            self,
            RSig::Y | RSig::B | RSig::N | RSig::Q | RSig::I | RSig::U | RSig::X | RSig::T | RSig::D | RSig::S | RSig::O | RSig::G | RSig::H
        )
    }
    pub fn is_container(&self) -> bool {
        matches!(self, RSig::A(_) | RSig::Dict(..) | RSig::St(_) | RSig::M(_) | RSig::V)
    }
    pub fn is_stringlike(&self) -> bool {
        matches!(self, RSig::S | RSig::O | RSig::G)
    }
    pub fn write(&self, out: &mut String) {
        match self {
            RSig::Y => out.push('y'),
            RSig::B => out.push('b'),
            RSig::N => out.push('n'),
            RSig::Q => out.push('q'),
            RSig::I => out.push('i'),
            RSig::U => out.push('u'),
            RSig::X => out.push('x'),
            RSig::T => out.push('t'),
            RSig::D => out.push('d'),
            RSig::S => out.push('s'),
            RSig::O => out.push('o'),
            RSig::G => out.push('g'),
            RSig::V => out.push('v'),
            RSig::H => out.push('h'),
            RSig::A(c) => {
                out.push('a');
                c.write(out)
            }
            RSig::Dict(k, v) => {
                out.push_str("a{");
                k.write(out);
                v.write(out);
                out.push('}')
            }
            RSig::St(f) => {
                out.push('(');
                for x in f {
                    x.write(out)
                }
                out.push(')')
            }
            RSig::M(c) => {
                out.push('m');
                c.write(out)
            }
        }
    }
    pub fn to_string(&self) -> String {
        let mut s = String::new();
        self.write(&mut s);
        s
    }
    pub fn contains(&self, pred: &dyn Fn(&RSig) -> bool) -> bool {
        if pred(self) {
            return true;
        }
        match self {
            RSig::A(c) | RSig::M(c) => c.contains(pred),
            RSig::Dict(k, v) => k.contains(pred) || v.contains(pred),
            RSig::St(f) => f.iter().any(|x| x.contains(pred)),
            _ => false,
        }
    }
    pub fn node_count(&self) -> usize {
        1 + match self {
            RSig::A(c) | RSig::M(c) => c.node_count(),
            RSig::Dict(k, v) => k.node_count() + v.node_count(),
            RSig::St(f) => f.iter().map(|x| x.node_count()).sum(),
            _ => 0,
        }
    }
    /// D-Bus alignment
    pub fn align(&self) -> usize {
        match self {
            RSig::Y | RSig::G | RSig::V => 1,
            RSig::N | RSig::Q => 2,
            RSig::B | RSig::I | RSig::U | RSig::S | RSig::O | RSig::H | RSig::A(_) | RSig::Dict(..) => 4,
            RSig::X | RSig::T | RSig::D | RSig::St(_) => 8,
            RSig::M(c) => c.align(), // not a D-Bus type
        }
    }
    /// (arrays, structs) maximal nesting depth of type codes
    pub fn depths(&self) -> (usize, usize) {
        match self {
            RSig::A(c) => {
                let (a, s) = c.depths();
                (a + 1, s)
            }
            RSig::M(c) => c.depths(),
            RSig::Dict(k, v) => {
                let (a1, s1) = k.depths();
                let (a2, s2) = v.depths();
                (1 + a1.max(a2), s1.max(s2))
            }
            RSig::St(f) => {
                let mut a = 0;
                let mut s = 0;
                for x in f {
                    let (xa, xs) = x.depths();
                    a = a.max(xa);
                    s = s.max(xs);
                }
                (a, s + 1)
            }
            _ => (0, 0),
        }
    }
}

pub fn seq_to_string(seq: &[RSig]) -> String {
    let mut s = String::new();
    for x in seq {
        x.write(&mut s);
    }
    s
}

pub struct ParseOpts {
    pub maybe: bool,
    /// enforce ≤255 bytes and the 32/32 depth limits
    pub limits: bool,
}

/// Three-valued verdict at the limits: the D-Bus specification counts "32 array type codes and 32
/// open parentheses"; libdbus additionally counts dict-entry braces as struct depth. `Grey` marks
/// strings valid under one reading only — no demand is made there.
#[derive(Debug, Clone, PartialEq, Eq)]
pub enum Verdict {
    Accept(Vec<RSig>),
    Reject(Reject),
    Grey(Vec<RSig>),
}

struct P<'a> {
    b: &'a [u8],
    i: usize,
    maybe: bool,
}

impl<'a> P<'a> {
    fn single(&mut self) -> Result<RSig, Reject> {
        let Some(&c) = self.b.get(self.i) else { return Err(Reject::Incomplete) };
        self.i += 1;
        Ok(match c {
            b'y' => RSig::Y,
            b'b' => RSig::B,
            b'n' => RSig::N,
            b'q' => RSig::Q,
            b'i' => RSig::I,
            b'u' => RSig::U,
            b'x' => RSig::X,
            b't' => RSig::T,
            b'd' => RSig::D,
            b's' => RSig::S,
            b'o' => RSig::O,
            b'g' => RSig::G,
            b'v' => RSig::V,
            b'h' => RSig::H,
            b'm' => {
                if !self.maybe {
                    return Err(Reject::MaybeDisabled);
                }
                RSig::M(Box::new(self.single()?))
            }
            b'a' => {
                if self.b.get(self.i) == Some(&b'{') {
                    self.i += 1;
                    let mut items = vec![];
                    loop {
                        match self.b.get(self.i) {
                            None => return Err(Reject::Bracket),
                            Some(b'}') => {
                                self.i += 1;
                                break;
                            }
                            _ => items.push(self.single()?),
                        }
                    }
                    if items.len() != 2 {
                        return Err(Reject::DictArity);
                    }
                    if !items[0].is_basic() {
                        return Err(Reject::DictKeyNotBasic);
                    }
                    let v = items.pop().unwrap();
                    let k = items.pop().unwrap();
                    RSig::Dict(Box::new(k), Box::new(v))
                } else {
                    RSig::A(Box::new(self.single()?))
                }
            }
            b'(' => {
                let mut items = vec![];
                loop {
                    match self.b.get(self.i) {
                        None => return Err(Reject::Bracket),
                        Some(b')') => {
                            self.i += 1;
                            break;
                        }
                        _ => items.push(self.single()?),
                    }
                }
                if items.is_empty() {
                    return Err(Reject::EmptyStruct);
                }
                RSig::St(items)
            }
            b'{' => return Err(Reject::DictOutsideArray),
            b')' | b'}' => return Err(Reject::Bracket),
            _ => return Err(Reject::BadCode),
        })
    }
}

/// depth of struct parens counting dict-entry braces as well (libdbus reading)
fn struct_depth_with_braces(s: &RSig) -> usize {
    match s {
        RSig::A(c) | RSig::M(c) => struct_depth_with_braces(c),
        RSig::Dict(k, v) => 1 + struct_depth_with_braces(k).max(struct_depth_with_braces(v)),
        RSig::St(f) => 1 + f.iter().map(struct_depth_with_braces).max().unwrap_or(0),
        _ => 0,
    }
}

pub fn parse(bytes: &[u8], opts: &ParseOpts) -> Verdict {
    let mut p = P { b: bytes, i: 0, maybe: opts.maybe };
    let mut out = vec![];
    while p.i < bytes.len() {
        match p.single() {
            Ok(s) => out.push(s),
            Err(e) => {
                // order of diagnosis is irrelevant for callers; a too-long string that is also
                // malformed is simply a reject
                return Verdict::Reject(e);
            }
        }
    }
    if opts.limits {
        if bytes.len() > 255 {
            return Verdict::Reject(Reject::TooLong);
        }
        let mut grey = false;
        for s in &out {
            let (a, st) = s.depths();
            if a > 32 {
                return Verdict::Reject(Reject::ArrayDepth);
            }
            if st > 32 {
                return Verdict::Reject(Reject::StructDepth);
            }
            if struct_depth_with_braces(s) > 32 {
                grey = true;
            }
        }
        if grey {
            return Verdict::Grey(out);
        }
    }
    Verdict::Accept(out)
}

pub fn parse_str(s: &str, maybe: bool) -> Option<Vec<RSig>> {
    match parse(s.as_bytes(), &ParseOpts { maybe, limits: true }) {
        Verdict::Accept(v) | Verdict::Grey(v) => Some(v),
        Verdict::Reject(_) => None,
    }
}

#[cfg(test)]
mod tests {
    use super::*;
    #[test]
    fn basics() {
        let o = ParseOpts { maybe: false, limits: true };
        assert!(matches!(parse(b"", &o), Verdict::Accept(v) if v.is_empty()));
        assert!(matches!(parse(b"a{sv}", &o), Verdict::Accept(_)));
        assert_eq!(parse(b"a{vs}", &o), Verdict::Reject(Reject::DictKeyNotBasic));
        assert_eq!(parse(b"()", &o), Verdict::Reject(Reject::EmptyStruct));
        assert_eq!(parse(b"{sv}", &o), Verdict::Reject(Reject::DictOutsideArray));
        assert_eq!(parse(b"a{s}", &o), Verdict::Reject(Reject::DictArity));
        assert_eq!(parse(b"a", &o), Verdict::Reject(Reject::Incomplete));
        assert_eq!(parse(b"mi", &o), Verdict::Reject(Reject::MaybeDisabled));
        let deep = "a".repeat(33) + "y";
        assert_eq!(parse(deep.as_bytes(), &o), Verdict::Reject(Reject::ArrayDepth));
        let ok = "a".repeat(32) + "y";
        assert!(matches!(parse(ok.as_bytes(), &o), Verdict::Accept(_)));
    }
}
