//! Reference automata for the D-Bus SASL profile ("Authentication Protocol" chapter), server and
//! client side, as validators of an observed transcript.

#[derive(Debug, Clone, Copy, PartialEq, Eq)]
pub enum Mech {
    External,
    Anonymous,
}

#[derive(Debug, Clone, PartialEq, Eq)]
pub struct ServerCfg {
    pub mech: Mech,
    /// peer credentials known to the server (uid)
    pub peer_uid: Option<u32>,
    pub fd_capable: bool,
}

#[derive(Debug, Clone, Copy, PartialEq, Eq)]
pub enum SState {
    WaitAuth,
    WaitData,
    WaitBegin,
}

#[derive(Debug, Clone, PartialEq, Eq)]
pub enum Reaction {
    /// server must reply with this command word
    Reply(&'static str),
    /// server may end the handshake with an error (no reply)
    Abort,
    /// handshake complete
    Authenticated,
}

fn unhex(s: &str) -> Option<Vec<u8>> {
    if s.len() % 2 != 0 {
        return None;
    }
    (0..s.len() / 2).map(|i| u8::from_str_radix(s.get(2 * i..2 * i + 2)?, 16).ok()).collect()
}

/// does the identity authenticate under EXTERNAL? None => malformed (lenient)
fn external_ok(cfg: &ServerCfg, identity: &[u8]) -> Option<bool> {
    if identity.is_empty() {
        return Some(cfg.peer_uid.is_some());
    }
    // a malformed identity (not UTF-8, not a number) may be rejected or end the handshake
    let s = std::str::from_utf8(identity).ok()?;
    let claimed: u32 = s.parse().ok()?;
    Some(cfg.peer_uid == Some(claimed))
}

/// All reactions the specification (and the property's statement) allow for one client line in
/// one state, each with the state that follows. `line` is the text without its CR LF.
pub fn server_react(cfg: &ServerCfg, st: SState, line: &str) -> Vec<(Reaction, SState)> {
    use Reaction::*;
    use SState::*;
    let words: Vec<&str> = line.split_ascii_whitespace().collect();
    let lenient = |st: SState| vec![(Reply("ERROR"), st), (Abort, st)];
    let Some(cmd) = words.first() else { return lenient(st) };
    // lines with leading / odd whitespace are outside what the specification describes
    if line.starts_with(' ') || line.contains('\t') || line.contains("  ") || line.ends_with(' ') {
        let mut v = lenient(st);
        v.extend(server_react(cfg, st, &words.join(" ")));
        return v;
    }
    // a malformed hex argument may always be answered by ERROR or by giving up
    let hex_arg = match *cmd {
        "AUTH" => words.get(2),
        "DATA" => words.get(1),
        _ => None,
    };
    if hex_arg.map(|h| unhex(h).is_none()).unwrap_or(false) {
        let mut v = lenient(st);
        if st == WaitAuth && *cmd == "AUTH" {
            v.push((Reply("REJECTED"), WaitAuth));
        }
        return v;
    }
    let my_mech = match cfg.mech {
        Mech::External => "EXTERNAL",
        Mech::Anonymous => "ANONYMOUS",
    };
    match (st, *cmd) {
        (WaitAuth, "AUTH") => {
            let Some(m) = words.get(1) else { return vec![(Reply("REJECTED"), WaitAuth)] };
            if *m != my_mech {
                // a malformed initial response may also be answered by giving up
                if words.get(2).map(|h| unhex(h).is_none()).unwrap_or(false) {
                    return vec![(Reply("REJECTED"), WaitAuth), (Reply("ERROR"), WaitAuth), (Abort, WaitAuth)];
                }
                return vec![(Reply("REJECTED"), WaitAuth)];
            }
            match words.get(2) {
                None => vec![(Reply("DATA"), WaitData)],
                Some(h) => match unhex(h) {
                    None => lenient(WaitAuth),
                    Some(id) => match cfg.mech {
                        Mech::Anonymous => vec![(Reply("OK"), WaitBegin)],
                        Mech::External => match external_ok(cfg, &id) {
                            Some(true) => vec![(Reply("OK"), WaitBegin)],
                            Some(false) => vec![(Reply("REJECTED"), WaitAuth)],
                            // not a number / not UTF-8: reject, or give up
                            None => vec![(Reply("REJECTED"), WaitAuth), (Reply("ERROR"), WaitAuth), (Abort, WaitAuth)],
                        },
                    },
                },
            }
        }
        (WaitData, "DATA") => match words.get(1).map(|h| unhex(h)) {
            Some(None) => lenient(WaitData),
            other => {
                let id = other.flatten().unwrap_or_default();
                match cfg.mech {
                    Mech::Anonymous => vec![(Reply("OK"), WaitBegin)],
                    Mech::External => match external_ok(cfg, &id) {
                        Some(true) => vec![(Reply("OK"), WaitBegin)],
                        Some(false) => vec![(Reply("REJECTED"), WaitAuth)],
                        None => vec![(Reply("REJECTED"), WaitAuth), (Reply("ERROR"), WaitData), (Abort, WaitData)],
                    },
                }
            }
        },
        (WaitBegin, "BEGIN") => vec![(Authenticated, WaitBegin)],
        (WaitBegin, "NEGOTIATE_UNIX_FD") => {
            if cfg.fd_capable {
                vec![(Reply("AGREE_UNIX_FD"), WaitBegin)]
            } else {
                vec![(Reply("ERROR"), WaitBegin)]
            }
        }
        // BEGIN before authentication: the specification says disconnect, the property says ERROR
        (WaitAuth, "BEGIN") | (WaitData, "BEGIN") => vec![(Reply("ERROR"), st), (Abort, st)],
        // CANCEL / ERROR: REJECTED and back to waiting for AUTH; in WaitAuth the specification
        // answers CANCEL with ERROR — both are accepted there
        (WaitAuth, "CANCEL") => vec![(Reply("REJECTED"), WaitAuth), (Reply("ERROR"), WaitAuth)],
        (WaitAuth, "ERROR") => vec![(Reply("REJECTED"), WaitAuth)],
        (WaitData, "CANCEL") | (WaitData, "ERROR") => vec![(Reply("REJECTED"), WaitAuth), (Reply("ERROR"), WaitData)],
        (WaitBegin, "CANCEL") | (WaitBegin, "ERROR") => vec![(Reply("REJECTED"), WaitAuth)],
        // known commands in the wrong state and unknown commands
        (_, _) => vec![(Reply("ERROR"), st)],
    }
}

#[derive(Debug, Clone, PartialEq, Eq)]
pub struct ServerVerdict {
    pub authenticated: bool,
    /// number of client lines consumed when the verdict was reached
    pub lines_used: usize,
}

/// Validate an observed server transcript. `replies` are the command words the server sent, in
/// order; `built` says whether the handshake completed. Returns Err(description) on a violation.
pub fn validate_server(cfg: &ServerCfg, lines: &[String], replies: &[String], built: bool) -> Result<ServerVerdict, String> {
    // nondeterministic walk: set of (state, reply index)
    let mut front: Vec<(SState, usize)> = vec![(SState::WaitAuth, 0)];
    for (li, line) in lines.iter().enumerate() {
        let mut next: Vec<(SState, usize)> = vec![];
        let mut abort_ok = false;
        let mut auth_ok = false;
        for (st, r) in &front {
            for (reaction, ns) in server_react(cfg, *st, line) {
                match reaction {
                    Reaction::Reply(w) => {
                        if replies.get(*r).map(|x| x.as_str()) == Some(w) && !next.contains(&(ns, r + 1)) {
                            next.push((ns, r + 1));
                        }
                    }
                    Reaction::Abort => {
                        if *r == replies.len() {
                            abort_ok = true;
                        }
                    }
                    Reaction::Authenticated => {
                        if *r == replies.len() {
                            auth_ok = true;
                        }
                    }
                }
            }
        }
        if auth_ok && built {
            return Ok(ServerVerdict { authenticated: true, lines_used: li + 1 });
        }
        if !next.is_empty() {
            front = next;
            continue;
        }
        if abort_ok && !built {
            return Ok(ServerVerdict { authenticated: false, lines_used: li + 1 });
        }
        if auth_ok && !built {
            return Err(format!("line {li} {line:?} completes a valid authentication but the handshake failed (replies so far {replies:?})"));
        }
        let allowed: Vec<String> = front.iter().flat_map(|(st, _)| server_react(cfg, *st, line).into_iter().map(move |(r, _)| format!("{st:?}:{r:?}"))).collect();
        let got = front.iter().map(|(_, r)| replies.get(*r).cloned().unwrap_or_else(|| "<nothing>".into())).collect::<Vec<_>>();
        return Err(format!("after client line {li} {line:?} the server answered {got:?} (completed={built}); allowed: {allowed:?}"));
    }
    // script exhausted without BEGIN-after-auth: the server sees EOF and must fail
    if built {
        return Err(format!("the handshake completed although no valid authentication followed by BEGIN was sent (replies {replies:?})"));
    }
    if front.iter().all(|(_, r)| *r != replies.len()) {
        return Err(format!("the server sent more replies than client lines warrant: {replies:?}"));
    }
    Ok(ServerVerdict { authenticated: false, lines_used: lines.len() })
}

// ------------------------------------------------------------------------------------------------
// client side

#[derive(Debug, Clone, PartialEq, Eq)]
pub struct ClientExpect {
    pub success: bool,
    pub fd_cap: bool,
}

pub fn is_guid(s: &str) -> bool {
    s.len() == 32 && s.bytes().all(|c| c.is_ascii_hexdigit())
}

/// What a client that sent AUTH, then (if fd-capable) NEGOTIATE_UNIX_FD, then BEGIN must conclude
/// from the server's reply lines. None = the specification leaves it open (lenient).
pub fn client_expect(replies: &[String], fd_capable: bool, expected_guid: Option<&str>) -> Option<ClientExpect> {
    let fail = Some(ClientExpect { success: false, fd_cap: false });
    let Some(first) = replies.first() else { return fail };
    let w: Vec<&str> = first.split_ascii_whitespace().collect();
    if w.first() != Some(&"OK") {
        return fail;
    }
    let Some(g) = w.get(1) else { return fail };
    if !is_guid(g) {
        return fail;
    }
    if let Some(e) = expected_guid {
        if !e.eq_ignore_ascii_case(g) {
            return fail;
        }
    }
    if first.starts_with(' ') || w.len() > 2 {
        return None;
    }
    if !fd_capable {
        return Some(ClientExpect { success: true, fd_cap: false });
    }
    let Some(second) = replies.get(1) else { return fail };
    let w2: Vec<&str> = second.split_ascii_whitespace().collect();
    match w2.first().copied() {
        Some("AGREE_UNIX_FD") if w2.len() == 1 => Some(ClientExpect { success: true, fd_cap: true }),
        Some("ERROR") => Some(ClientExpect { success: true, fd_cap: false }),
        // anything else in answer to NEGOTIATE_UNIX_FD: no fd passing; whether to carry on is open
        _ => None,
    }
}
