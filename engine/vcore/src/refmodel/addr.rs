//! D-Bus server addresses (specification chapter "Server Addresses"): grammar and percent codec.

pub fn unescaped(c: u8) -> bool {
    c.is_ascii_alphanumeric() || matches!(c, b'-' | b'_' | b'/' | b'.' | b'\\' | b'*')
}

pub fn encode(v: &[u8]) -> String {
    let mut s = String::new();
    for &c in v {
        if unescaped(c) {
            s.push(c as char);
        } else {
            s.push_str(&format!("%{:02x}", c));
        }
    }
    s
}

pub fn decode(s: &str) -> Result<Vec<u8>, String> {
    let b = s.as_bytes();
    let mut out = vec![];
    let mut i = 0;
    while i < b.len() {
        if b[i] == b'%' {
            if i + 2 >= b.len() {
                return Err("incomplete escape".into());
            }
            let h = std::str::from_utf8(&b[i + 1..i + 3]).map_err(|_| "bad escape")?;
            out.push(u8::from_str_radix(h, 16).map_err(|_| "bad escape".to_string())?);
            i += 3;
        } else if unescaped(b[i]) {
            out.push(b[i]);
            i += 1;
        } else {
            return Err(format!("character {:?} must be escaped", b[i] as char));
        }
    }
    Ok(out)
}

#[derive(Debug, Clone, PartialEq, Eq)]
pub struct RAddr {
    pub transport: String,
    /// decoded values, in order
    pub opts: Vec<(String, Vec<u8>)>,
}

impl RAddr {
    pub fn get(&self, k: &str) -> Option<&[u8]> {
        self.opts.iter().find(|(x, _)| x == k).map(|(_, v)| &v[..])
    }
}

pub fn parse(s: &str) -> Result<RAddr, String> {
    let (t, rest) = s.split_once(':').ok_or("no transport")?;
    if t.is_empty() {
        return Err("empty transport".into());
    }
    let mut opts = vec![];
    if !rest.is_empty() {
        for kv in rest.split(',') {
            let (k, v) = kv.split_once('=').ok_or("missing =")?;
            if k.is_empty() {
                return Err("empty key".into());
            }
            if opts.iter().any(|(x, _): &(String, Vec<u8>)| x == k) {
                return Err("duplicate key".into());
            }
            opts.push((k.to_string(), decode(v)?));
        }
    }
    Ok(RAddr { transport: t.to_string(), opts })
}

/// print with a chosen escaping policy: `extra` bytes are escaped although they need not be
pub fn print(a: &RAddr, extra: &dyn Fn(u8) -> bool, upper: bool) -> String {
    let enc = |v: &[u8]| {
        let mut s = String::new();
        for &c in v {
            if unescaped(c) && !extra(c) {
                s.push(c as char);
            } else if upper {
                s.push_str(&format!("%{:02X}", c));
            } else {
                s.push_str(&format!("%{:02x}", c));
            }
        }
        s
    };
    format!("{}:{}", a.transport, a.opts.iter().map(|(k, v)| format!("{k}={}", enc(v))).collect::<Vec<_>>().join(","))
}

#[cfg(test)]
mod tests {
    use super::*;
    #[test]
    fn t() {
        assert_eq!(decode("/tmp/a%20b").unwrap(), b"/tmp/a b");
        assert!(decode("a b").is_err());
        assert!(decode("%2").is_err());
        assert!(decode("%").is_err());
        assert_eq!(encode(b"/tmp/a b"), "/tmp/a%20b");
        let a = parse("unix:path=/tmp/x%2c,guid=00").unwrap();
        assert_eq!(a.get("path").unwrap(), b"/tmp/x,");
    }
}
