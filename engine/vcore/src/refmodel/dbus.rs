//! Reference D-Bus marshaller / strict validating unmarshaller, written from the "Marshaling (Wire
//! Format)" chapter of the D-Bus specification. Shares no code with zvariant.

use super::names;
use super::sig::{self, RSig};
use super::val::RVal;

#[derive(Debug, Clone, Copy, PartialEq, Eq)]
pub enum Role {
    Pad,
    /// array byte length / string length (u32)
    Len,
    /// string / object path text
    Str,
    /// NUL terminator of string / path / signature
    Nul,
    SigLen,
    SigTxt,
    Bool,
    Fixed,
    FdIdx,
}

#[derive(Default, Debug, Clone)]
pub struct Enc {
    pub bytes: Vec<u8>,
    pub roles: Vec<Role>,
    /// harness fd handles in wire-index order
    pub fds: Vec<u32>,
    pub offset: usize,
    pub big: bool,
    /// give every 'h' occurrence its own wire index even when the handle repeats
    pub no_fd_dedupe: bool,
    /// write the handle number itself as the wire index (re-marshalling a decoded value)
    pub fd_literal: bool,
    /// boundaries (byte index) where a value starts — used for truncation mutations
    pub boundaries: Vec<usize>,
}

impl Enc {
    pub fn new(big: bool, offset: usize) -> Enc {
        Enc { big, offset, ..Default::default() }
    }
    fn push(&mut self, b: &[u8], r: Role) {
        for x in b {
            self.bytes.push(*x);
            self.roles.push(r);
        }
    }
    fn pad(&mut self, align: usize) {
        while (self.offset + self.bytes.len()) % align != 0 {
            self.push(&[0], Role::Pad);
        }
    }
    fn u32(&mut self, v: u32, r: Role) {
        let b = if self.big { v.to_be_bytes() } else { v.to_le_bytes() };
        self.push(&b, r);
    }
    fn u16(&mut self, v: u16, r: Role) {
        let b = if self.big { v.to_be_bytes() } else { v.to_le_bytes() };
        self.push(&b, r);
    }
    fn u64(&mut self, v: u64, r: Role) {
        let b = if self.big { v.to_be_bytes() } else { v.to_le_bytes() };
        self.push(&b, r);
    }
    fn patch_u32(&mut self, at: usize, v: u32) {
        let b = if self.big { v.to_be_bytes() } else { v.to_le_bytes() };
        self.bytes[at..at + 4].copy_from_slice(&b);
    }

    pub fn value(&mut self, v: &RVal) {
        self.boundaries.push(self.bytes.len());
        match v {
            RVal::Y(x) => self.push(&[*x], Role::Fixed),
            RVal::B(x) => {
                self.pad(4);
                self.u32(*x as u32, Role::Bool)
            }
            RVal::N(x) => {
                self.pad(2);
                self.u16(*x as u16, Role::Fixed)
            }
            RVal::Q(x) => {
                self.pad(2);
                self.u16(*x, Role::Fixed)
            }
            RVal::I(x) => {
                self.pad(4);
                self.u32(*x as u32, Role::Fixed)
            }
            RVal::U(x) => {
                self.pad(4);
                self.u32(*x, Role::Fixed)
            }
            RVal::X(x) => {
                self.pad(8);
                self.u64(*x as u64, Role::Fixed)
            }
            RVal::T(x) => {
                self.pad(8);
                self.u64(*x, Role::Fixed)
            }
            RVal::D(x) => {
                self.pad(8);
                self.u64(*x, Role::Fixed)
            }
            RVal::S(s) | RVal::O(s) => {
                self.pad(4);
                self.u32(s.len() as u32, Role::Len);
                self.push(s.as_bytes(), Role::Str);
                self.push(&[0], Role::Nul);
            }
            RVal::G(s) => {
                self.push(&[s.len() as u8], Role::SigLen);
                self.push(s.as_bytes(), Role::SigTxt);
                self.push(&[0], Role::Nul);
            }
            RVal::V(b) => {
                let s = b.0.to_string();
                self.push(&[s.len() as u8], Role::SigLen);
                self.push(s.as_bytes(), Role::SigTxt);
                self.push(&[0], Role::Nul);
                self.value(&b.1);
            }
            RVal::H(h) => {
                self.pad(4);
                let idx = if self.fd_literal {
                    *h as usize
                } else if self.no_fd_dedupe {
                    self.fds.push(*h);
                    self.fds.len() - 1
                } else if let Some(i) = self.fds.iter().position(|x| x == h) {
                    i
                } else {
                    self.fds.push(*h);
                    self.fds.len() - 1
                };
                self.u32(idx as u32, Role::FdIdx);
            }
            RVal::A(elem, items) => {
                self.pad(4);
                let at = self.bytes.len();
                self.u32(0, Role::Len);
                self.pad(elem.align());
                let start = self.bytes.len();
                for it in items {
                    self.value(it);
                }
                let len = self.bytes.len() - start;
                self.patch_u32(at, len as u32);
            }
            RVal::Dict(_, _, entries) => {
                self.pad(4);
                let at = self.bytes.len();
                self.u32(0, Role::Len);
                self.pad(8);
                let start = self.bytes.len();
                for (k, v) in entries {
                    self.pad(8);
                    self.value(k);
                    self.value(v);
                }
                let len = self.bytes.len() - start;
                self.patch_u32(at, len as u32);
            }
            RVal::St(fields) => {
                self.pad(8);
                for f in fields {
                    self.value(f);
                }
            }
            RVal::M(_, _) => panic!("maybe is not a D-Bus type"),
        }
    }
}

pub fn marshal(v: &RVal, big: bool, offset: usize) -> Enc {
    let mut e = Enc::new(big, offset);
    e.value(v);
    e
}

/// Marshal a sequence of values back to back (a message body).
pub fn marshal_seq(vs: &[RVal], big: bool, offset: usize) -> Enc {
    let mut e = Enc::new(big, offset);
    for v in vs {
        e.value(v);
    }
    e
}

#[derive(Debug, Clone, Copy, PartialEq, Eq)]
pub enum Rej {
    Truncated,
    Padding,
    Bool,
    Nul,
    Utf8,
    InteriorNul,
    Path,
    Sig,
    VariantSig,
    ArrayLen,
    Depth,
    FdIndex,
    NotDbusType,
}

#[derive(Debug, Clone, Copy, Default)]
pub struct Depths {
    pub arrays: usize,
    pub structs: usize,
    pub variants: usize,
}
impl Depths {
    pub fn ok(&self) -> bool {
        self.arrays <= 32 && self.structs <= 32 && self.arrays + self.structs + self.variants <= 64
    }
}

pub struct Dec<'a> {
    pub bytes: &'a [u8],
    pub pos: usize,
    pub offset: usize,
    pub big: bool,
    pub nfds: usize,
    /// set when a verdict depended on a rule the specification leaves open (see sig::Verdict::Grey)
    pub grey: bool,
}

impl<'a> Dec<'a> {
    pub fn new(bytes: &'a [u8], big: bool, offset: usize, nfds: usize) -> Dec<'a> {
        Dec { bytes, pos: 0, offset, big, nfds, grey: false }
    }
    fn pad(&mut self, align: usize) -> Result<(), Rej> {
        while (self.offset + self.pos) % align != 0 {
            match self.bytes.get(self.pos) {
                None => return Err(Rej::Truncated),
                Some(0) => self.pos += 1,
                Some(_) => return Err(Rej::Padding),
            }
        }
        Ok(())
    }
    fn take(&mut self, n: usize) -> Result<&'a [u8], Rej> {
        if self.pos.checked_add(n).map(|e| e > self.bytes.len()).unwrap_or(true) {
            return Err(Rej::Truncated);
        }
        let s = &self.bytes[self.pos..self.pos + n];
        self.pos += n;
        Ok(s)
    }
    fn u16(&mut self) -> Result<u16, Rej> {
        self.pad(2)?;
        let b = self.take(2)?;
        Ok(if self.big { u16::from_be_bytes([b[0], b[1]]) } else { u16::from_le_bytes([b[0], b[1]]) })
    }
    fn u32(&mut self) -> Result<u32, Rej> {
        self.pad(4)?;
        let b = self.take(4)?;
        let a = [b[0], b[1], b[2], b[3]];
        Ok(if self.big { u32::from_be_bytes(a) } else { u32::from_le_bytes(a) })
    }
    fn u64(&mut self) -> Result<u64, Rej> {
        self.pad(8)?;
        let b = self.take(8)?;
        let mut a = [0u8; 8];
        a.copy_from_slice(b);
        Ok(if self.big { u64::from_be_bytes(a) } else { u64::from_le_bytes(a) })
    }
    fn text(&mut self, len: usize) -> Result<String, Rej> {
        let s = self.take(len)?;
        let nul = self.take(1)?;
        if s.contains(&0) {
            return Err(Rej::InteriorNul);
        }
        if nul[0] != 0 {
            return Err(Rej::Nul);
        }
        match std::str::from_utf8(s) {
            Ok(t) => Ok(t.to_string()),
            Err(_) => Err(Rej::Utf8),
        }
    }

    pub fn value(&mut self, s: &RSig, d: Depths) -> Result<RVal, Rej> {
        Ok(match s {
            RSig::Y => RVal::Y(self.take(1)?[0]),
            RSig::B => match self.u32()? {
                0 => RVal::B(false),
                1 => RVal::B(true),
                _ => return Err(Rej::Bool),
            },
            RSig::N => RVal::N(self.u16()? as i16),
            RSig::Q => RVal::Q(self.u16()?),
            RSig::I => RVal::I(self.u32()? as i32),
            RSig::U => RVal::U(self.u32()?),
            RSig::X => RVal::X(self.u64()? as i64),
            RSig::T => RVal::T(self.u64()?),
            RSig::D => RVal::D(self.u64()?),
            RSig::S => {
                let len = self.u32()? as usize;
                RVal::S(self.text(len)?)
            }
            RSig::O => {
                let len = self.u32()? as usize;
                let t = self.text(len)?;
                if !names::object_path(t.as_bytes()) {
                    return Err(Rej::Path);
                }
                RVal::O(t)
            }
            RSig::G => {
                let len = self.take(1)?[0] as usize;
                let t = self.text(len)?;
                match sig::parse(t.as_bytes(), &sig::ParseOpts { maybe: false, limits: true }) {
                    sig::Verdict::Accept(_) => {}
                    sig::Verdict::Grey(_) => self.grey = true,
                    sig::Verdict::Reject(_) => return Err(Rej::Sig),
                }
                RVal::G(t)
            }
            RSig::H => {
                let idx = self.u32()?;
                if idx as usize >= self.nfds {
                    return Err(Rej::FdIndex);
                }
                RVal::H(idx)
            }
            RSig::V => {
                let d2 = Depths { variants: d.variants + 1, ..d };
                let len = self.take(1)?[0] as usize;
                let t = self.text(len)?;
                let inner = match sig::parse(t.as_bytes(), &sig::ParseOpts { maybe: false, limits: true }) {
                    sig::Verdict::Accept(v) => v,
                    sig::Verdict::Grey(v) => {
                        self.grey = true;
                        v
                    }
                    sig::Verdict::Reject(_) => return Err(Rej::VariantSig),
                };
                if inner.len() != 1 {
                    return Err(Rej::VariantSig);
                }
                if !d2.ok() {
                    return Err(Rej::Depth);
                }
                let v = self.value(&inner[0], d2)?;
                RVal::V(Box::new((inner[0].clone(), v)))
            }
            RSig::A(elem) => {
                let d2 = Depths { arrays: d.arrays + 1, ..d };
                if !d2.ok() {
                    return Err(Rej::Depth);
                }
                let len = self.u32()? as usize;
                self.pad(elem.align())?;
                let start = self.pos;
                let end = start.checked_add(len).ok_or(Rej::Truncated)?;
                let mut items = vec![];
                while self.pos < end {
                    let v = self.value(elem, d2)?;
                    if self.pos > end {
                        return Err(Rej::ArrayLen);
                    }
                    items.push(v);
                }
                RVal::A((**elem).clone(), items)
            }
            RSig::Dict(k, v) => {
                let d2 = Depths { arrays: d.arrays + 1, ..d };
                if !d2.ok() {
                    return Err(Rej::Depth);
                }
                let len = self.u32()? as usize;
                self.pad(8)?;
                let start = self.pos;
                let end = start.checked_add(len).ok_or(Rej::Truncated)?;
                let mut items = vec![];
                while self.pos < end {
                    self.pad(8)?;
                    // a dict entry is a struct-like container on the wire, but the D-Bus limits
                    // count "32 array type codes and 32 open parentheses": the brace is not
                    // counted here (C07 states the same model).
                    let kv = self.value(k, d2)?;
                    if self.pos > end {
                        return Err(Rej::ArrayLen);
                    }
                    let vv = self.value(v, d2)?;
                    if self.pos > end {
                        return Err(Rej::ArrayLen);
                    }
                    items.push((kv, vv));
                }
                RVal::Dict((**k).clone(), (**v).clone(), items)
            }
            RSig::St(fields) => {
                let d2 = Depths { structs: d.structs + 1, ..d };
                if !d2.ok() {
                    return Err(Rej::Depth);
                }
                self.pad(8)?;
                let mut out = vec![];
                for f in fields {
                    out.push(self.value(f, d2)?);
                }
                RVal::St(out)
            }
            RSig::M(_) => return Err(Rej::NotDbusType),
        })
    }
}

/// Strictly decode one value of type `s` from the start of `bytes`.
pub fn unmarshal(s: &RSig, bytes: &[u8], big: bool, offset: usize, nfds: usize) -> (Result<(RVal, usize), Rej>, bool) {
    let mut d = Dec::new(bytes, big, offset, nfds);
    let r = d.value(s, Depths::default());
    let grey = d.grey;
    (r.map(|v| (v, d.pos)), grey)
}

/// Strictly decode a sequence of types (message body).
pub fn unmarshal_seq(ss: &[RSig], bytes: &[u8], big: bool, offset: usize, nfds: usize) -> (Result<(Vec<RVal>, usize), Rej>, bool) {
    let mut d = Dec::new(bytes, big, offset, nfds);
    let mut out = vec![];
    for s in ss {
        match d.value(s, Depths::default()) {
            Ok(v) => out.push(v),
            Err(e) => return (Err(e), d.grey),
        }
    }
    let grey = d.grey;
    (Ok((out, d.pos)), grey)
}

/// Replace wire fd indices by harness handles (or vice versa) using `table[idx]`.
pub fn map_fds(v: &RVal, table: &[u32]) -> RVal {
    v.map(&|x| match x {
        RVal::H(i) => Some(RVal::H(table.get(*i as usize).copied().unwrap_or(u32::MAX))),
        _ => None,
    })
}

#[cfg(test)]
mod tests {
    use super::*;
    #[test]
    fn spec_examples() {
        // a(y) with two elements at offset 0 LE: len=9, pad to 8, 01, pad 7, 02
        let v = RVal::A(RSig::St(vec![RSig::Y]), vec![RVal::St(vec![RVal::Y(1)]), RVal::St(vec![RVal::Y(2)])]);
        let e = marshal(&v, false, 0);
        assert_eq!(e.bytes, vec![9, 0, 0, 0, 0, 0, 0, 0, 1, 0, 0, 0, 0, 0, 0, 0, 2]);
        let (r, _) = unmarshal(&v.sig(), &e.bytes, false, 0, 0);
        assert_eq!(r.unwrap(), (v, 17));
        // string "foo" BE at offset 1
        let e = marshal(&RVal::S("foo".into()), true, 1);
        assert_eq!(e.bytes, vec![0, 0, 0, 0, 0, 0, 3, b'f', b'o', b'o', 0]);
        // empty array of x: len 0 + padding to 8
        let e = marshal(&RVal::A(RSig::X, vec![]), false, 0);
        assert_eq!(e.bytes, vec![0, 0, 0, 0, 0, 0, 0, 0]);
        // variant of u32
        let e = marshal(&RVal::V(Box::new((RSig::U, RVal::U(7)))), false, 0);
        assert_eq!(e.bytes, vec![1, b'u', 0, 0, 7, 0, 0, 0]);
        let (r, _) = unmarshal(&RSig::S, &[1, 0, 0, 0, b'a', b'X'], false, 0, 0);
        assert_eq!(r, Err(Rej::Nul));
        let (r, _) = unmarshal(&RSig::B, &[2, 0, 0, 0], false, 0, 0);
        assert_eq!(r, Err(Rej::Bool));
    }
}
