//! Match rules: semantics and string syntax from the D-Bus specification ("Match Rules") and the
//! reference bus implementation's tokenizer (quoting with ' and the '\'' idiom).

use super::msg::{self, RMsg};
use super::val::RVal;

#[derive(Debug, Clone, PartialEq, Eq, Default)]
pub struct RRule {
    pub mtype: Option<u8>,
    pub sender: Option<String>,
    pub interface: Option<String>,
    pub member: Option<String>,
    pub path: Option<String>,
    pub path_namespace: Option<String>,
    pub destination: Option<String>,
    pub args: Vec<(u8, String)>,
    pub arg_paths: Vec<(u8, String)>,
    pub arg0namespace: Option<String>,
}

#[derive(Debug, Clone, Copy, PartialEq, Eq)]
pub enum Verdict {
    Match,
    NoMatch,
    /// depends on name ownership, which cannot be resolved locally (documented exception)
    Unresolvable,
}

fn is_unique(s: &str) -> bool {
    s.starts_with(':') || s == "org.freedesktop.DBus"
}

pub fn path_namespace_matches(ns: &str, path: &str) -> bool {
    if ns == "/" {
        return path.starts_with('/');
    }
    path == ns || (path.starts_with(ns) && path.as_bytes().get(ns.len()) == Some(&b'/'))
}

pub fn arg_path_matches(rule: &str, arg: &str) -> bool {
    if rule == arg {
        return true;
    }
    (rule.ends_with('/') && arg.starts_with(rule)) || (arg.ends_with('/') && rule.starts_with(arg))
}

pub fn namespace_matches(ns: &str, name: &str) -> bool {
    name == ns || (name.starts_with(ns) && name.as_bytes().get(ns.len()) == Some(&b'.'))
}

pub fn matches(r: &RRule, m: &RMsg) -> Verdict {
    let mut unresolvable = false;
    if let Some(t) = r.mtype {
        if t != m.mtype {
            return Verdict::NoMatch;
        }
    }
    if let Some(s) = &r.sender {
        if is_unique(s) {
            if m.get_str(msg::F_SENDER) != Some(s.as_str()) {
                return Verdict::NoMatch;
            }
        } else {
            unresolvable = true;
        }
    }
    if let Some(i) = &r.interface {
        if m.get_str(msg::F_INTERFACE) != Some(i.as_str()) {
            return Verdict::NoMatch;
        }
    }
    if let Some(x) = &r.member {
        if m.get_str(msg::F_MEMBER) != Some(x.as_str()) {
            return Verdict::NoMatch;
        }
    }
    if let Some(d) = &r.destination {
        match m.get_str(msg::F_DESTINATION) {
            None => return Verdict::NoMatch,
            Some(md) if is_unique(md) => {
                if md != d {
                    return Verdict::NoMatch;
                }
            }
            // message addressed to a well-known name: its owner cannot be resolved locally
            Some(_) => unresolvable = true,
        }
    }
    if let Some(p) = &r.path {
        if m.get_str(msg::F_PATH) != Some(p.as_str()) {
            return Verdict::NoMatch;
        }
    }
    if let Some(ns) = &r.path_namespace {
        match m.get_str(msg::F_PATH) {
            Some(p) if path_namespace_matches(ns, p) => {}
            _ => return Verdict::NoMatch,
        }
    }
    if let Some(ns) = &r.arg0namespace {
        match m.body.first() {
            Some(RVal::S(s)) if namespace_matches(ns, s) => {}
            _ => return Verdict::NoMatch,
        }
    }
    for (i, want) in &r.args {
        match m.body.get(*i as usize) {
            Some(RVal::S(s)) if s == want => {}
            _ => return Verdict::NoMatch,
        }
    }
    for (i, want) in &r.arg_paths {
        match m.body.get(*i as usize) {
            Some(RVal::S(s)) | Some(RVal::O(s)) if arg_path_matches(want, s) => {}
            _ => return Verdict::NoMatch,
        }
    }
    if unresolvable {
        Verdict::Unresolvable
    } else {
        Verdict::Match
    }
}

/// Tokenise a rule string the way the reference bus does: `key=value` pairs separated by commas;
/// in a value, '...' quotes everything literally (no escapes inside), outside quotes `\'` is a
/// literal apostrophe and any other character is literal up to the next comma.
pub fn tokenize(s: &str) -> Result<Vec<(String, String)>, String> {
    let b: Vec<char> = s.chars().collect();
    let mut i = 0;
    let mut out = vec![];
    while i < b.len() {
        // skip leading whitespace
        while i < b.len() && b[i].is_whitespace() {
            i += 1;
        }
        if i >= b.len() {
            break;
        }
        let mut key = String::new();
        while i < b.len() && b[i] != '=' && !b[i].is_whitespace() {
            key.push(b[i]);
            i += 1;
        }
        while i < b.len() && b[i].is_whitespace() {
            i += 1;
        }
        if key.is_empty() {
            return Err("empty key".into());
        }
        if i >= b.len() || b[i] != '=' {
            return Err(format!("missing '=' after key {key}"));
        }
        i += 1;
        let mut val = String::new();
        let mut in_q = false;
        loop {
            if i >= b.len() {
                if in_q {
                    return Err("unbalanced quotation marks".into());
                }
                break;
            }
            let c = b[i];
            if in_q {
                if c == '\'' {
                    in_q = false;
                } else {
                    val.push(c);
                }
                i += 1;
            } else if c == '\'' {
                in_q = true;
                i += 1;
            } else if c == '\\' {
                if i + 1 < b.len() && b[i + 1] == '\'' {
                    val.push('\'');
                    i += 2;
                } else {
                    val.push('\\');
                    i += 1;
                }
            } else if c == ',' {
                i += 1;
                break;
            } else {
                val.push(c);
                i += 1;
            }
        }
        out.push((key, val));
    }
    Ok(out)
}

pub fn parse(s: &str) -> Result<RRule, String> {
    let mut r = RRule::default();
    for (k, v) in tokenize(s)? {
        match k.as_str() {
            "type" => {
                r.mtype = Some(match v.as_str() {
                    "method_call" => 1,
                    "method_return" => 2,
                    "error" => 3,
                    "signal" => 4,
                    _ => return Err(format!("bad type {v}")),
                })
            }
            "sender" => r.sender = Some(v),
            "interface" => r.interface = Some(v),
            "member" => r.member = Some(v),
            "path" => r.path = Some(v),
            "path_namespace" => r.path_namespace = Some(v),
            "destination" => r.destination = Some(v),
            "arg0namespace" => r.arg0namespace = Some(v),
            k if k.starts_with("arg") => {
                let rest = &k[3..];
                if let Some(n) = rest.strip_suffix("path") {
                    let i: u8 = n.parse().map_err(|_| format!("bad key {k}"))?;
                    if i > 63 {
                        return Err(format!("arg index {i} > 63"));
                    }
                    r.arg_paths.push((i, v));
                } else {
                    let i: u8 = rest.parse().map_err(|_| format!("bad key {k}"))?;
                    if i > 63 {
                        return Err(format!("arg index {i} > 63"));
                    }
                    r.args.push((i, v));
                }
            }
            _ => return Err(format!("unknown key {k}")),
        }
    }
    r.args.sort();
    r.arg_paths.sort();
    Ok(r)
}

/// Canonical conformant printing (every value quoted, apostrophes as '\'').
pub fn print(r: &RRule) -> String {
    let q = |v: &str| format!("'{}'", v.replace('\'', "'\\''"));
    let mut parts = vec![];
    if let Some(t) = r.mtype {
        parts.push(format!("type='{}'", ["", "method_call", "method_return", "error", "signal"][t as usize]));
    }
    if let Some(v) = &r.sender {
        parts.push(format!("sender={}", q(v)));
    }
    if let Some(v) = &r.interface {
        parts.push(format!("interface={}", q(v)));
    }
    if let Some(v) = &r.member {
        parts.push(format!("member={}", q(v)));
    }
    if let Some(v) = &r.path {
        parts.push(format!("path={}", q(v)));
    }
    if let Some(v) = &r.path_namespace {
        parts.push(format!("path_namespace={}", q(v)));
    }
    if let Some(v) = &r.destination {
        parts.push(format!("destination={}", q(v)));
    }
    for (i, v) in &r.args {
        parts.push(format!("arg{i}={}", q(v)));
    }
    for (i, v) in &r.arg_paths {
        parts.push(format!("arg{i}path={}", q(v)));
    }
    if let Some(v) = &r.arg0namespace {
        parts.push(format!("arg0namespace={}", q(v)));
    }
    parts.join(",")
}

#[cfg(test)]
mod tests {
    use super::*;
    #[test]
    fn t() {
        assert!(path_namespace_matches("/foo", "/foo"));
        assert!(path_namespace_matches("/foo", "/foo/bar"));
        assert!(!path_namespace_matches("/foo", "/foobar"));
        assert!(path_namespace_matches("/", "/x"));
        // spec examples for arg0path='/aa/bb/'
        for (a, want) in [("/", true), ("/aa/", true), ("/aa/bb/", true), ("/aa/bb/cc/", true), ("/aa/bb/cc", true), ("/aa/b", false), ("/aa", false), ("/aa/bb", false)] {
            assert_eq!(arg_path_matches("/aa/bb/", a), want, "{a}");
        }
        assert!(namespace_matches("com.example", "com.example.x"));
        assert!(!namespace_matches("com.example", "com.examples"));
        let r = parse("type='signal',arg0='it'\\''s',arg1='a,b'").unwrap();
        assert_eq!(r.args, vec![(0, "it's".to_string()), (1, "a,b".to_string())]);
        assert!(parse("arg0='it's'").is_err());
        assert_eq!(parse(&print(&r)).unwrap(), r);
    }
}
