//! Reference value AST.

use super::sig::RSig;

#[derive(Debug, Clone, PartialEq, Eq, Hash)]
pub enum RVal {
    Y(u8),
    B(bool),
    N(i16),
    Q(u16),
    I(i32),
    U(u32),
    X(i64),
    T(u64),
    /// f64 by bits (so NaN payloads compare bitwise)
    D(u64),
    S(String),
    O(String),
    G(String),
    /// variant: contained type + value
    V(Box<(RSig, RVal)>),
    /// unix fd: index into the harness's fd table (not the wire index)
    H(u32),
    A(RSig, Vec<RVal>),
    Dict(RSig, RSig, Vec<(RVal, RVal)>),
    St(Vec<RVal>),
    M(RSig, Option<Box<RVal>>),
}

impl RVal {
    pub fn sig(&self) -> RSig {
        match self {
            RVal::Y(_) => RSig::Y,
            RVal::B(_) => RSig::B,
            RVal::N(_) => RSig::N,
            RVal::Q(_) => RSig::Q,
            RVal::I(_) => RSig::I,
            RVal::U(_) => RSig::U,
            RVal::X(_) => RSig::X,
            RVal::T(_) => RSig::T,
            RVal::D(_) => RSig::D,
            RVal::S(_) => RSig::S,
            RVal::O(_) => RSig::O,
            RVal::G(_) => RSig::G,
            RVal::V(_) => RSig::V,
            RVal::H(_) => RSig::H,
            RVal::A(e, _) => RSig::A(Box::new(e.clone())),
            RVal::Dict(k, v, _) => RSig::Dict(Box::new(k.clone()), Box::new(v.clone())),
            RVal::St(f) => RSig::St(f.iter().map(|x| x.sig()).collect()),
            RVal::M(c, _) => RSig::M(Box::new(c.clone())),
        }
    }

    /// Equality with dict entries compared as multisets (the wire format fixes no entry order).
    pub fn eq_unordered(&self, o: &RVal) -> bool {
        match (self, o) {
            (RVal::V(a), RVal::V(b)) => a.0 == b.0 && a.1.eq_unordered(&b.1),
            (RVal::A(e1, a), RVal::A(e2, b)) => e1 == e2 && a.len() == b.len() && a.iter().zip(b).all(|(x, y)| x.eq_unordered(y)),
            (RVal::St(a), RVal::St(b)) => a.len() == b.len() && a.iter().zip(b).all(|(x, y)| x.eq_unordered(y)),
            (RVal::M(c1, a), RVal::M(c2, b)) => {
                c1 == c2
                    && match (a, b) {
                        (None, None) => true,
                        (Some(x), Some(y)) => x.eq_unordered(y),
                        _ => false,
                    }
            }
            (RVal::Dict(k1, v1, a), RVal::Dict(k2, v2, b)) => {
                if k1 != k2 || v1 != v2 || a.len() != b.len() {
                    return false;
                }
                let mut used = vec![false; b.len()];
                'outer: for (ka, va) in a {
                    for (i, (kb, vb)) in b.iter().enumerate() {
                        if !used[i] && ka.eq_unordered(kb) && va.eq_unordered(vb) {
                            used[i] = true;
                            continue 'outer;
                        }
                    }
                    return false;
                }
                true
            }
            _ => self == o,
        }
    }

    pub fn depth(&self) -> usize {
        match self {
            RVal::V(b) => 1 + b.1.depth(),
            RVal::A(_, v) => 1 + v.iter().map(|x| x.depth()).max().unwrap_or(0),
            RVal::St(v) => 1 + v.iter().map(|x| x.depth()).max().unwrap_or(0),
            RVal::Dict(_, _, e) => 1 + e.iter().map(|(k, v)| k.depth().max(v.depth())).max().unwrap_or(0),
            RVal::M(_, v) => 1 + v.as_ref().map(|x| x.depth()).unwrap_or(0),
            _ => 0,
        }
    }

    pub fn any(&self, pred: &dyn Fn(&RVal) -> bool) -> bool {
        if pred(self) {
            return true;
        }
        match self {
            RVal::V(b) => b.1.any(pred),
            RVal::A(_, v) | RVal::St(v) => v.iter().any(|x| x.any(pred)),
            RVal::Dict(_, _, e) => e.iter().any(|(k, v)| k.any(pred) || v.any(pred)),
            RVal::M(_, Some(v)) => v.any(pred),
            _ => false,
        }
    }

    /// Map every leaf / node bottom-up.
    pub fn map(&self, f: &dyn Fn(&RVal) -> Option<RVal>) -> RVal {
        if let Some(r) = f(self) {
            return r;
        }
        match self {
            RVal::V(b) => RVal::V(Box::new((b.0.clone(), b.1.map(f)))),
            RVal::A(e, v) => RVal::A(e.clone(), v.iter().map(|x| x.map(f)).collect()),
            RVal::St(v) => RVal::St(v.iter().map(|x| x.map(f)).collect()),
            RVal::Dict(k, vs, e) => RVal::Dict(k.clone(), vs.clone(), e.iter().map(|(a, b)| (a.map(f), b.map(f))).collect()),
            RVal::M(c, Some(v)) => RVal::M(c.clone(), Some(Box::new(v.map(f)))),
            x => x.clone(),
        }
    }

    /// Short human-readable rendering for samples
    pub fn show(&self) -> String {
        match self {
            RVal::Y(v) => format!("y{v}"),
            RVal::B(v) => format!("{v}"),
            RVal::N(v) => format!("n{v}"),
            RVal::Q(v) => format!("q{v}"),
            RVal::I(v) => format!("i{v}"),
            RVal::U(v) => format!("u{v}"),
            RVal::X(v) => format!("x{v}"),
            RVal::T(v) => format!("t{v}"),
            RVal::D(v) => format!("d{:?}", f64::from_bits(*v)),
            RVal::S(s) => {
                if s.len() > 24 {
                    format!("s[{}B]", s.len())
                } else {
                    format!("{s:?}")
                }
            }
            RVal::O(s) => format!("o{s:?}"),
            RVal::G(s) => format!("g{s:?}"),
            RVal::V(b) => format!("<{}:{}>", b.0.to_string(), b.1.show()),
            RVal::H(i) => format!("h#{i}"),
            RVal::A(e, v) => {
                if v.len() > 6 {
                    format!("[{}×{}]", e.to_string(), v.len())
                } else {
                    format!("[{}:{}]", e.to_string(), v.iter().map(|x| x.show()).collect::<Vec<_>>().join(","))
                }
            }
            RVal::St(v) => format!("({})", v.iter().map(|x| x.show()).collect::<Vec<_>>().join(",")),
            RVal::Dict(k, vs, e) => format!(
                "{{{}{}:{}}}",
                k.to_string(),
                vs.to_string(),
                e.iter().take(6).map(|(a, b)| format!("{}={}", a.show(), b.show())).collect::<Vec<_>>().join(",")
            ),
            RVal::M(c, v) => match v {
                None => format!("nothing:{}", c.to_string()),
                Some(x) => format!("just {}", x.show()),
            },
        }
    }
}
