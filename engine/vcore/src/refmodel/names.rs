//! Name grammars from the D-Bus specification ("Valid Names", "Valid Object Paths", "UUIDs").

fn alnum_us(c: u8) -> bool {
    c.is_ascii_alphanumeric() || c == b'_'
}

pub fn object_path(b: &[u8]) -> bool {
    if b.is_empty() || b[0] != b'/' {
        return false;
    }
    if b.len() == 1 {
        return true;
    }
    // elements separated by single '/', no trailing '/'
    for el in b[1..].split(|c| *c == b'/') {
        if el.is_empty() || !el.iter().all(|c| alnum_us(*c)) {
            return false;
        }
    }
    true
}

/// interface / error names
pub fn interface_name(b: &[u8]) -> bool {
    if b.is_empty() || b.len() > 255 {
        return false;
    }
    let mut n = 0;
    for el in b.split(|c| *c == b'.') {
        n += 1;
        if el.is_empty() || el[0].is_ascii_digit() || !el.iter().all(|c| alnum_us(*c)) {
            return false;
        }
    }
    n >= 2
}

pub fn error_name(b: &[u8]) -> bool {
    interface_name(b)
}

pub fn member_name(b: &[u8]) -> bool {
    !b.is_empty() && b.len() <= 255 && !b[0].is_ascii_digit() && b.iter().all(|c| alnum_us(*c))
}

fn bus_el_char(c: u8) -> bool {
    alnum_us(c) || c == b'-'
}

pub fn unique_name(b: &[u8]) -> bool {
    if b.len() > 255 || b.len() < 2 || b[0] != b':' {
        return false;
    }
    let mut n = 0;
    for el in b[1..].split(|c| *c == b'.') {
        n += 1;
        if el.is_empty() || !el.iter().all(|c| bus_el_char(*c)) {
            return false;
        }
    }
    n >= 2
}

pub fn well_known_name(b: &[u8]) -> bool {
    if b.is_empty() || b.len() > 255 || b[0] == b':' {
        return false;
    }
    let mut n = 0;
    for el in b.split(|c| *c == b'.') {
        n += 1;
        if el.is_empty() || el[0].is_ascii_digit() || !el.iter().all(|c| bus_el_char(*c)) {
            return false;
        }
    }
    n >= 2
}

pub fn bus_name(b: &[u8]) -> bool {
    unique_name(b) || well_known_name(b)
}

pub fn guid(b: &[u8]) -> bool {
    b.len() == 32 && b.iter().all(|c| c.is_ascii_hexdigit())
}

#[cfg(test)]
mod tests {
    use super::*;
    #[test]
    fn t() {
        assert!(object_path(b"/"));
        assert!(object_path(b"/a/b_1"));
        assert!(!object_path(b"/a/"));
        assert!(!object_path(b"//"));
        assert!(!object_path(b"a"));
        assert!(!object_path(b"/a-b"));
        assert!(interface_name(b"a.b"));
        assert!(!interface_name(b"a"));
        assert!(!interface_name(b"a.1b"));
        assert!(!interface_name(b"a-b.c"));
        assert!(unique_name(b":1.42"));
        assert!(!unique_name(b":1"));
        assert!(well_known_name(b"a-b.c"));
        assert!(!well_known_name(b"a.1"));
        assert!(member_name(b"Foo_1"));
        assert!(!member_name(b"1Foo"));
        assert!(!member_name(b"a.b"));
    }
}
