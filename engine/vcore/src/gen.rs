//! Shared generators (signature, value, names) decoding a `Src` choice sequence.
//! Choice 0 is always the simplest alternative so that proptest's byte shrinking simplifies.

use crate::refmodel::sig::RSig;
use crate::refmodel::val::RVal;
use crate::src::Src;

#[derive(Clone, Copy)]
pub struct SigOpts {
    pub maybe: bool,
    pub fd: bool,
    pub variant: bool,
    pub max_depth: usize,
}
impl Default for SigOpts {
    fn default() -> Self {
        SigOpts { maybe: false, fd: true, variant: true, max_depth: 5 }
    }
}

const BASIC: [RSig; 13] = [RSig::Y, RSig::U, RSig::S, RSig::B, RSig::N, RSig::Q, RSig::I, RSig::X, RSig::T, RSig::D, RSig::O, RSig::G, RSig::H];

pub fn gen_basic(src: &mut Src, o: &SigOpts) -> RSig {
    let n = if o.fd { 13 } else { 12 };
    BASIC[src.below(n)].clone()
}

pub fn gen_sig(src: &mut Src, o: &SigOpts, depth: usize, fuel: &mut usize) -> RSig {
    if *fuel == 0 || depth >= o.max_depth {
        return gen_basic(src, o);
    }
    *fuel -= 1;
    // weights: basic, array, struct, dict, variant, maybe
    let w = [10, 5, 5, 3, if o.variant { 3 } else { 0 }, if o.maybe { 3 } else { 0 }];
    match src.weighted(&w) {
        0 => gen_basic(src, o),
        1 => RSig::A(Box::new(gen_sig(src, o, depth + 1, fuel))),
        2 => {
            let n = 1 + src.below(4);
            RSig::St((0..n).map(|_| gen_sig(src, o, depth + 1, fuel)).collect())
        }
        3 => {
            let k = gen_basic(src, o);
            RSig::Dict(Box::new(k), Box::new(gen_sig(src, o, depth + 1, fuel)))
        }
        4 => RSig::V,
        _ => RSig::M(Box::new(gen_sig(src, o, depth + 1, fuel))),
    }
}

pub const INTS64: [u64; 16] = [
    0,
    1,
    u64::MAX,
    0x7f,
    0x80,
    0xff,
    0x100,
    0x7fff,
    0x8000,
    0xffff,
    0x7fff_ffff,
    0x8000_0000,
    0xffff_ffff,
    0x7fff_ffff_ffff_ffff,
    0x8000_0000_0000_0000,
    0x0102_0304_0506_0708,
];

pub fn gen_u64(src: &mut Src) -> u64 {
    if src.chance(150) {
        src.u64()
    } else {
        INTS64[src.below(16)]
    }
}

pub const F64S: [u64; 12] = [
    0,                     // +0
    0x8000_0000_0000_0000, // -0
    0x3ff0_0000_0000_0000, // 1.0
    0xbff0_0000_0000_0000, // -1.0
    0x7ff0_0000_0000_0000, // +inf
    0xfff0_0000_0000_0000, // -inf
    0x7ff8_0000_0000_0000, // qNaN
    0xfff8_0000_0000_0001, // -qNaN payload
    0x7ff0_0000_0000_0001, // sNaN
    0x0000_0000_0000_0001, // subnormal
    0x7fef_ffff_ffff_ffff, // max
    0x4009_21fb_5444_2d18, // pi
];

pub fn gen_f64(src: &mut Src, nan: bool) -> u64 {
    let v = if src.chance(100) { src.u64() } else { F64S[src.below(12)] };
    if !nan && f64::from_bits(v).is_nan() {
        0x3ff8_0000_0000_0000
    } else {
        v
    }
}

const UNI: [&str; 8] = ["é", "ß", "→", "日本", "𝄞", "\u{7f}", "\u{1}", "\u{10ffff}"];

pub fn gen_string(src: &mut Src) -> String {
    match src.weighted(&[6, 10, 4, 1, 1]) {
        0 => String::new(),
        1 => {
            // length 0..=9 walks every alignment residue
            let n = src.below(10);
            (0..n).map(|_| (b'a' + src.below(26) as u8) as char).collect()
        }
        2 => {
            let n = 1 + src.below(6);
            let mut s = String::new();
            for _ in 0..n {
                if src.bool() {
                    s.push_str(UNI[src.below(8)]);
                } else {
                    s.push((0x20 + src.below(0x5f) as u8) as char);
                }
            }
            s
        }
        3 => {
            let n = 250 + src.below(12);
            "x".repeat(n)
        }
        _ => {
            let n = 10 + src.below(60);
            (0..n).map(|_| (0x20 + src.below(0x5f) as u8) as char).collect()
        }
    }
}

pub fn gen_path_element(src: &mut Src) -> String {
    const CH: &[u8] = b"abcXYZ019_";
    let n = 1 + src.below(5);
    (0..n).map(|_| CH[src.below(CH.len())] as char).collect()
}

pub fn gen_object_path(src: &mut Src) -> String {
    let n = src.below(5);
    if n == 0 {
        return "/".into();
    }
    let mut s = String::new();
    for _ in 0..n {
        s.push('/');
        s.push_str(&gen_path_element(src));
    }
    s
}

pub fn gen_sig_string(src: &mut Src, multi: bool) -> String {
    let n = if multi { src.below(4) } else { src.below(2) };
    let o = SigOpts { maybe: false, fd: true, variant: true, max_depth: 3 };
    let mut s = String::new();
    for _ in 0..n {
        let mut fuel = 4;
        gen_sig(src, &o, 0, &mut fuel).write(&mut s);
    }
    s
}

#[derive(Clone, Copy)]
pub struct ValOpts {
    pub nan: bool,
    pub nfds: u32,
    pub big_arrays: bool,
    /// dict keys distinct (needed when the value is going through HashMap/BTreeMap)
    pub distinct_keys: bool,
    /// allow 'g' values holding several complete types (zvariant's Signature type documents that it
    /// cannot tell "yy" from "(yy)", so values going through it use at most one complete type)
    pub multi_sig: bool,
}
impl Default for ValOpts {
    fn default() -> Self {
        ValOpts { nan: true, nfds: 4, big_arrays: true, distinct_keys: true, multi_sig: false }
    }
}

thread_local! {
    static VARIANT_LEVEL: std::cell::Cell<usize> = const { std::cell::Cell::new(0) };
}

pub fn gen_val(src: &mut Src, s: &RSig, o: &ValOpts, so: &SigOpts, fuel: &mut usize) -> RVal {
    match s {
        RSig::Y => RVal::Y(gen_u64(src) as u8),
        RSig::B => RVal::B(src.bool()),
        RSig::N => RVal::N(gen_u64(src) as i16),
        RSig::Q => RVal::Q(gen_u64(src) as u16),
        RSig::I => RVal::I(gen_u64(src) as i32),
        RSig::U => RVal::U(gen_u64(src) as u32),
        RSig::X => RVal::X(gen_u64(src) as i64),
        RSig::T => RVal::T(gen_u64(src)),
        RSig::D => RVal::D(gen_f64(src, o.nan)),
        RSig::S => RVal::S(gen_string(src)),
        RSig::O => RVal::O(gen_object_path(src)),
        RSig::G => RVal::G(gen_sig_string(src, o.multi_sig)),
        RSig::H => RVal::H(src.below(o.nfds.max(1) as usize) as u32),
        RSig::V => {
            // variants within variants: at most 8 levels (each level brings up to 3 containers of its
            // own), so that every generated value stays well inside the nesting limits whatever the
            // length of the choice string — values around the limits are C07's (and C03's) subject
            let level = VARIANT_LEVEL.with(|l| l.get());
            let mut sfuel = (*fuel).min(4);
            let so2 = SigOpts { max_depth: so.max_depth.min(3), ..*so };
            let inner = if level >= 8 {
                let _ = gen_sig(src, &so2, 0, &mut sfuel);
                RSig::U
            } else {
                gen_sig(src, &so2, 0, &mut sfuel)
            };
            VARIANT_LEVEL.with(|l| l.set(level + 1));
            let v = gen_val(src, &inner, o, so, fuel);
            VARIANT_LEVEL.with(|l| l.set(level));
            RVal::V(Box::new((inner, v)))
        }
        RSig::A(e) => {
            let n = gen_len(src, o, fuel, matches!(**e, RSig::Y));
            RVal::A((**e).clone(), (0..n).map(|_| gen_val(src, e, o, so, fuel)).collect())
        }
        RSig::Dict(k, v) => {
            let n = gen_len(src, o, fuel, false).min(6);
            let mut entries: Vec<(RVal, RVal)> = vec![];
            for _ in 0..n {
                let ko = ValOpts { nan: false, ..*o };
                let kv = gen_val(src, k, &ko, so, fuel);
                let vv = gen_val(src, v, o, so, fuel);
                if o.distinct_keys && entries.iter().any(|(x, _)| key_eq(x, &kv)) {
                    continue;
                }
                entries.push((kv, vv));
            }
            RVal::Dict((**k).clone(), (**v).clone(), entries)
        }
        RSig::St(f) => RVal::St(f.iter().map(|x| gen_val(src, x, o, so, fuel)).collect()),
        RSig::M(c) => {
            if src.bool() {
                RVal::M((**c).clone(), Some(Box::new(gen_val(src, c, o, so, fuel))))
            } else {
                RVal::M((**c).clone(), None)
            }
        }
    }
}

/// key equality as the Rust map types see it (f64 can't be a key; -0/+0 irrelevant)
fn key_eq(a: &RVal, b: &RVal) -> bool {
    match (a, b) {
        (RVal::D(x), RVal::D(y)) => f64::from_bits(*x) == f64::from_bits(*y),
        _ => a == b,
    }
}

fn gen_len(src: &mut Src, o: &ValOpts, fuel: &mut usize, bytes: bool) -> usize {
    if *fuel == 0 {
        return 0;
    }
    let n = match src.weighted(&[6, 6, 6, 3, 1]) {
        0 => 0,
        1 => 1,
        2 => 2,
        3 => 3 + src.below(4),
        _ => {
            if o.big_arrays && bytes {
                250 + src.below(60)
            } else {
                7 + src.below(10)
            }
        }
    };
    let n = if bytes { n } else { n.min(*fuel) };
    *fuel = fuel.saturating_sub(if bytes { 1 } else { n });
    n
}

/// A complete (sig, value) pair.
pub fn gen_typed(src: &mut Src, so: &SigOpts, vo: &ValOpts) -> (RSig, RVal) {
    VARIANT_LEVEL.with(|l| l.set(0));
    let mut sfuel = 1 + src.below(8);
    let s = gen_sig(src, so, 0, &mut sfuel);
    let mut vfuel = 24;
    let v = gen_val(src, &s, vo, so, &mut vfuel);
    (s, v)
}

/// classification labels for a signature
pub fn sig_classes(s: &RSig) -> Vec<&'static str> {
    let mut v = vec![];
    if s.is_basic() {
        v.push("basic");
    }
    if s.contains(&|x| x.is_stringlike()) {
        v.push("string-like");
    }
    if s.contains(&|x| matches!(x, RSig::A(e) if e.align()==8)) {
        v.push("array-of-8-aligned");
    }
    if s.contains(&|x| matches!(x, RSig::Dict(..))) {
        v.push("dict");
    }
    if s.contains(&|x| matches!(x, RSig::A(e) if matches!(**e, RSig::St(_)))) {
        v.push("struct-in-array");
    }
    if s.contains(&|x| matches!(x, RSig::V)) {
        v.push("variant");
    }
    if s.contains(&|x| matches!(x, RSig::H)) {
        v.push("fd");
    }
    if s.contains(&|x| matches!(x, RSig::M(_))) {
        v.push("maybe");
    }
    v
}

// ---- names -------------------------------------------------------------------------------------

fn gen_element(src: &mut Src, first: &[u8], rest: &[u8]) -> String {
    let n = src.below(5);
    let mut s = String::new();
    s.push(first[src.below(first.len())] as char);
    for _ in 0..n {
        s.push(rest[src.below(rest.len())] as char);
    }
    s
}

pub fn gen_interface_name(src: &mut Src) -> String {
    let n = 2 + src.below(3);
    (0..n).map(|_| gen_element(src, b"abcXYZ_", b"abcXYZ_019")).collect::<Vec<_>>().join(".")
}
pub fn gen_error_name(src: &mut Src) -> String {
    gen_interface_name(src)
}
pub fn gen_member_name(src: &mut Src) -> String {
    gen_element(src, b"abcXYZ_M", b"abcXYZ_019")
}
pub fn gen_well_known_name(src: &mut Src) -> String {
    let n = 2 + src.below(3);
    (0..n).map(|_| gen_element(src, b"abcXYZ_-", b"abcXYZ_-019")).collect::<Vec<_>>().join(".")
}
pub fn gen_unique_name(src: &mut Src) -> String {
    let n = 2 + src.below(2);
    format!(":{}", (0..n).map(|_| gen_element(src, b"0123456789a_-", b"0123456789ab_-")).collect::<Vec<_>>().join("."))
}
pub fn gen_bus_name(src: &mut Src) -> String {
    if src.bool() {
        gen_unique_name(src)
    } else {
        gen_well_known_name(src)
    }
}

/// message body: 0..=4 arguments
pub fn gen_body(src: &mut Src, so: &SigOpts, vo: &ValOpts) -> Vec<RVal> {
    VARIANT_LEVEL.with(|l| l.set(0));
    let n = src.weighted(&[3, 5, 4, 2, 1]);
    (0..n)
        .map(|_| {
            let mut sfuel = 1 + src.below(5);
            let s = gen_sig(src, so, 0, &mut sfuel);
            let mut vfuel = 10;
            gen_val(src, &s, vo, so, &mut vfuel)
        })
        .collect()
}
