//! Campaign runner: proptest-driven generation over byte strings, statistics, known findings,
//! replay files and evidence.

use crate::src::{fnv, hex, unhex, Src};
use proptest::prelude::*;
use proptest::test_runner::{Config, RngSeed, TestCaseError, TestError, TestRunner};
use serde_json::{json, Value as J};
use std::collections::{BTreeMap, HashSet};
use std::path::{Path, PathBuf};
use std::sync::atomic::{AtomicBool, Ordering};
use std::sync::Mutex;
use std::time::Instant;

pub const VERIF_ROOT: &str = "/verif";

/// where evidence and found cases are written (a scratch directory when the checks are run against
/// a modified copy of the repository: VERIF_OUT)
pub fn out_root() -> String {
    std::env::var("VERIF_OUT").unwrap_or_else(|_| VERIF_ROOT.to_string())
}

#[derive(Debug, Clone)]
pub struct Failure {
    /// classifier key (line-independent) used to match known findings
    pub key: Option<String>,
    pub msg: String,
}
impl Failure {
    pub fn new(msg: impl Into<String>) -> Self {
        Failure { key: None, msg: msg.into() }
    }
    pub fn keyed(key: impl Into<String>, msg: impl Into<String>) -> Self {
        Failure { key: Some(key.into()), msg: msg.into() }
    }
}
pub type CaseResult = Result<(), Failure>;

#[macro_export]
macro_rules! vfail {
    ($($arg:tt)*) => { return Err($crate::run::Failure::new(format!($($arg)*))) };
}
#[macro_export]
macro_rules! vensure {
    ($cond:expr, $($arg:tt)*) => { if !($cond) { return Err($crate::run::Failure::new(format!($($arg)*))); } };
}

/// Per-case observation sink.
#[derive(Default)]
pub struct Obs {
    pub labels: BTreeMap<String, u64>,
    pub nontrivial: HashSet<u64>,
    pub samples: Vec<(String, String)>,
    pub evaluations: u64,
    pub excluded_known: BTreeMap<String, u64>,
    pub counters: BTreeMap<String, u64>,
    /// non-trivial cases that are distinct by construction (exhaustive enumerations)
    pub distinct_extra: u64,
    pub enabled: bool,
    sample_labels: HashSet<String>,
}
impl Obs {
    pub fn new() -> Self {
        Obs { enabled: true, ..Default::default() }
    }
    pub fn label(&mut self, l: &str) {
        if self.enabled {
            *self.labels.entry(l.to_string()).or_insert(0) += 1;
        }
    }
    pub fn count(&mut self, l: &str, n: u64) {
        if self.enabled {
            *self.counters.entry(l.to_string()).or_insert(0) += n;
        }
    }
    pub fn nontrivial(&mut self, h: u64) {
        if self.enabled {
            self.nontrivial.insert(h);
        }
    }
    /// a non-trivial case of an enumeration whose cases are pairwise distinct by construction
    pub fn nontrivial_enumerated(&mut self) {
        if self.enabled {
            self.distinct_extra += 1;
        }
    }
    pub fn nontrivial_bytes(&mut self, b: &[u8]) {
        self.nontrivial(fnv(b));
    }
    /// Keep at most one sample per class, at most 10 classes.
    pub fn sample(&mut self, class: &str, f: impl FnOnce() -> String) {
        if self.enabled && self.samples.len() < 10 && !self.sample_labels.contains(class) {
            self.sample_labels.insert(class.to_string());
            let mut s = f();
            if s.len() > 600 {
                let mut cut = 600;
                while !s.is_char_boundary(cut) {
                    cut -= 1;
                }
                s.truncate(cut);
                s.push('…');
            }
            self.samples.push((class.to_string(), s));
        }
    }
    pub fn merge(&mut self, o: Obs) {
        for (k, v) in o.labels {
            *self.labels.entry(k).or_insert(0) += v;
        }
        for (k, v) in o.counters {
            *self.counters.entry(k).or_insert(0) += v;
        }
        for (k, v) in o.excluded_known {
            *self.excluded_known.entry(k).or_insert(0) += v;
        }
        self.nontrivial.extend(o.nontrivial);
        self.evaluations += o.evaluations;
        self.distinct_extra += o.distinct_extra;
        for (c, s) in o.samples {
            if self.samples.len() < 10 && !self.sample_labels.contains(&c) {
                self.sample_labels.insert(c.clone());
                self.samples.push((c, s));
            }
        }
    }
}

#[derive(Debug, Clone)]
pub struct Known {
    pub key: String,
    pub witness: String,
    pub desc: String,
}

pub fn load_known(property: &str) -> Vec<Known> {
    let mut out = vec![];
    let txt = std::fs::read_to_string(format!("{VERIF_ROOT}/known-findings.txt")).unwrap_or_default();
    for line in txt.lines() {
        let line = line.trim();
        if !line.starts_with("open:") {
            continue;
        }
        let rest = line["open:".len()..].trim();
        let mut prop = "";
        let mut key = "";
        let mut witness = "";
        let mut desc = vec![];
        for tok in rest.split_whitespace() {
            if let Some(v) = tok.strip_prefix("property=") {
                prop = v;
            } else if let Some(v) = tok.strip_prefix("key=") {
                key = v;
            } else if let Some(v) = tok.strip_prefix("witness=") {
                witness = v;
            } else {
                desc.push(tok);
            }
        }
        if prop == property {
            out.push(Known { key: key.to_string(), witness: witness.to_string(), desc: desc.join(" ") });
        }
    }
    out
}

/// A key naming several co-occurring deviations ("a+b") is known iff every component is known.
pub fn key_known(key: &str, known: &[String]) -> bool {
    !key.is_empty() && key.split('+').all(|part| known.iter().any(|k| k == part))
}

pub type CaseFn<'a> = &'a (dyn Fn(&mut Src, &mut Obs) -> CaseResult + Sync);

thread_local! {
    static LAST_PANIC: std::cell::RefCell<Option<(String, String)>> = std::cell::RefCell::new(None);
    static QUIET: std::cell::Cell<bool> = std::cell::Cell::new(false);
}

pub fn install_panic_hook() {
    let prev = std::panic::take_hook();
    std::panic::set_hook(Box::new(move |info| {
        let loc = info.location().map(|l| l.file().to_string()).unwrap_or_default();
        let msg = if let Some(s) = info.payload().downcast_ref::<&str>() {
            s.to_string()
        } else if let Some(s) = info.payload().downcast_ref::<String>() {
            s.clone()
        } else {
            "<non-string panic>".to_string()
        };
        let line = info.location().map(|l| l.line()).unwrap_or(0);
        LAST_PANIC.with(|p| *p.borrow_mut() = Some((loc.clone(), format!("{msg} @{loc}:{line}"))));
        if !QUIET.with(|q| q.get()) {
            prev(info);
        } else if std::env::var("VERIF_BACKTRACE").is_ok() {
            eprintln!("panic: {msg} at {loc}:{line}\n{}", std::backtrace::Backtrace::force_capture());
        }
    }));
}

/// Short, line-independent key of a panic: file tail + first words of the message with digits
/// removed.
pub fn panic_key(file: &str, msg: &str) -> String {
    let file = file.rsplit("/src/").next().unwrap_or(file);
    let crate_name = if let Some(idx) = file.find("/src/") { &file[..idx] } else { "" };
    let _ = crate_name;
    let m: String = msg
        .split(" @")
        .next()
        .unwrap_or("")
        .chars()
        .filter(|c| c.is_ascii_alphabetic() || *c == ' ')
        .collect();
    let words: Vec<&str> = m.split_whitespace().take(5).collect();
    format!("panic:{}:{}", file.replace('/', "."), words.join("-"))
}

/// Run `f` catching panics; a panic becomes a keyed Failure.
pub fn guarded<R>(f: impl FnOnce() -> R) -> Result<R, Failure> {
    QUIET.with(|q| q.set(true));
    LAST_PANIC.with(|p| *p.borrow_mut() = None);
    let r = std::panic::catch_unwind(std::panic::AssertUnwindSafe(f));
    QUIET.with(|q| q.set(false));
    match r {
        Ok(v) => Ok(v),
        Err(_) => {
            let (file, msg) = LAST_PANIC.with(|p| p.borrow_mut().take()).unwrap_or_default();
            Err(Failure::keyed(panic_key(&file, &msg), format!("panic: {msg}")))
        }
    }
}

pub struct Violation {
    pub check: String,
    pub bytes: Vec<u8>,
    pub msg: String,
    pub key: Option<String>,
    pub replay: PathBuf,
}

pub struct Run {
    pub property: String,
    pub tier: String,
    pub seed: u64,
    pub level: String,
    pub known: Vec<Known>,
    pub obs: Obs,
    pub violations: Vec<Violation>,
    pub start: Instant,
    pub rule: String,
    pub assumptions: Vec<String>,
    pub extra: BTreeMap<String, J>,
    pub exhaustive: Option<bool>,
    pub budget_s: f64,
    pub truncated: bool,
    pub known_seen: Vec<String>,
    pub strict: bool,
}

pub fn env_seed() -> u64 {
    std::env::var("VERIF_SEED").ok().and_then(|s| s.trim().parse::<i64>().ok()).unwrap_or(0) as u64
}
pub fn env_tier() -> String {
    std::env::var("VERIF_TIER").unwrap_or_else(|_| "quick".into())
}
pub fn nthreads() -> usize {
    std::env::var("VERIF_THREADS")
        .ok()
        .and_then(|s| s.parse().ok())
        .unwrap_or_else(|| std::thread::available_parallelism().map(|n| n.get()).unwrap_or(4).min(16))
}

impl Run {
    pub fn new(property: &str, tier: &str) -> Run {
        install_panic_hook();
        let seed = env_seed();
        let budget_s = std::env::var("VERIF_BUDGET_S").ok().and_then(|s| s.parse().ok()).unwrap_or(
            if tier == "quick" { 600.0 } else { 3600.0 },
        );
        Run {
            property: property.to_string(),
            tier: tier.to_string(),
            seed,
            level: "exploration".into(),
            known: load_known(property),
            obs: Obs::new(),
            violations: vec![],
            start: Instant::now(),
            rule: String::new(),
            assumptions: vec![],
            extra: BTreeMap::new(),
            exhaustive: None,
            budget_s,
            truncated: false,
            known_seen: vec![],
            strict: false,
        }
    }
    pub fn is_quick(&self) -> bool {
        self.tier == "quick"
    }
    pub fn pick<T>(&self, quick: T, thorough: T) -> T {
        if self.is_quick() {
            quick
        } else {
            thorough
        }
    }
    pub fn over_budget(&self) -> bool {
        self.start.elapsed().as_secs_f64() > self.budget_s
    }
    fn is_known(&self, key: &Option<String>) -> bool {
        if self.strict {
            return false;
        }
        match key {
            Some(k) => key_known(k, &self.known.iter().map(|k| k.key.clone()).collect::<Vec<_>>()),
            None => false,
        }
    }

    fn subseed(&self, check: &str, worker: usize) -> u64 {
        let mut h = fnv(self.property.as_bytes()) ^ fnv(check.as_bytes()).rotate_left(17);
        h ^= self.seed.wrapping_mul(0x9E3779B97F4A7C15);
        h ^= (worker as u64).wrapping_mul(0xD1B54A32D192ED03);
        h
    }

    /// Random campaign: `cases` byte strings of length ≤ max_len, over all worker threads.
    pub fn campaign(&mut self, check: &str, cases: u64, max_len: usize, f: CaseFn) {
        let threads = nthreads().max(1);
        self.campaign_t(check, cases, max_len, threads, f)
    }

    pub fn campaign_t(&mut self, check: &str, cases: u64, max_len: usize, threads: usize, f: CaseFn) {
        if !self.violations.is_empty() && self.violations.iter().any(|v| v.check == check) {
            return;
        }
        let stop = AtomicBool::new(false);
        let results: Mutex<Vec<(Obs, Option<(Vec<u8>, Failure)>)>> = Mutex::new(vec![]);
        let per = (cases + threads as u64 - 1) / threads as u64;
        let known_keys: Vec<String> = if self.strict { vec![] } else { self.known.iter().map(|k| k.key.clone()).collect() };
        let deadline = self.budget_s - self.start.elapsed().as_secs_f64();
        let t0 = Instant::now();
        let truncated = AtomicBool::new(false);
        std::thread::scope(|s| {
            for w in 0..threads {
                let seed = self.subseed(check, w);
                let stop = &stop;
                let results = &results;
                let known_keys = &known_keys;
                let find_key: Option<String> = std::env::var("VERIF_FIND_KEY").ok();
                let truncated = &truncated;
                std::thread::Builder::new()
                    .stack_size(64 << 20)
                    .spawn_scoped(s, move || {
                        let obs = std::cell::RefCell::new(Obs::new());
                        let mut seedbytes = [0u8; 32];
                        for (i, b) in seedbytes.iter_mut().enumerate() {
                            *b = (seed.rotate_left((i * 7) as u32) >> (i % 8)) as u8;
                        }
                        let _ = seedbytes;
                        let cfg = Config {
                            cases: per as u32,
                            failure_persistence: None,
                            rng_seed: RngSeed::Fixed(seed),
                            max_shrink_iters: 20000,
                            max_shrink_time: 45_000,
                            verbose: 0,
                            ..Config::default()
                        };
                        let mut runner = TestRunner::new(cfg);
                        let strat = proptest::collection::vec(any::<u8>(), 0..=max_len);
                        let failed = std::cell::Cell::new(false);
                        let last_fail: std::cell::RefCell<Option<Failure>> = std::cell::RefCell::new(None);
                        let res = runner.run(&strat, |bytes| {
                            if !failed.get() {
                                if stop.load(Ordering::Relaxed) {
                                    return Ok(());
                                }
                                if t0.elapsed().as_secs_f64() > deadline {
                                    truncated.store(true, Ordering::Relaxed);
                                    return Ok(());
                                }
                            }
                            let mut o = obs.borrow_mut();
                            if !failed.get() {
                                o.evaluations += 1;
                            }
                            let mut src = Src::new(&bytes);
                            let r = match guarded(|| f(&mut src, &mut o)) {
                                Ok(r) => r,
                                Err(p) => Err(p),
                            };
                            match r {
                                Ok(()) => Ok(()),
                                Err(fail) => {
                                    if let Some(want) = &find_key {
                                        // witness hunting: only failures with exactly this key count
                                        if fail.key.as_deref() != Some(want.as_str()) {
                                            return Ok(());
                                        }
                                    } else if let Some(k) = &fail.key {
                                        if key_known(k, known_keys) {
                                            if !failed.get() {
                                                *o.excluded_known.entry(k.clone()).or_insert(0) += 1;
                                            }
                                            return Ok(());
                                        }
                                    }
                                    failed.set(true);
                                    o.enabled = false;
                                    let m = fail.msg.clone();
                                    *last_fail.borrow_mut() = Some(fail);
                                    Err(TestCaseError::fail(m))
                                }
                            }
                        });
                        let fail = match res {
                            Ok(()) => None,
                            Err(TestError::Fail(_, bytes)) => {
                                stop.store(true, Ordering::Relaxed);
                                // re-run the minimal case to get its own failure message/key
                                let mut o = Obs::new();
                                o.enabled = false;
                                let mut src = Src::new(&bytes);
                                let r = match guarded(|| f(&mut src, &mut o)) {
                                    Ok(r) => r,
                                    Err(p) => Err(p),
                                };
                                let fl = match r {
                                    Err(fl) => fl,
                                    Ok(()) => last_fail.borrow_mut().take().unwrap_or(Failure::new("unstable failure")),
                                };
                                Some((bytes, fl))
                            }
                            Err(TestError::Abort(r)) => Some((vec![], Failure::keyed("infra:abort", format!("proptest abort: {r}")))),
                        };
                        let mut o = obs.into_inner();
                        o.enabled = true;
                        results.lock().unwrap().push((o, fail));
                    })
                    .unwrap();
            }
        });
        if truncated.load(Ordering::Relaxed) {
            self.truncated = true;
        }
        let mut rs = results.into_inner().unwrap();
        // deterministic order of reporting: smallest failing input first
        rs.sort_by_key(|(_, f)| f.as_ref().map(|(b, _)| b.len()).unwrap_or(usize::MAX));
        let mut reported = false;
        for (o, fail) in rs {
            self.obs.merge(o);
            if let Some((bytes, fl)) = fail {
                if !reported {
                    reported = true;
                    self.add_violation(check, bytes, fl);
                }
            }
        }
    }

    /// Exhaustive enumeration: case `i` in 0..total is the byte string `make(i)`, checked by `f`
    /// on all worker threads. The smallest failing index is reported.
    pub fn enumerate(&mut self, check: &str, total: u64, make: &(dyn Fn(u64) -> Vec<u8> + Sync), f: CaseFn) {
        let threads = nthreads().max(1) as u64;
        let results: Mutex<Vec<(Obs, Option<(u64, Vec<u8>, Failure)>)>> = Mutex::new(vec![]);
        let known_keys: Vec<String> = if self.strict { vec![] } else { self.known.iter().map(|k| k.key.clone()).collect() };
        let stop = AtomicBool::new(false);
        let chunk = 4096u64;
        let next = std::sync::atomic::AtomicU64::new(0);
        let deadline = self.budget_s - self.start.elapsed().as_secs_f64();
        let t0 = Instant::now();
        let truncated = AtomicBool::new(false);
        std::thread::scope(|s| {
            for _ in 0..threads {
                let results = &results;
                let known_keys = &known_keys;
                let stop = &stop;
                let next = &next;
                let truncated = &truncated;
                std::thread::Builder::new()
                    .stack_size(64 << 20)
                    .spawn_scoped(s, move || {
                        let mut obs = Obs::new();
                        let mut fail = None;
                        'outer: loop {
                            let lo = next.fetch_add(chunk, Ordering::Relaxed);
                            if lo >= total || stop.load(Ordering::Relaxed) {
                                break;
                            }
                            if t0.elapsed().as_secs_f64() > deadline {
                                truncated.store(true, Ordering::Relaxed);
                                break;
                            }
                            for i in lo..(lo + chunk).min(total) {
                                let bytes = make(i);
                                obs.evaluations += 1;
                                let mut src = Src::new(&bytes);
                                let r = match guarded(|| f(&mut src, &mut obs)) {
                                    Ok(r) => r,
                                    Err(p) => Err(p),
                                };
                                if let Err(fl) = r {
                                    if let Some(k) = &fl.key {
                                        if key_known(k, known_keys) {
                                            *obs.excluded_known.entry(k.clone()).or_insert(0) += 1;
                                            continue;
                                        }
                                    }
                                    fail = Some((i, bytes, fl));
                                    stop.store(true, Ordering::Relaxed);
                                    break 'outer;
                                }
                            }
                        }
                        results.lock().unwrap().push((obs, fail));
                    })
                    .unwrap();
            }
        });
        if truncated.load(Ordering::Relaxed) {
            self.truncated = true;
        }
        let mut rs = results.into_inner().unwrap();
        rs.sort_by_key(|(_, f)| f.as_ref().map(|(i, _, _)| *i).unwrap_or(u64::MAX));
        let mut reported = false;
        for (o, fail) in rs {
            self.obs.merge(o);
            if let Some((_, bytes, fl)) = fail {
                if !reported {
                    reported = true;
                    self.add_violation(check, bytes, fl);
                }
            }
        }
    }

    /// A single deterministic case (enumeration loops call this).
    pub fn case(&mut self, check: &str, bytes: &[u8], f: CaseFn) -> bool {
        self.obs.evaluations += 1;
        let mut src = Src::new(bytes);
        let obs = &mut self.obs;
        let r = match guarded(|| f(&mut src, obs)) {
            Ok(r) => r,
            Err(p) => Err(p),
        };
        match r {
            Ok(()) => true,
            Err(fl) => {
                if self.is_known(&fl.key) {
                    *self.obs.excluded_known.entry(fl.key.clone().unwrap()).or_insert(0) += 1;
                    true
                } else {
                    self.add_violation(check, bytes.to_vec(), fl);
                    false
                }
            }
        }
    }

    /// Record a failure found by a custom (non byte-string) enumeration; `case` is its replayable
    /// description which the harness's own replay path understands.
    pub fn custom_failure(&mut self, check: &str, case: J, fl: Failure) -> bool {
        if self.is_known(&fl.key) {
            *self.obs.excluded_known.entry(fl.key.clone().unwrap()).or_insert(0) += 1;
            return false;
        }
        if self.violations.iter().filter(|v| v.check == check).count() >= 1 {
            return true;
        }
        let dir = PathBuf::from(format!("{}/found/{}", out_root(), self.property));
        let _ = std::fs::create_dir_all(&dir);
        let h = fnv(case.to_string().as_bytes());
        let path = dir.join(format!("{}-{:08x}.json", check, h as u32));
        let j = json!({"property": self.property, "check": check, "seed": self.seed, "case": case,
            "key": fl.key, "message": fl.msg});
        let _ = std::fs::write(&path, serde_json::to_string_pretty(&j).unwrap());
        self.violations.push(Violation { check: check.into(), bytes: vec![], msg: fl.msg, key: fl.key, replay: path });
        true
    }

    fn add_violation(&mut self, check: &str, bytes: Vec<u8>, fl: Failure) {
        let dir = PathBuf::from(format!("{}/found/{}", out_root(), self.property));
        let _ = std::fs::create_dir_all(&dir);
        let h = fnv(&bytes) ^ fnv(check.as_bytes());
        let path = dir.join(format!("{}-{:08x}.json", check, h as u32));
        let j = json!({"property": self.property, "check": check, "seed": self.seed, "bytes": hex(&bytes),
            "key": fl.key, "message": fl.msg, "program": std::env::var("VERIF_PROGRAM").ok()});
        let _ = std::fs::write(&path, serde_json::to_string_pretty(&j).unwrap());
        self.violations.push(Violation { check: check.into(), bytes, msg: fl.msg, key: fl.key, replay: path });
    }

    /// Replay every committed file in replays/<ID>/ that belongs to `check` (regression tier), and
    /// the witnesses of open known findings.
    pub fn replay_committed(&mut self, check: &str, f: CaseFn) {
        let dir = format!("{VERIF_ROOT}/replays/{}", self.property);
        let mut files: Vec<PathBuf> = std::fs::read_dir(&dir)
            .map(|d| d.filter_map(|e| e.ok().map(|e| e.path())).collect())
            .unwrap_or_default();
        files.sort();
        for p in files {
            if p.extension().map(|e| e != "json").unwrap_or(true) {
                continue;
            }
            let Some((c, bytes)) = read_replay(&p) else { continue };
            if c != check {
                continue;
            }
            let rel = p.strip_prefix(VERIF_ROOT).map(|x| x.to_string_lossy().trim_start_matches('/').to_string()).unwrap_or_default();
            let known = self.known.iter().find(|k| k.witness == rel).cloned();
            self.obs.evaluations += 1;
            let mut src = Src::new(&bytes);
            let mut o = Obs::new();
            let r = match guarded(|| f(&mut src, &mut o)) {
                Ok(r) => r,
                Err(p) => Err(p),
            };
            self.obs.label("replayed-file");
            match (r, known) {
                (Ok(()), None) => {}
                (Ok(()), Some(k)) => {
                    println!("NOTE: witness of known finding key={} no longer fails ({})", k.key, rel);
                }
                (Err(fl), Some(k)) if !self.strict && fl.key.as_deref() == Some(k.key.as_str()) => {
                    let line = format!("KNOWN-FINDING: property={} key={} {}", self.property, k.key, k.desc);
                    println!("{line}");
                    self.known_seen.push(k.key.clone());
                }
                (Err(fl), _) => {
                    if self.is_known(&fl.key) {
                        *self.obs.excluded_known.entry(fl.key.clone().unwrap()).or_insert(0) += 1;
                    } else {
                        self.add_violation(check, bytes, fl);
                    }
                }
            }
        }
    }

    pub fn replay_file(&mut self, path: &Path, checks: &[(&str, CaseFn)]) {
        self.strict = std::env::var("VERIF_REPLAY_LENIENT").is_err();
        let Some((c, bytes)) = read_replay(path) else {
            eprintln!("cannot read replay file {}", path.display());
            std::process::exit(2);
        };
        for (name, f) in checks {
            if *name == c {
                let mut src = Src::new(&bytes);
                let mut o = Obs::new();
                self.obs.evaluations += 1;
                let r = match guarded(|| f(&mut src, &mut o)) {
                    Ok(r) => r,
                    Err(p) => Err(p),
                };
                self.obs.merge(o);
                if let Err(fl) = r {
                    println!("replay fails: key={:?} {}", fl.key, fl.msg);
                    self.violations.push(Violation { check: c.clone(), bytes: bytes.clone(), msg: fl.msg, key: fl.key, replay: path.to_path_buf() });
                } else {
                    println!("replay passes");
                }
                return;
            }
        }
        eprintln!("no check named {c} in this harness");
        std::process::exit(2);
    }

    pub fn finish(mut self) -> ! {
        let wall = self.start.elapsed().as_secs_f64();
        let mut samples: Vec<J> = self.obs.samples.iter().map(|(c, s)| json!({"class": c, "case": s})).collect();
        if samples.is_empty() {
            samples.push(json!({"class": "none", "case": "(no sample recorded)"}));
        }
        let mut cov = serde_json::Map::new();
        cov.insert("evaluations".into(), json!(self.obs.evaluations.max(0)));
        cov.insert("distinct_nontrivial".into(), json!(self.obs.nontrivial.len() as u64 + self.obs.distinct_extra));
        cov.insert("rule".into(), json!(self.rule));
        cov.insert("samples".into(), J::Array(samples));
        cov.insert("classes".into(), json!(self.obs.labels));
        if !self.obs.counters.is_empty() {
            cov.insert("counters".into(), json!(self.obs.counters));
        }
        cov.insert("excluded_known".into(), json!(self.obs.excluded_known));
        cov.insert("known_findings_reconfirmed".into(), json!(self.known_seen));
        if let Some(e) = self.exhaustive {
            cov.insert("exhaustive".into(), json!(e));
        }
        if self.truncated {
            cov.insert("truncated_by_budget".into(), json!(true));
        }
        for (k, v) in std::mem::take(&mut self.extra) {
            cov.insert(k, v);
        }
        let ev = json!({
            "property_id": self.property,
            "tier": self.tier,
            "seed": self.seed as i64,
            "level": self.level,
            "coverage": J::Object(cov),
            "assumptions": self.assumptions,
            "wall_s": (wall * 1000.0).round() / 1000.0,
            "violations": self.violations.len(),
        });
        let evdir = format!("{}/evidence", out_root());
        let _ = std::fs::create_dir_all(&evdir);
        if std::env::var("VERIF_NO_EVIDENCE").is_err() {
            let name = match std::env::var("VERIF_EVIDENCE_TAG") {
                Ok(t) if !t.is_empty() => format!("{evdir}/{}.{}.json", self.property, t),
                _ => format!("{evdir}/{}.json", self.property),
            };
            let _ = std::fs::write(name, serde_json::to_string_pretty(&ev).unwrap() + "\n");
        }
        println!(
            "{}: tier={} seed={} evaluations={} nontrivial={} excluded_known={:?} wall={:.1}s",
            self.property,
            self.tier,
            self.seed,
            self.obs.evaluations,
            self.obs.nontrivial.len() as u64 + self.obs.distinct_extra,
            self.obs.excluded_known,
            wall
        );
        if self.violations.is_empty() {
            std::process::exit(0);
        }
        for v in &self.violations {
            println!("  check={} key={:?} input={} : {}", v.check, v.key, hex(&v.bytes[..v.bytes.len().min(64)]), v.msg);
            println!("VIOLATION property={} replay={}", self.property, v.replay.display());
        }
        std::process::exit(1);
    }
}

pub fn read_replay(p: &Path) -> Option<(String, Vec<u8>)> {
    let txt = std::fs::read_to_string(p).ok()?;
    let j: J = serde_json::from_str(&txt).ok()?;
    let check = j.get("check")?.as_str()?.to_string();
    let bytes = match j.get("bytes").and_then(|b| b.as_str()) {
        Some(h) => unhex(h)?,
        None => j.get("case").map(|c| c.to_string().into_bytes()).unwrap_or_default(),
    };
    Some((check, bytes))
}
