//! Glue for the coverage-guided (libFuzzer) targets: the same case functions the proptest campaigns
//! run, with the oracle inside the target. A failure whose key is an open known finding is
//! tolerated (so the campaign goes on); any other failure is written as a replay file in the
//! campaign format and the process aborts, which libFuzzer records as a crash.

use crate::run::{guarded, install_panic_hook, key_known, load_known, out_root, CaseFn, Failure, Obs};
use crate::src::{fnv, hex, Src};
use serde_json::json;
use std::sync::atomic::{AtomicU64, Ordering};
use std::sync::OnceLock;

static KNOWN: OnceLock<Vec<String>> = OnceLock::new();
pub static TOLERATED: AtomicU64 = AtomicU64::new(0);

pub fn run_case(property: &str, check: &str, data: &[u8], f: CaseFn) {
    let known = KNOWN.get_or_init(|| {
        install_panic_hook();
        load_known(property).into_iter().map(|k| k.key).collect()
    });
    let mut src = Src::new(data);
    let mut obs = Obs::new();
    obs.enabled = false;
    let r = match guarded(|| f(&mut src, &mut obs)) {
        Ok(r) => r,
        Err(p) => Err(p),
    };
    if let Err(fl) = r {
        if let Some(k) = &fl.key {
            if key_known(k, known) {
                TOLERATED.fetch_add(1, Ordering::Relaxed);
                return;
            }
        }
        report(property, check, data, &fl);
    }
}

fn report(property: &str, check: &str, data: &[u8], fl: &Failure) -> ! {
    let dir = format!("{}/found/{}", out_root(), property);
    let _ = std::fs::create_dir_all(&dir);
    let h = fnv(data) ^ fnv(check.as_bytes());
    let path = format!("{dir}/fuzz-{check}-{:08x}.json", h as u32);
    let j = json!({"property": property, "check": check, "seed": 0, "bytes": hex(data), "key": fl.key, "message": fl.msg, "found_by": "libFuzzer"});
    let _ = std::fs::write(&path, serde_json::to_string_pretty(&j).unwrap());
    eprintln!("ORACLE-FAILURE property={property} replay={path}\n  {}", fl.msg);
    std::process::abort();
}
