//! Choice source: every generated case is a pure function of a byte string.
//!
//! The byte string comes from proptest (`vec(any::<u8>())`, so shrinking = deleting bytes and
//! lowering them) or from libFuzzer. All decoders are written so that byte 0 / exhausted input
//! means "the simplest alternative".

#[derive(Clone)]
pub struct Src<'a> {
    data: &'a [u8],
    pos: usize,
}

impl<'a> Src<'a> {
    pub fn new(data: &'a [u8]) -> Self {
        Src { data, pos: 0 }
    }
    pub fn exhausted(&self) -> bool {
        self.pos >= self.data.len()
    }
    pub fn remaining(&self) -> usize {
        self.data.len().saturating_sub(self.pos)
    }
    pub fn u8(&mut self) -> u8 {
        let b = self.data.get(self.pos).copied().unwrap_or(0);
        self.pos += 1;
        b
    }
    pub fn u16(&mut self) -> u16 {
        u16::from_le_bytes([self.u8(), self.u8()])
    }
    pub fn u32(&mut self) -> u32 {
        u32::from_le_bytes([self.u8(), self.u8(), self.u8(), self.u8()])
    }
    pub fn u64(&mut self) -> u64 {
        (self.u32() as u64) | ((self.u32() as u64) << 32)
    }
    /// Uniform-ish in 0..n (n ≥ 1); monotone in the input byte(s) so shrinking works.
    pub fn below(&mut self, n: usize) -> usize {
        if n <= 1 {
            return 0;
        }
        if n <= 256 {
            (self.u8() as usize * n) >> 8
        } else if n <= 65536 {
            (self.u16() as usize * n) >> 16
        } else {
            ((self.u32() as u64 * n as u64) >> 32) as usize
        }
    }
    pub fn range(&mut self, lo: usize, hi_incl: usize) -> usize {
        lo + self.below(hi_incl - lo + 1)
    }
    pub fn bool(&mut self) -> bool {
        self.u8() & 1 == 1
    }
    /// true with probability num/256
    pub fn chance(&mut self, num: u32) -> bool {
        // monotone: small bytes => false
        (self.u8() as u32) >= 256 - num.min(256)
    }
    /// Weighted pick; index 0 should be the simplest alternative.
    pub fn weighted(&mut self, weights: &[u32]) -> usize {
        let total: u32 = weights.iter().sum();
        if total == 0 {
            return 0;
        }
        let r = (self.u16() as u64 * total as u64 >> 16) as u32;
        let mut acc = 0;
        for (i, w) in weights.iter().enumerate() {
            acc += w;
            if r < acc {
                return i;
            }
        }
        weights.len() - 1
    }
    pub fn pick<'t, T>(&mut self, items: &'t [T]) -> &'t T {
        &items[self.below(items.len())]
    }
    pub fn bytes(&mut self, n: usize) -> Vec<u8> {
        (0..n).map(|_| self.u8()).collect()
    }
    /// Rest of the input (used for "raw" modes)
    pub fn rest(&mut self) -> &'a [u8] {
        let r = if self.pos < self.data.len() { &self.data[self.pos..] } else { &[] };
        self.pos = self.data.len();
        r
    }
}

pub fn hex(b: &[u8]) -> String {
    let mut s = String::with_capacity(b.len() * 2);
    for x in b {
        s.push_str(&format!("{:02x}", x));
    }
    s
}

pub fn unhex(s: &str) -> Option<Vec<u8>> {
    let s = s.trim();
    if s.len() % 2 != 0 {
        return None;
    }
    (0..s.len() / 2)
        .map(|i| u8::from_str_radix(&s[2 * i..2 * i + 2], 16).ok())
        .collect()
}

pub fn fnv(data: &[u8]) -> u64 {
    let mut h: u64 = 0xcbf29ce484222325;
    for b in data {
        h ^= *b as u64;
        h = h.wrapping_mul(0x100000001b3);
    }
    h
}
