#!/usr/bin/env python3
"""Program generator: writes engine/h_prog/src/generated.rs — random type definitions (C09) and random
interface / proxy pairs (C26, C27, C28, C33) with, for every item, what the generator's own table says
its D-Bus signature is. A pure function of --seed.
"""
import argparse, random

BASIC = [('u8', 'y'), ('u16', 'q'), ('u32', 'u'), ('u64', 't'), ('i16', 'n'), ('i32', 'i'), ('i64', 'x'), ('f64', 'd'), ('bool', 'b'), ('String', 's'), ('OwnedObjectPath', 'o')]
KEYS = [('u8', 'y'), ('u32', 'u'), ('String', 's'), ('i64', 'x'), ('u16', 'q')]


class G:
    def __init__(self, seed):
        self.r = random.Random(seed)
        self.types = []  # (name, sig, nesting, kind)
        self.out = []

    # ---- field types ----------------------------------------------------------------------------
    def field_type(self, depth=0, allow_derived=True, allow_variant=True):
        r = self.r
        choices = ['basic'] * 5
        if depth < 2:
            choices += ['vec', 'vec', 'map', 'tuple', 'arr']
        if allow_derived and self.types:
            choices += ['derived'] * 4
        if allow_variant and depth < 2:
            choices += ['variant']
        k = r.choice(choices)
        if k == 'basic':
            t, s = r.choice(BASIC)
            return t, s, 0
        if k == 'variant':
            return 'OwnedValue', 'v', 0
        if k == 'derived':
            name, s, n, kind = r.choice([t for t in self.types if t[3] != 'unit-struct'])
            return name, s, n
        if k == 'vec':
            t, s, n = self.field_type(depth + 1, allow_derived, allow_variant)
            return f'Vec<{t}>', 'a' + s, n
        if k == 'map':
            if r.random() < 0.5:
                t, s, n = self.field_type(depth + 1, allow_derived, allow_variant)
                return f'HashMap<String, {t}>', 'a{s' + s + '}', n
            kt, ks = r.choice(KEYS)
            t, s, n = self.field_type(depth + 1, allow_derived, allow_variant)
            return f'BTreeMap<{kt}, {t}>', 'a{' + ks + s + '}', n
        if k == 'tuple':
            parts = [self.field_type(depth + 1, allow_derived, allow_variant) for _ in range(r.randint(2, 3))]
            return '(' + ', '.join(p[0] for p in parts) + ')', '(' + ''.join(p[1] for p in parts) + ')', max(p[2] for p in parts)
        t, s, n = self.field_type(depth + 1, allow_derived, allow_variant)
        return f'[{t}; 2]', '(' + s + s + ')', n

    # ---- derived types --------------------------------------------------------------------------
    def gen_type(self, i):
        r = self.r
        name = f'T{i}'
        kind = r.choice(['named-struct'] * 4 + ['tuple-struct'] * 2 + ['newtype'] * 2 + ['unit-enum', 'repr-enum', 'string-enum', 'newtype-enum', 'struct-enum', 'dict-struct', 'dict-struct'] + (['unit-struct'] if i % 11 == 5 else []))
        D = '#[derive(Debug, Clone, PartialEq, Serialize, Deserialize, Type)]'
        o = self.out
        if kind == 'named-struct':
            fs = [self.field_type() for _ in range(r.randint(1, 4))]
            o.append(D)
            o.append(f'pub struct {name} {{')
            for k, f in enumerate(fs):
                o.append(f'    pub f{k}: {f[0]},')
            o.append('}')
            o.append(f'impl Gen for {name} {{ fn gen(src: &mut Src, fuel: &mut u32) -> Self {{ {name} {{ ' + ', '.join(f'f{k}: Gen::gen(src, fuel)' for k in range(len(fs))) + ' } } }')
            sig = '(' + ''.join(f[1] for f in fs) + ')'
            nest = 1 + max(f[2] for f in fs)
        elif kind == 'tuple-struct':
            fs = [self.field_type() for _ in range(r.randint(2, 4))]
            o.append(D)
            o.append(f'pub struct {name}(' + ', '.join('pub ' + f[0] for f in fs) + ');')
            o.append(f'impl Gen for {name} {{ fn gen(src: &mut Src, fuel: &mut u32) -> Self {{ {name}(' + ', '.join('Gen::gen(src, fuel)' for _ in fs) + ') } }')
            sig = '(' + ''.join(f[1] for f in fs) + ')'
            nest = 1 + max(f[2] for f in fs)
        elif kind == 'newtype':
            f = self.field_type()
            o.append(D)
            o.append(f'pub struct {name}(pub {f[0]});')
            o.append(f'impl Gen for {name} {{ fn gen(src: &mut Src, fuel: &mut u32) -> Self {{ {name}(Gen::gen(src, fuel)) }} }}')
            sig = f[1]
            nest = 1 + f[2]
        elif kind == 'unit-struct':
            o.append(D)
            o.append(f'pub struct {name};')
            o.append(f'impl Gen for {name} {{ fn gen(_src: &mut Src, _fuel: &mut u32) -> Self {{ {name} }} }}')
            sig = ''
            nest = 1
        elif kind in ('unit-enum', 'string-enum'):
            nv = r.randint(1, 5)
            o.append(D)
            if kind == 'string-enum':
                o.append('#[zvariant(signature = "s")]')
            o.append(f'pub enum {name} {{ ' + ', '.join(f'V{k}' for k in range(nv)) + ' }')
            o.append(f'impl Gen for {name} {{ fn gen(src: &mut Src, _fuel: &mut u32) -> Self {{ match src.below({nv}) {{ ' + ' '.join(f'{k} => {name}::V{k},' for k in range(nv - 1)) + f' _ => {name}::V{nv - 1} }} }} }}')
            sig = 's' if kind == 'string-enum' else 'u'
            nest = 1
        elif kind == 'repr-enum':
            rt, rs = r.choice([('u8', 'y'), ('u16', 'q'), ('u32', 'u'), ('u64', 't'), ('i16', 'n'), ('i32', 'i'), ('i64', 'x')])
            nv = r.randint(1, 5)
            o.append(f'#[repr({rt})]')
            o.append('#[derive(Debug, Clone, PartialEq, Serialize_repr, Deserialize_repr, Type)]')
            o.append(f'pub enum {name} {{ ' + ', '.join(f'V{k} = {k * 3 + 1}' for k in range(nv)) + ' }')
            o.append(f'impl Gen for {name} {{ fn gen(src: &mut Src, _fuel: &mut u32) -> Self {{ match src.below({nv}) {{ ' + ' '.join(f'{k} => {name}::V{k},' for k in range(nv - 1)) + f' _ => {name}::V{nv - 1} }} }} }}')
            sig = rs
            nest = 1
        elif kind == 'newtype-enum':
            f = self.field_type(allow_variant=False)
            nv = r.randint(1, 3)
            o.append(D)
            o.append(f'pub enum {name} {{ ' + ', '.join(f'V{k}({f[0]})' for k in range(nv)) + ' }')
            o.append(f'impl Gen for {name} {{ fn gen(src: &mut Src, fuel: &mut u32) -> Self {{ match src.below({nv}) {{ ' + ' '.join(f'{k} => {name}::V{k}(Gen::gen(src, fuel)),' for k in range(nv - 1)) + f' _ => {name}::V{nv - 1}(Gen::gen(src, fuel)) }} }} }}')
            sig = '(u' + f[1] + ')'
            nest = 1 + f[2]
        elif kind == 'struct-enum':
            fs = [self.field_type(allow_variant=False) for _ in range(r.randint(2, 3))]
            o.append(D)
            tup = ', '.join(f[0] for f in fs)
            named = ', '.join(f'a{k}: {f[0]}' for k, f in enumerate(fs))
            o.append(f'pub enum {name} {{ V0({tup}), V1 {{ {named} }} }}')
            g0 = ', '.join('Gen::gen(src, fuel)' for _ in fs)
            g1 = ', '.join(f'a{k}: Gen::gen(src, fuel)' for k in range(len(fs)))
            o.append(f'impl Gen for {name} {{ fn gen(src: &mut Src, fuel: &mut u32) -> Self {{ if src.bool() {{ {name}::V0({g0}) }} else {{ {name}::V1 {{ {g1} }} }} }} }}')
            sig = '(u(' + ''.join(f[1] for f in fs) + '))'
            nest = 1 + max(f[2] for f in fs)
        else:  # dict-struct
            simple = [('u8', 'y'), ('u32', 'u'), ('u64', 't'), ('i32', 'i'), ('bool', 'b'), ('String', 's'), ('f64', 'd'), ('Vec<String>', 'as'), ('Vec<u8>', 'ay')]
            fs = [(r.choice(simple), r.random() < 0.4) for _ in range(r.randint(1, 4))]
            rename = r.choice([None, 'PascalCase', 'kebab-case'])
            o.append('#[derive(Debug, Clone, PartialEq, SerializeDict, DeserializeDict, Type)]')
            o.append('#[zvariant(signature = "dict"' + (f', rename_all = "{rename}"' if rename else '') + ')]')
            o.append(f'pub struct {name} {{')
            for k, ((t, s), opt) in enumerate(fs):
                o.append(f'    pub field_{k}: ' + (f'Option<{t}>' if opt else t) + ',')
            o.append('}')
            o.append(f'impl Gen for {name} {{ fn gen(src: &mut Src, fuel: &mut u32) -> Self {{ {name} {{ ' + ', '.join(f'field_{k}: Gen::gen(src, fuel)' for k in range(len(fs))) + ' } } }')
            sig = 'a{sv}'
            nest = 1
        o.append('')
        self.types.append((name, sig, nest, kind))

    def emit_types(self, n):
        for i in range(n):
            self.gen_type(i)
        o = self.out
        o.append('pub fn types() -> Vec<TypeEntry> {')
        o.append('    vec![')
        for name, sig, nest, kind in self.types:
            o.append(f'        TypeEntry {{ name: "{name}", expected: "{sig}", kind: "{kind}", nesting: {nest}, check: check_type::<{name}> }},')
        o.append('    ]')
        o.append('}')
        o.append('')


def main():
    ap = argparse.ArgumentParser()
    ap.add_argument('--seed', type=int, default=0)
    ap.add_argument('--ntypes', type=int, default=40)
    ap.add_argument('--nifaces', type=int, default=8)
    ap.add_argument('--out', required=True)
    a = ap.parse_args()
    g = G(a.seed)
    g.out += [
        f'// GENERATED by tools/gen_prog.py --seed {a.seed} --ntypes {a.ntypes} --nifaces {a.nifaces}; do not edit',
        '#![allow(dead_code, unused_imports, unused_variables, clippy::all)]',
        'use crate::genval::Gen;',
        'use crate::typecheck::{check_type, TypeEntry};',
        'use serde::{Deserialize, Serialize};',
        'use serde_repr::{Deserialize_repr, Serialize_repr};',
        'use std::collections::{BTreeMap, HashMap};',
        'use vcore::src::Src;',
        'use zvariant::{DeserializeDict, OwnedObjectPath, OwnedValue, SerializeDict, Type};',
        '',
        f'pub const SEED: u64 = {a.seed};',
        '',
    ]
    g.emit_types(a.ntypes)
    try:
        import gen_ifaces
        gen_ifaces.emit(g, a.nifaces)
    except ImportError:
        g.out.append('pub fn ifaces() -> Vec<crate::ifcheck::IfaceEntry> { vec![] }')
    open(a.out, 'w').write('\n'.join(g.out) + '\n')


if __name__ == '__main__':
    import os, sys
    sys.path.insert(0, os.path.dirname(os.path.abspath(__file__)))
    main()
