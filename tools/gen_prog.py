#!/usr/bin/env python3
"""Program generator: writes engine/h_prog/src/generated.rs — random type definitions (C09) and random
interface / proxy pairs (C26, C27, C28, C33) together with, for every item, what the generator's OWN
table says its D-Bus signature and wire value are (never taken from the library). A pure function of
--seed.
"""
import argparse, random

BASIC = [('u8', 'y'), ('u16', 'q'), ('u32', 'u'), ('u64', 't'), ('i16', 'n'), ('i32', 'i'), ('i64', 'x'), ('f64', 'd'), ('bool', 'b'), ('String', 's'), ('OwnedObjectPath', 'o')]
# built-in impls of the library for std types (signatures from the documentation of the impls)
STD = [('char', 's'), ('std::net::Ipv4Addr', '(yyyy)'), ('std::time::Duration', '(tu)'), ('std::num::NonZeroU32', 'u'), ('std::num::Wrapping<i32>', 'i'), ('std::net::IpAddr', '(uay)')]
KEYS = [('u8', 'y'), ('u32', 'u'), ('String', 's'), ('i64', 'x'), ('u16', 'q')]
MAXSIG = 150

WORDS = ['get', 'put', 'frob', 'value', 'list', 'node', 'x2', 'state', 'name', 'zap', 'item', 'all', 'q', 'data', 'info']
DOCS = [
    'plain text',
    'a < b && c > d',
    'ends a comment --> early',
    'double -- dash',
    'cdata ]]> end & "quotes" \'apos\'',
    '<tag attr="1">text</tag>',
    'unicode é世界',
    'trailing dash -',
    'a rule --- in the middle',
    '---- four and a long arrow ---> here',
    '-----',
    '- -- --- ---- -',
    'two lines\n-- second -->',
    '&amp; already escaped &lt;',
]


class Ty:
    def __init__(self, rust, sig, nest=0, val_ok=False, ord_ok=False):
        self.rust, self.sig, self.nest, self.val_ok, self.ord_ok = rust, sig, nest, val_ok, ord_ok


def rstr(s):
    """a Rust string literal"""
    out = '"'
    for ch in s:
        if ch == '\\':
            out += '\\\\'
        elif ch == '"':
            out += '\\"'
        elif ch == '\n':
            out += '\\n'
        elif ord(ch) < 0x20 or ord(ch) > 0x7e:
            out += '\\u{%x}' % ord(ch)
        else:
            out += ch
    return out + '"'


def pascal(s):
    out, cap = '', True
    for ch in s:
        if ch in '_-':
            cap = True
        elif cap:
            out += ch.upper()
            cap = False
        else:
            out += ch
    return out


def kebab(s):
    """kebab-case of a snake / camel / Pascal case identifier: a dash in front of every capital
    (except at the start) and instead of every underscore, all lower case"""
    out = ''
    for ch in s:
        if ch.isupper() and out:
            out += '-'
        if ch in '_-':
            out += '-'
        else:
            out += ch.lower()
    return out


class G:
    def __init__(self, seed):
        self.r = random.Random(seed)
        self.seed = seed
        self.types = []  # dicts: name sig nest kind value
        self.out = []

    # ---- field types ----------------------------------------------------------------------------
    def basic(self):
        t, s = self.r.choice(BASIC)
        return Ty(t, s, 0, True, t not in ('f64',))

    def field_type(self, depth=0, allow_derived=True, allow_variant=True, budget=MAXSIG, val_only=False):
        """a random field / argument type whose signature is at most `budget` bytes"""
        r = self.r
        for _ in range(20):
            t = self._field_type(depth, allow_derived, allow_variant, val_only)
            if len(t.sig) <= budget and (t.val_ok or not val_only):
                return t
        return self.basic()

    def _field_type(self, depth, allow_derived, allow_variant, val_only):
        r = self.r
        choices = ['basic'] * 5
        if not val_only:
            choices += ['std'] * 2
        if depth < 2:
            choices += ['vec', 'vec', 'map', 'tuple']
            if not val_only:
                choices += ['arr', 'deque', 'boxed', 'set']
        cands = [t for t in self.types if t['kind'] != 'unit-struct' and (t['value'] or not val_only)]
        if allow_derived and cands:
            choices += ['derived'] * 4
        if allow_variant and depth < 2 and not val_only:
            choices += ['variant']
        k = r.choice(choices)
        sub = lambda: self._field_type(depth + 1, allow_derived, allow_variant, val_only)
        if k == 'basic':
            return self.basic()
        if k == 'std':
            t, s = r.choice(STD)
            return Ty(t, s, 0, False, False)
        if k == 'variant':
            return Ty('OwnedValue', 'v', 0, False, False)
        if k == 'derived':
            t = r.choice(cands)
            return Ty(t['name'], t['sig'], t['nest'], t['value'], False)
        if k == 'vec':
            e = sub()
            return Ty(f'Vec<{e.rust}>', 'a' + e.sig, e.nest, e.val_ok, False)
        if k == 'deque':
            e = sub()
            return Ty(f'VecDeque<{e.rust}>', 'a' + e.sig, e.nest, False, False)
        if k == 'boxed':
            e = sub()
            return Ty(f'Box<{e.rust}>', e.sig, e.nest, False, False)
        if k == 'set':
            kt, ks = r.choice(KEYS)
            return Ty(f'BTreeSet<{kt}>', 'a' + ks, 0, False, False)
        if k == 'map':
            e = sub()
            if r.random() < 0.5:
                return Ty(f'HashMap<String, {e.rust}>', 'a{s' + e.sig + '}', e.nest, e.val_ok, False)
            kt, ks = r.choice(KEYS)
            return Ty(f'BTreeMap<{kt}, {e.rust}>', 'a{' + ks + e.sig + '}', e.nest, False, False)
        if k == 'tuple':
            parts = [sub() for _ in range(r.randint(2, 3))]
            return Ty('(' + ', '.join(p.rust for p in parts) + ')', '(' + ''.join(p.sig for p in parts) + ')', max(p.nest for p in parts), all(p.val_ok for p in parts) and depth == 0, False)
        e = sub()
        return Ty(f'[{e.rust}; 2]', '(' + e.sig + e.sig + ')', e.nest, False, False)

    def fields(self, lo, hi, **kw):
        n = self.r.randint(lo, hi)
        fs, left = [], MAXSIG - 4
        for i in range(n):
            f = self.field_type(budget=max(left - (n - i - 1), 1), **kw)
            left -= len(f.sig)
            fs.append(f)
        return fs

    # ---- derived types --------------------------------------------------------------------------
    def gen_type(self, i, kind=None, fixed_fields=None):
        r = self.r
        name = f'T{i}'
        if kind is None:
            kind = r.choice(['named-struct'] * 4 + ['tuple-struct'] * 2 + ['newtype'] * 2 + ['value-struct'] * 2 + ['unit-enum', 'repr-enum', 'string-enum', 'newtype-enum', 'struct-enum', 'dict-struct', 'dict-struct'] + (['unit-struct'] if i % 11 == 5 else []))
        D = '#[derive(Debug, Clone, PartialEq, Serialize, Deserialize, Type)]'
        DV = '#[derive(Debug, Clone, PartialEq, Serialize, Deserialize, Type, Value, OwnedValue)]'
        o = self.out
        value = False
        if kind in ('named-struct', 'value-struct'):
            value = kind == 'value-struct'
            fs = fixed_fields or self.fields(1, 4, val_only=value)
            o.append(DV if value else D)
            o.append(f'pub struct {name} {{')
            for k, f in enumerate(fs):
                o.append(f'    pub f{k}: {f.rust},')
            o.append('}')
            o.append(f'impl Gen for {name} {{ fn gen(src: &mut Src, fuel: &mut u32) -> Self {{ {name} {{ ' + ', '.join(f'f{k}: Gen::gen(src, fuel)' for k in range(len(fs))) + ' } } }')
            o.append(f'impl ToR for {name} {{ fn rsig() -> RSig {{ RSig::St(vec![' + ', '.join(f'<{f.rust} as ToR>::rsig()' for f in fs) + f']) }} fn to_r(&self) -> RVal {{ RVal::St(vec![' + ', '.join(f'self.f{k}.to_r()' for k in range(len(fs))) + ']) } }')
            sig = '(' + ''.join(f.sig for f in fs) + ')'
            nest = 1 + max(f.nest for f in fs)
        elif kind == 'tuple-struct':
            fs = self.fields(2, 4)
            o.append(D)
            o.append(f'pub struct {name}(' + ', '.join('pub ' + f.rust for f in fs) + ');')
            o.append(f'impl Gen for {name} {{ fn gen(src: &mut Src, fuel: &mut u32) -> Self {{ {name}(' + ', '.join('Gen::gen(src, fuel)' for _ in fs) + ') } }')
            o.append(f'impl ToR for {name} {{ fn rsig() -> RSig {{ RSig::St(vec![' + ', '.join(f'<{f.rust} as ToR>::rsig()' for f in fs) + f']) }} fn to_r(&self) -> RVal {{ RVal::St(vec![' + ', '.join(f'self.{k}.to_r()' for k in range(len(fs))) + ']) } }')
            sig = '(' + ''.join(f.sig for f in fs) + ')'
            nest = 1 + max(f.nest for f in fs)
        elif kind == 'newtype':
            f = self.field_type()
            o.append(D)
            o.append(f'pub struct {name}(pub {f.rust});')
            o.append(f'impl Gen for {name} {{ fn gen(src: &mut Src, fuel: &mut u32) -> Self {{ {name}(Gen::gen(src, fuel)) }} }}')
            o.append(f'impl ToR for {name} {{ fn rsig() -> RSig {{ <{f.rust} as ToR>::rsig() }} fn to_r(&self) -> RVal {{ self.0.to_r() }} }}')
            sig = f.sig
            nest = 1 + f.nest
        elif kind == 'unit-struct':
            o.append(D)
            o.append(f'pub struct {name};')
            o.append(f'impl Gen for {name} {{ fn gen(_src: &mut Src, _fuel: &mut u32) -> Self {{ {name} }} }}')
            o.append(f'impl ToR for {name} {{ fn rsig() -> RSig {{ RSig::St(vec![]) }} fn to_r(&self) -> RVal {{ RVal::St(vec![]) }} }}')
            sig = ''
            nest = 1
        elif kind in ('unit-enum', 'string-enum'):
            nv = r.randint(1, 5)
            value = True
            o.append(DV)
            if kind == 'string-enum':
                o.append('#[zvariant(signature = "s")]')
            o.append(f'pub enum {name} {{ ' + ', '.join(f'V{k}' for k in range(nv)) + ' }')
            o.append(f'impl Gen for {name} {{ fn gen(src: &mut Src, _fuel: &mut u32) -> Self {{ match src.below({nv}) {{ ' + ' '.join(f'{k} => {name}::V{k},' for k in range(nv - 1)) + f' _ => {name}::V{nv - 1} }} }} }}')
            if kind == 'string-enum':
                o.append(f'impl ToR for {name} {{ fn rsig() -> RSig {{ RSig::S }} fn to_r(&self) -> RVal {{ RVal::S(match self {{ ' + ' '.join(f'{name}::V{k} => "V{k}",' for k in range(nv)) + ' }.to_string()) } }')
            else:
                o.append(f'impl ToR for {name} {{ fn rsig() -> RSig {{ RSig::U }} fn to_r(&self) -> RVal {{ RVal::U(match self {{ ' + ' '.join(f'{name}::V{k} => {k},' for k in range(nv)) + ' }) } }')
            sig = 's' if kind == 'string-enum' else 'u'
            nest = 1
        elif kind == 'repr-enum':
            rt, rs, rv = r.choice([('u8', 'y', 'Y'), ('u16', 'q', 'Q'), ('u32', 'u', 'U'), ('u64', 't', 'T'), ('i16', 'n', 'N'), ('i32', 'i', 'I'), ('i64', 'x', 'X')])
            nv = r.randint(1, 5)
            o.append(f'#[repr({rt})]')
            o.append('#[derive(Debug, Clone, PartialEq, Serialize_repr, Deserialize_repr, Type)]')
            o.append(f'pub enum {name} {{ ' + ', '.join(f'V{k} = {k * 3 + 1}' for k in range(nv)) + ' }')
            o.append(f'impl Gen for {name} {{ fn gen(src: &mut Src, _fuel: &mut u32) -> Self {{ match src.below({nv}) {{ ' + ' '.join(f'{k} => {name}::V{k},' for k in range(nv - 1)) + f' _ => {name}::V{nv - 1} }} }} }}')
            o.append(f'impl ToR for {name} {{ fn rsig() -> RSig {{ RSig::{rv} }} fn to_r(&self) -> RVal {{ RVal::{rv}(match self {{ ' + ' '.join(f'{name}::V{k} => {k * 3 + 1},' for k in range(nv)) + ' }) } }')
            sig = rs
            nest = 1
        elif kind == 'newtype-enum':
            f = fixed_fields[0] if fixed_fields else self.field_type(allow_variant=False)
            nv = r.randint(1, 3)
            o.append(D)
            o.append(f'pub enum {name} {{ ' + ', '.join(f'V{k}({f.rust})' for k in range(nv)) + ' }')
            o.append(f'impl Gen for {name} {{ fn gen(src: &mut Src, fuel: &mut u32) -> Self {{ match src.below({nv}) {{ ' + ' '.join(f'{k} => {name}::V{k}(Gen::gen(src, fuel)),' for k in range(nv - 1)) + f' _ => {name}::V{nv - 1}(Gen::gen(src, fuel)) }} }} }}')
            o.append(f'impl ToR for {name} {{ fn rsig() -> RSig {{ RSig::St(vec![RSig::U, <{f.rust} as ToR>::rsig()]) }} fn to_r(&self) -> RVal {{ match self {{ ' + ' '.join(f'{name}::V{k}(x) => RVal::St(vec![RVal::U({k}), x.to_r()]),' for k in range(nv)) + ' } } }')
            sig = '(u' + f.sig + ')'
            nest = 1 + f.nest
        elif kind == 'struct-enum':
            fs = self.fields(2, 3, allow_variant=False)
            o.append(D)
            tup = ', '.join(f.rust for f in fs)
            named = ', '.join(f'a{k}: {f.rust}' for k, f in enumerate(fs))
            o.append(f'pub enum {name} {{ V0({tup}), V1 {{ {named} }} }}')
            g0 = ', '.join('Gen::gen(src, fuel)' for _ in fs)
            g1 = ', '.join(f'a{k}: Gen::gen(src, fuel)' for k in range(len(fs)))
            o.append(f'impl Gen for {name} {{ fn gen(src: &mut Src, fuel: &mut u32) -> Self {{ if src.bool() {{ {name}::V0({g0}) }} else {{ {name}::V1 {{ {g1} }} }} }} }}')
            b0 = ', '.join(f'b{k}' for k in range(len(fs)))
            b1 = ', '.join(f'a{k}' for k in range(len(fs)))
            inner = 'RSig::St(vec![' + ', '.join(f'<{f.rust} as ToR>::rsig()' for f in fs) + '])'
            o.append(f'impl ToR for {name} {{ fn rsig() -> RSig {{ RSig::St(vec![RSig::U, {inner}]) }} fn to_r(&self) -> RVal {{ match self {{ {name}::V0({b0}) => RVal::St(vec![RVal::U(0), RVal::St(vec![' + ', '.join(f'b{k}.to_r()' for k in range(len(fs))) + f'])]), {name}::V1 {{ {b1} }} => RVal::St(vec![RVal::U(1), RVal::St(vec![' + ', '.join(f'a{k}.to_r()' for k in range(len(fs))) + '])]) } } }')
            sig = '(u(' + ''.join(f.sig for f in fs) + '))'
            nest = 1 + max(f.nest for f in fs)
        else:  # dict-struct
            simple = [('u8', 'y'), ('u32', 'u'), ('u64', 't'), ('i32', 'i'), ('bool', 'b'), ('String', 's'), ('f64', 'd'), ('Vec<String>', 'as'), ('Vec<u8>', 'ay')]
            fs = [(r.choice(simple), r.random() < 0.4) for _ in range(r.randint(1, 4))]
            rename = r.choice([None, 'PascalCase', 'kebab-case'])
            if fixed_fields:
                # (coverage by construction: a given renaming mode with every identifier style)
                rename = fixed_fields[0]
                fs = [(r.choice(simple), k % 2 == 1) for k in range(5)]
            value = r.random() < 0.5
            o.append('#[derive(Debug, Clone, PartialEq, SerializeDict, DeserializeDict, Type' + (', Value, OwnedValue' if value else '') + ')]')
            o.append('#[zvariant(signature = "dict"' + (f', rename_all = "{rename}"' if rename else '') + ')]')
            o.append(f'pub struct {name} {{')
            # field identifiers in several styles (the key is the identifier as written unless
            # rename_all says otherwise; the renaming rules are the documented serde-like ones)
            idents = [r.choice([f'field_{k}', f'field_{k}', f'Field{k}', f'fieldName{k}', f'LoopStatus{k}', f'x{k}']) for k in range(len(fs))]
            if fixed_fields:
                idents = ['field_0', 'Field1', 'fieldName2', 'LoopStatus3', 'x4']
            for k, ((t, s), opt) in enumerate(fs):
                o.append(f'    pub {idents[k]}: ' + (f'Option<{t}>' if opt else t) + ',')
            o.append('}')
            o.append(f'impl Gen for {name} {{ fn gen(src: &mut Src, fuel: &mut u32) -> Self {{ {name} {{ ' + ', '.join(f'{idents[k]}: Gen::gen(src, fuel)' for k in range(len(fs))) + ' } } }')
            ent = []
            for k, ((t, s), opt) in enumerate(fs):
                key = {None: idents[k], 'PascalCase': pascal(idents[k]), 'kebab-case': kebab(idents[k])}[rename]
                if opt:
                    ent.append(f'if let Some(x) = &self.{idents[k]} {{ e.push((RVal::S("{key}".into()), RVal::V(Box::new((<{t} as ToR>::rsig(), x.to_r()))))); }}')
                else:
                    ent.append(f'e.push((RVal::S("{key}".into()), RVal::V(Box::new((<{t} as ToR>::rsig(), self.{idents[k]}.to_r())))));')
            o.append(f'impl ToR for {name} {{ fn rsig() -> RSig {{ RSig::Dict(Box::new(RSig::S), Box::new(RSig::V)) }} fn to_r(&self) -> RVal {{ let mut e = vec![]; ' + ' '.join(ent) + ' RVal::Dict(RSig::S, RSig::V, e) } }')
            sig = 'a{sv}'
            nest = 1
        o.append('')
        self.types.append({'name': name, 'sig': sig, 'nest': nest, 'kind': kind, 'value': value})
        return self.types[-1]

    def as_ty(self, t):
        return Ty(t['name'], t['sig'], t['nest'], t['value'], False)

    def emit_types(self, n):
        r = self.r
        for i in range(n):
            self.gen_type(i)
        # coverage by construction: every enum / dictionary kind also appears as an array element, as a
        # dictionary value, inside a tuple and inside a newtype variant (the contexts in which a derived
        # signature and the serializer most easily part ways)
        i = n
        for kind in ('unit-enum', 'repr-enum', 'string-enum', 'newtype-enum', 'struct-enum', 'dict-struct', 'named-struct', 'tuple-struct', 'newtype'):
            cands = [t for t in self.types[:n] if t['kind'] == kind and len(t['sig']) <= 40]
            if not cands:
                cands = [self.gen_type(i, kind=kind)] if kind not in ('newtype-enum', 'struct-enum', 'newtype') else [self.gen_type(i, kind=kind, fixed_fields=None)]
                i += 1
                if len(cands[0]['sig']) > 40:
                    continue
            t = self.as_ty(r.choice(cands))
            ctx = [
                Ty(f'Vec<{t.rust}>', 'a' + t.sig, t.nest),
                Ty(f'HashMap<String, {t.rust}>', 'a{s' + t.sig + '}', t.nest),
                Ty(f'({t.rust}, {t.rust})', '(' + t.sig * 2 + ')', t.nest),
                Ty(f'BTreeMap<u8, Vec<{t.rust}>>', 'a{ya' + t.sig + '}', t.nest),
            ]
            r.shuffle(ctx)
            self.gen_type(i, kind='named-struct', fixed_fields=ctx[:3])
            i += 1
            self.gen_type(i, kind='newtype-enum', fixed_fields=[t])
            i += 1
        # ... and so does every std type with a built-in impl (as array element, dictionary value
        # and inside a newtype variant)
        for mode in (None, 'PascalCase', 'kebab-case'):
            self.gen_type(i, kind='dict-struct', fixed_fields=[mode])
            i += 1
        stds = STD[:]
        r.shuffle(stds)
        for a, b in zip(stds[0::2], stds[1::2]):
            ta, tb = Ty(a[0], a[1]), Ty(b[0], b[1])
            self.gen_type(i, kind='named-struct', fixed_fields=[
                Ty(f'Vec<{ta.rust}>', 'a' + ta.sig), Ty(f'HashMap<String, {tb.rust}>', 'a{s' + tb.sig + '}'),
                Ty(f'Vec<{tb.rust}>', 'a' + tb.sig), Ty(f'({ta.rust}, Vec<({tb.rust}, u8)>)', '(' + ta.sig + 'a(' + tb.sig + 'y))')])
            i += 1
            self.gen_type(i, kind='newtype-enum', fixed_fields=[r.choice([ta, tb])])
            i += 1
        o = self.out
        o.append('pub fn types() -> Vec<TypeEntry> {')
        o.append('    vec![')
        for t in self.types:
            vc = f'Some(check_value::<{t["name"]}>)' if t['value'] else 'None'
            o.append(f'        TypeEntry {{ name: "{t["name"]}", expected: "{t["sig"]}", kind: "{t["kind"]}", nesting: {t["nest"]}, check: check_type::<{t["name"]}>, value_check: {vc} }},')
        o.append('    ]')
        o.append('}')
        o.append('')


def main():
    ap = argparse.ArgumentParser()
    ap.add_argument('--seed', type=int, default=0)
    ap.add_argument('--ntypes', type=int, default=36)
    ap.add_argument('--nifaces', type=int, default=8)
    ap.add_argument('--out', required=True)
    a = ap.parse_args()
    g = G(a.seed)
    g.out += [
        f'// GENERATED by tools/gen_prog.py --seed {a.seed} --ntypes {a.ntypes} --nifaces {a.nifaces}; do not edit',
        '#![allow(dead_code, unused_imports, unused_variables, unused_mut, non_snake_case, clippy::all)]',
        'use crate::genval::{Gen, ToR};',
        'use crate::typecheck::{check_type, check_value, TypeEntry};',
        'use serde::{Deserialize, Serialize};',
        'use serde_repr::{Deserialize_repr, Serialize_repr};',
        'use std::collections::{BTreeMap, BTreeSet, HashMap, VecDeque};',
        'use vcore::refmodel::sig::RSig;',
        'use vcore::refmodel::val::RVal;',
        'use vcore::src::Src;',
        'use zvariant::{DeserializeDict, OwnedObjectPath, OwnedValue, SerializeDict, Type, Value};',
        '',
        f'pub const SEED: u64 = {a.seed};',
        '',
    ]
    g.emit_types(a.ntypes)
    import gen_ifaces
    gen_ifaces.emit(g, a.nifaces)
    open(a.out, 'w').write('\n'.join(g.out) + '\n')


if __name__ == '__main__':
    import os, sys
    sys.path.insert(0, os.path.dirname(os.path.abspath(__file__)))
    main()
