#!/usr/bin/env python3
"""Seeded-change bookkeeping.

  mutant.py confirm <PID> <k>   re-run, in the scratch worktree /tmp/wt/<PID>, what the author of
                                /tmp/wt/<PID>-out/m<k> claims: the demonstration passes without the
                                change and fails with it, and the existing tests of the crate(s) it
                                touches pass exactly as before. On success the change is copied to
                                /verif/seeded/<PID>-m<k>/ (patch.diff, demonstration, RUN.md, notes.md,
                                meta.json).
  mutant.py eval <PID> <k> [CHECK ...]
                                apply the kept change to the scratch worktree and run the listed checks
                                (default: the property's own) against it (VERIF_REPO), record in
                                meta.json which of them report a violation, and clean the worktree.
Nothing here touches /repo.
"""
import json, os, re, subprocess, sys, time, shutil

VERIF = '/verif'


def sh(cmd, cwd=None, timeout=7200):
    env = dict(os.environ, CARGO_NET_OFFLINE='true')
    env.pop('RUSTFLAGS', None)
    p = subprocess.run(cmd, shell=True, cwd=cwd, env=env, stdout=subprocess.PIPE, stderr=subprocess.STDOUT, text=True, timeout=timeout)
    return p.returncode, p.stdout


def test_list(out):
    """{test name: ok|FAILED|ignored} from libtest output (several binaries concatenated)"""
    res = {}
    binary = ''
    for line in out.splitlines():
        m = re.match(r'\s*Running (?:unittests )?(\S+)', line)
        if m:
            binary = m.group(1)
        m = re.match(r'\s*Doc-tests (\S+)', line)
        if m:
            binary = 'doc:' + m.group(1)
        m = re.match(r'test (.+?) \.\.\. (ok|FAILED|ignored)', line)
        if m:
            res[binary + '::' + m.group(1)] = m.group(2)
    return res


def crates_of(patch):
    cs = []
    for line in open(patch):
        m = re.match(r'\+\+\+ b/([^/]+)/', line)
        if m and m.group(1) not in cs:
            cs.append(m.group(1))
    return cs


def clean(wt):
    sh('git checkout -- . && git clean -fdq -e target', cwd=wt)


def confirm(pid, k):
    wt = os.environ.get('MUTANT_WT') or f'/tmp/wt/{pid}'
    src = f'{wt}-out/m{k}'
    patch = os.path.join(src, 'patch.diff')
    run = open(os.path.join(src, 'RUN.md')).read()
    clean(wt)
    rc, out = sh(f'git apply --check {patch}', cwd=wt)
    if rc != 0:
        print('patch does not apply:', out)
        return 1
    # the demonstration: set-up lines (cp / mkdir) and the demo's cargo command, taken from RUN.md;
    # the order "without the change, then with it" is imposed here
    run_joined = re.sub(r'\\\n\s*', ' ', run)
    lines = [re.sub(r'^\s*\$?\s*', '', l) for l in run_joined.splitlines()]
    lines = [l for l in lines if l and not l.startswith('#')]
    setup = []
    for l in lines:
        if (l.startswith('cp ') or l.startswith('mkdir ')) and l not in setup and 'patch.diff' not in l:
            setup.append(l)
    cargo_lines = [l for l in lines if re.search(r'\bcargo\b', l) and 'fuzz' not in l]
    demo_cmds = [l for l in cargo_lines if ('--test ' in l or '--example' in l or 'cargo run' in l or '--bin' in l or 'cargo check' in l) and '--no-fail-fast' not in l]
    if not demo_cmds:
        print('RUN.md: no demonstration command found; confirm by hand')
        return 2
    demo_cmd = demo_cmds[0]
    pre = '\n'.join(setup + [demo_cmd])
    post = f'git apply {patch}\n' + demo_cmd

    def run_cargo(part, tag):
        cmds = []
        for l in part.splitlines():
            if re.search(r'\bcargo\b', l):
                cmds.append(l + f'; echo "@@RC {tag} $?"')
            else:
                cmds.append(l)
        return sh('set +e\n' + '\n'.join(cmds), cwd=wt)

    t0 = time.time()
    _, out1 = run_cargo(pre, 'without')
    _, out2 = run_cargo(post, 'with')
    rcs1 = [int(x) for x in re.findall(r'@@RC without (\d+)', out1)]
    rcs2 = [int(x) for x in re.findall(r'@@RC with (\d+)', out2)]
    demo_ok = bool(rcs1) and bool(rcs2) and all(r == 0 for r in rcs1) and any(r != 0 for r in rcs2)
    print(f'demonstration: without the change rc={rcs1}, with it rc={rcs2} -> {"confirmed" if demo_ok else "NOT confirmed"} ({time.time() - t0:.0f}s)')
    if not demo_ok:
        print(out1[-2500:])
        print(out2[-2500:])
        clean(wt)
        return 1
    # existing tests of the touched crates, without and with the change (demo files removed)
    clean(wt)
    crates = crates_of(patch)
    pk = ' '.join(f'-p {c}' for c in crates)
    feats = ''
    m = re.search(r'cargo test[^\n]*?(--all-features|--features[ =]\S+)', run)
    if m and 'zvariant' in crates and len(crates) == 1:
        feats = ' ' + m.group(1)
    # (library and integration tests: what the pinned suite — cargo nextest — runs; doctests are not part of it)
    cmd = f'cargo test {pk}{feats} --offline --no-fail-fast --lib --tests'
    base_file = f'{wt}-out/my-baseline-{"-".join(crates)}{feats.replace(" ", "_").replace("=", "_")}.json'
    if os.path.exists(base_file):
        base = json.load(open(base_file))
    else:
        _, o = sh(cmd, cwd=wt)
        base = test_list(o)
        json.dump(base, open(base_file, 'w'))
    sh(f'git apply {patch}', cwd=wt)
    _, o = sh(cmd, cwd=wt)
    after = test_list(o)
    diff = {t: (base.get(t), after.get(t)) for t in set(base) | set(after) if base.get(t) != after.get(t)}
    for _ in range(2):
        # a few tests of the suite have 100 ms timeouts and fail on a loaded machine: a test counts
        # as passing with the change if it passes in any of up to three runs
        if not any(b == 'ok' and a != 'ok' for b, a in diff.values()):
            break
        _, o = sh(cmd, cwd=wt)
        for t, r in test_list(o).items():
            if r == 'ok':
                after[t] = 'ok'
        diff = {t: (base.get(t), after.get(t)) for t in set(base) | set(after) if base.get(t) != after.get(t)}
    clean(wt)
    # what disqualifies a change is a test that passes without it and not with it; a timing-dependent
    # test that failed in the baseline run and passes now says nothing about the change
    diff = {t: v for t, v in diff.items() if v[0] == 'ok' and v[1] != 'ok'}
    npass = sum(1 for v in base.values() if v == 'ok')
    print(f'existing tests ({cmd}): {npass} pass without the change; differences with it: {diff if diff else "none"}')
    if diff or npass == 0:
        return 1
    dst = f'{VERIF}/seeded/{pid}-m{k}'
    os.makedirs(dst, exist_ok=True)
    for f in os.listdir(src):
        if f.endswith('.log') or f.endswith('.tests'):
            continue
        p = os.path.join(src, f)
        if os.path.isdir(p):
            shutil.copytree(p, os.path.join(dst, f), dirs_exist_ok=True, ignore=shutil.ignore_patterns('target', 'Cargo.lock'))
        else:
            shutil.copy2(p, dst)
    notes = open(os.path.join(src, 'notes.md')).read() if os.path.exists(os.path.join(src, 'notes.md')) else ''
    meta = {
        'property': pid,
        'breaks': notes.strip().split('\n\n')[0][:1200],
        'needs_to_manifest': 'see notes.md',
        'crates': crates,
        'confirmed': {
            'demonstration': f'passes without the change (rc {rcs1}), fails with it (rc {rcs2}); commands of RUN.md run in a scratch worktree',
            'existing_tests': f'`{cmd}`: {npass} passing tests, identical result list with and without the change',
        },
        'detected_by': {},
    }
    json.dump(meta, open(os.path.join(dst, 'meta.json'), 'w'), indent=1)
    print('kept as', dst)
    return 0


def evaluate(pid, k, checks):
    wt = os.environ.get('MUTANT_WT') or f'/tmp/wt/{pid}'
    dst = f'{VERIF}/seeded/{pid}-m{k}'
    patch = os.path.join(dst, 'patch.diff')
    meta = json.load(open(os.path.join(dst, 'meta.json')))
    clean(wt)
    # the change is tried on top of the repository as it is now (with every repair made since the
    # worktree was created), so that what a check reports is the seeded change and nothing else
    head = subprocess.run(['git', '-C', '/repo', 'rev-parse', 'HEAD'], capture_output=True, text=True).stdout.strip()
    sh(f'git checkout -q --detach {head}', cwd=wt)
    meta['evaluated_on'] = head[:8]
    rc, out = sh(f'git apply {patch}', cwd=wt)
    if rc != 0:
        print('patch does not apply', out)
        return 1
    for c in checks or [pid]:
        t0 = time.time()
        env = dict(os.environ, VERIF_REPO=wt)
        p = subprocess.run(['./check', c, '--tier', 'quick'], cwd=VERIF, env=env, stdout=subprocess.PIPE, stderr=subprocess.STDOUT, text=True)
        viol = [l for l in p.stdout.splitlines() if l.startswith('VIOLATION')]
        tail = [l for l in p.stdout.splitlines() if l.strip()][-4:]
        meta['detected_by'][c] = {'exit': p.returncode, 'violation': bool(viol), 'seconds': round(time.time() - t0), 'output_tail': [t[:400] for t in tail],
                                  'ran': f'git apply patch.diff (scratch worktree); VERIF_REPO=<worktree> ./check {c} --tier quick'}
        print(f'{pid}-m{k} vs check {c}: exit {p.returncode} {"VIOLATION reported" if viol else "no violation"} ({time.time() - t0:.0f}s)')
        for t in tail:
            print('   ', t[:300])
    clean(wt)
    json.dump(meta, open(os.path.join(dst, 'meta.json'), 'w'), indent=1)
    return 0


if __name__ == '__main__':
    if len(sys.argv) < 4:
        print(__doc__)
        sys.exit(2)
    # one user of a scratch worktree at a time
    import fcntl
    _lock = open((os.environ.get('MUTANT_WT') or f'/tmp/wt/{sys.argv[2]}') + '.lock', 'w')
    fcntl.flock(_lock, fcntl.LOCK_EX)
    if sys.argv[1] == 'confirm':
        sys.exit(confirm(sys.argv[2], sys.argv[3]))
    sys.exit(evaluate(sys.argv[2], sys.argv[3], sys.argv[4:]))
