"""Interface / proxy part of the program generator (see gen_prog.py).

For every generated `#[interface]` impl this emits, from the generator's own table:
  * the interface (methods with random argument / return types, sync / async, &self / &mut self,
    infallible / fdo::Result / custom error, special parameters, renames, out-arg names, doc comments
    with XML-special text; properties with random types, access and emits-changed modes; signals),
  * a separately written `#[proxy]` trait for it (C33),
  * glue the generic harness drives: argument generators with the reference values of what goes on
    the wire, predicted replies / errors / emitted signals, property tables, proxy operations.
Handlers log what they received (`Debug` of the decoded arguments) and compute their result from
that label alone, so the harness predicts every reply without looking at the library.
"""
from gen_prog import Ty, rstr, pascal, WORDS, DOCS

EMITS = ['true', 'true', 'invalidates', 'false', 'const']


def word_name(r, prefix):
    n = r.randint(1, 2)
    return prefix + '_' + '_'.join(r.choice(WORDS) for _ in range(n))


def ref_arg(t):
    """how a proxy takes an argument of owned type t"""
    return t.rust


class Iface:
    pass


def gen_iface(g, k):
    r = g.r
    I = Iface()
    I.k = k
    I.rs = f'I{k}'
    I.name = f'gen.p{g.seed}.I{k}'
    I.spawn = r.random() < 0.75
    I.methods, I.props, I.signals = [], [], []
    # signals first (methods may emit them)
    for j in range(r.randint(0, 2)):
        s = {'fn': word_name(r, f's{j}'), 'args': [g.field_type(budget=40) for _ in range(r.randint(0, 3))], 'doc': r.choice(DOCS) if r.random() < 0.5 else None}
        s['member'] = pascal(s['fn'])
        I.signals.append(s)
    used = set()
    for j in range(r.randint(2, 5)):
        m = {'fn': word_name(r, f'm{j}')}
        m['member'] = pascal(m['fn'])
        if r.random() < 0.2:
            m['member'] = f'Custom{j}' + r.choice(['', 'X', '_y'])
            m['rename'] = True
        m['args'] = [g.field_type(budget=40) for _ in range(r.choice([0, 1, 1, 2, 2, 3]))]
        rk = r.choice(['unit', 'single', 'single', 'tuple', 'tuple', 'struct'])
        if rk == 'unit':
            m['ret'], m['outs'] = Ty('()', ''), []
        elif rk == 'single':
            t = g.field_type(budget=40)
            while t.rust.startswith('('):
                # (a Rust tuple is several out arguments: the 'tuple' kind)
                t = g.field_type(budget=40)
            m['ret'], m['outs'] = t, [t]
        elif rk == 'tuple':
            parts = [g.field_type(budget=30) for _ in range(r.randint(2, 3))]
            m['ret'] = Ty('(' + ', '.join(p.rust for p in parts) + ')', '(' + ''.join(p.sig for p in parts) + ')')
            m['outs'] = parts
        else:
            cands = [t for t in g.types if t['sig'].startswith('(') and len(t['sig']) <= 40 and t['kind'] in ('named-struct', 'tuple-struct', 'value-struct')]
            if cands:
                t = g.as_ty(r.choice(cands))
                m['ret'], m['outs'] = t, [t]
            else:
                t = g.basic()
                m['ret'], m['outs'] = t, [t]
        # what the reply body is on the wire: a single structure is flattened into its fields
        m['struct_ret'] = len(m['outs']) == 1 and m['ret'].sig.startswith('(')
        m['body_sig'] = m['ret'].sig[1:-1] if m['ret'].sig.startswith('(') else m['ret'].sig
        m['out_names'] = [f'o{i}' for i in range(len(m['outs']))] if (rk == 'tuple' and r.random() < 0.5) else None
        m['mut'] = r.random() < 0.35
        m['async'] = r.random() < 0.6
        m['mode'] = r.choice([0, 0, 1, 1, 2])  # infallible / fdo::Result / custom error
        m['header'] = r.random() < 0.25
        m['conn'] = r.random() < 0.15
        m['server'] = r.random() < 0.15
        m['emits'] = r.randrange(len(I.signals)) if (I.signals and m['async'] and r.random() < 0.4) else None
        m['doc'] = r.choice(DOCS) if r.random() < 0.6 else None
        if m['member'] in used:
            continue
        used.add(m['member'])
        I.methods.append(m)
    for j in range(r.randint(0, 4)):
        t = g.field_type(budget=40, val_only=True)
        p = {'fn': word_name(r, f'p{j}'), 'ty': t, 'emits': r.choice(EMITS)}
        if r.random() < 0.4:
            # the same property name on several interfaces (of one object, when they are registered together)
            p['fn'] = f'p{j}_common'
        p['member'] = pascal(p['fn'])
        acc = r.choice(['rw', 'rw', 'rw', 'r', 'w'])
        if p['emits'] == 'const':
            acc = 'r'
        if acc == 'w':
            # (the attribute cannot be given on setters; a write-only property cannot be read back, so
            # it is documented — and introspected — as not emitting change signals)
            p['emits'] = 'false'
        p['read'], p['write'] = 'r' in acc, 'w' in acc
        p['rejects'] = p['write'] and r.random() < 0.4
        p['getter_fallible'] = p['read'] and r.random() < 0.2
        # a setter taking &self, the value behind a Mutex (dispatched without the interface's write lock)
        p['interior'] = p['write'] and r.random() < 0.4
        # async getter / setter (they yield to the scheduler once)
        p['async'] = r.random() < 0.3
        p['doc'] = r.choice(DOCS) if r.random() < 0.4 else None
        I.props.append(p)
    # by construction: an async handler that uses the object server, on an interface whose methods are
    # spawned (the first interface) and on one whose methods run inline (the second)
    if k in (0, 1) and I.methods:
        I.spawn = (k == 0)
        I.methods[0]['async'] = True
        I.methods[0]['server'] = True
    # by construction (one program per quick run must not depend on luck for these): the first two
    # interfaces carry readable and writable properties crossing setter receiver x sync/async x
    # emits mode, and share a property name
    gallery = {
        0: [('g0_cell', 'true', True, False, False), ('g1_cell', 'invalidates', True, True, True), ('g2_plain', 'true', False, True, False),
            ('g_common', 'true', False, False, False)],
        1: [('g_common', 'true', True, False, False), ('g3_plain', 'invalidates', False, False, True)],
    }
    for fn, emits, interior, is_async, rejects in gallery.get(k, []):
        t = g.field_type(budget=40, val_only=True)
        I.props.append({'fn': fn, 'member': pascal(fn), 'ty': t, 'emits': emits, 'read': True, 'write': True, 'rejects': rejects,
                        'getter_fallible': False, 'interior': interior, 'async': is_async, 'doc': None})
    return I


def fty(p):
    return f'std::sync::Mutex<{p["ty"].rust}>' if p['interior'] else p['ty'].rust


def finit(p, rs):
    d = f'derived({rstr(rs + "." + p["member"] + "|init")})'
    return f'std::sync::Mutex::new({d})' if p['interior'] else d


def emit_iface(g, I):
    o = g.out
    rs = I.rs
    # ---- server side ----------------------------------------------------------------------------
    o.append(f'pub struct {rs} {{ pub log: Log, pub count: u32, ' + ''.join(f'pub {p["fn"]}: {fty(p)}, ' for p in I.props) + '}')
    o.append(f'impl {rs} {{ pub fn new(log: Log) -> Self {{ {rs} {{ log, count: 0, ' + ''.join(f'{p["fn"]}: {finit(p, rs)}, ' for p in I.props) + '} } }')
    attrs = f'name = {rstr(I.name)}' + ('' if I.spawn else ', spawn = false')
    o.append(f'#[zbus::interface({attrs})]')
    o.append(f'impl {rs} {{')
    for m in I.methods:
        if m['doc']:
            o.append(f'    #[doc = {rstr(m["doc"])}]')
        za = []
        if m.get('rename'):
            za.append(f'name = {rstr(m["member"])}')
        if m['out_names']:
            za.append('out_args(' + ', '.join(rstr(n) for n in m['out_names']) + ')')
        if za:
            o.append('    #[zbus(' + ', '.join(za) + ')]')
        params = ['&mut self' if m['mut'] else '&self']
        plain = [f'a{i}: {t.rust}' for i, t in enumerate(m['args'])]
        specials = []
        if m['header']:
            specials.append("#[zbus(header)] hdr: zbus::message::Header<'_>")
        if m['emits'] is not None:
            specials.append("#[zbus(signal_emitter)] emitter: zbus::object_server::SignalEmitter<'_>")
        if m['conn']:
            specials.append('#[zbus(connection)] conn: &zbus::Connection')
        if m['server']:
            specials.append('#[zbus(object_server)] server: &zbus::ObjectServer')
        # special parameters go to generated positions among the plain ones
        allp = plain[:]
        for s in specials:
            allp.insert(g.r.randint(0, len(allp)), s)
        params += allp
        ret = m['ret'].rust
        rty = {0: ret, 1: f'zbus::fdo::Result<{ret}>', 2: f'Result<{ret}, GErr>'}[m['mode']]
        o.append(f'    {"async " if m["async"] else ""}fn {m["fn"]}(' + ', '.join(params) + f') -> {rty} {{')
        tup = 'lbl(&[' + ''.join(f'a{i}.to_r(), ' for i in range(len(m['args']))) + '])'
        o.append(f'        let label = format!("{rs}.{m["member"]}|{{}}", {tup});')
        o.append('        self.log.lock().unwrap().push(label.clone());')
        if m['mut']:
            o.append('        self.count += 1;')
        if m['header']:
            o.append('        self.log.lock().unwrap().push(format!("hdr|{}|{}", hdr.member().map(|m| m.to_string()).unwrap_or_default(), hdr.primary().serial_num()));')
        if m['conn']:
            o.append('        let _ = conn.unique_name();')
        if m['server'] and m['async']:
            # the handler uses the object server it was given (a removal that finds nothing: the tree
            # has to be lockable for writing while the handler runs)
            o.append('        let _ = server.remove::<Self, _>("/gen/none/there").await;')
        elif m['server']:
            o.append('        let _ = server;')
        if m['async']:
            o.append('        yield_now().await;')
        if m['emits'] is not None:
            s = I.signals[m['emits']]
            sargs = ''.join(f', derived::<{t.rust}>(&format!("{{label}}|sig{i}"))' for i, t in enumerate(s['args']))
            o.append(f'        let _ = Self::{s["fn"]}(&emitter{sargs}).await;')
        if m['mode'] == 0:
            o.append('        derived(&label)')
        elif m['mode'] == 1:
            o.append('        match fails(&label) { Some(h) => Err(fdo_err(h)), None => Ok(derived(&label)) }')
        else:
            o.append('        match fails(&label) { Some(h) => Err(custom_err(h)), None => Ok(derived(&label)) }')
        o.append('    }')
    for p in I.props:
        t = p['ty'].rust
        pa = '' if p['emits'] == 'true' else f'(emits_changed_signal = "{p["emits"]}")'
        first = True
        if p['read']:
            if p['doc']:
                o.append(f'    #[doc = {rstr(p["doc"])}]')
            o.append(f'    #[zbus(property{pa})]')
            first = False
            rd = f'self.{p["fn"]}.lock().unwrap().clone()' if p['interior'] else f'self.{p["fn"]}.clone()'
            af = 'async ' if p['async'] else ''
            ay = 'yield_now().await; ' if p['async'] else ''
            if p['getter_fallible']:
                o.append(f'    {af}fn {p["fn"]}(&self) -> zbus::fdo::Result<{t}> {{ {ay}Ok({rd}) }}')
            else:
                o.append(f'    {af}fn {p["fn"]}(&self) -> {t} {{ {ay}{rd} }}')
        if p['write']:
            o.append('    #[zbus(property)]')
            lab = f'let label = format!("{rs}.{p["member"]}|set|{{}}", lbl(&[v.to_r()])); self.log.lock().unwrap().push(label.clone());'
            slf = '&self' if p['interior'] else '&mut self'
            wr = f'*self.{p["fn"]}.lock().unwrap() = v;' if p['interior'] else f'self.{p["fn"]} = v;'
            af = 'async ' if p['async'] else ''
            if p['async']:
                lab += ' yield_now().await;'
            if p['rejects']:
                o.append(f'    {af}fn set_{p["fn"]}({slf}, v: {t}) -> zbus::fdo::Result<()> {{ {lab} if fails(&label).is_some() {{ return Err(zbus::fdo::Error::InvalidArgs("rejected".into())); }} {wr} Ok(()) }}')
            else:
                o.append(f'    {af}fn set_{p["fn"]}({slf}, v: {t}) {{ {lab} {wr} }}')
    for s in I.signals:
        if s['doc']:
            o.append(f'    #[doc = {rstr(s["doc"])}]')
        o.append('    #[zbus(signal)]')
        o.append(f"    async fn {s['fn']}(emitter: &zbus::object_server::SignalEmitter<'_>" + ''.join(f', a{i}: {t.rust}' for i, t in enumerate(s['args'])) + ') -> zbus::Result<()>;')
    o.append('}')
    o.append('')
    # ---- proxy ------------------------------------------------------------------------------------
    o.append(f'#[zbus::proxy(interface = {rstr(I.name)}, default_service = "gen.Server", default_path = "/gen")]')
    o.append(f'pub trait {rs}P {{')
    for m in I.methods:
        if m.get('rename'):
            o.append(f'    #[zbus(name = {rstr(m["member"])})]')
        o.append(f'    fn {m["fn"]}(&self' + ''.join(f', a{i}: {ref_arg(t)}' for i, t in enumerate(m['args'])) + f') -> zbus::Result<{m["ret"].rust}>;')
    for p in I.props:
        pa = '' if p['emits'] == 'true' else f'(emits_changed_signal = "{p["emits"]}")'
        if p['read']:
            o.append(f'    #[zbus(property{pa})]')
            o.append(f'    fn {p["fn"]}(&self) -> zbus::Result<{p["ty"].rust}>;')
        if p['write']:
            o.append(f'    #[zbus(property{pa})]')
            o.append(f'    fn set_{p["fn"]}(&self, v: {p["ty"].rust}) -> zbus::Result<()>;')
    for s in I.signals:
        o.append('    #[zbus(signal)]')
        o.append(f'    fn {s["fn"]}(&self' + ''.join(f', a{i}: {t.rust}' for i, t in enumerate(s['args'])) + ') -> zbus::Result<()>;')
    o.append('}')
    o.append('')
    # ---- glue -------------------------------------------------------------------------------------
    lo = rs.lower()
    o.append(f"fn {lo}_register<'a>(os: &'a zbus::ObjectServer, path: String, log: Log) -> BoxFut<'a, zbus::Result<bool>> {{ Box::pin(async move {{ os.at(path, {rs}::new(log)).await }}) }}")
    o.append(f"fn {lo}_remove<'a>(os: &'a zbus::ObjectServer, path: String) -> BoxFut<'a, zbus::Result<bool>> {{ Box::pin(async move {{ os.remove::<{rs}, _>(path).await }}) }}")
    for j, m in enumerate(I.methods):
        gens = ''.join(f'let a{i}: {t.rust} = Gen::gen(src, &mut fuel); ' for i, t in enumerate(m['args']))
        tup = 'lbl(&[' + ''.join(f'a{i}.to_r(), ' for i in range(len(m['args']))) + '])'
        o.append(f'fn {lo}_m{j}_call(src: &mut Src) -> CallSpec {{ let mut fuel = 8u32; {gens}CallSpec {{ label: format!("{rs}.{m["member"]}|{{}}", {tup}), args: vec![' + ', '.join(f'a{i}.to_r()' for i in range(len(m['args']))) + '] } }')
        o.append(f'fn {lo}_m{j}_expect(label: &str) -> Result<Vec<RVal>, ExpErr> {{ outcome::<{m["ret"].rust}>(label, {m["mode"]}).map(|r| body_of(&r)) }}')
        if m['emits'] is not None:
            s = I.signals[m['emits']]
            o.append(f'fn {lo}_m{j}_signal(label: &str) -> Vec<RVal> {{ vec![' + ', '.join(f'derived::<{t.rust}>(&format!("{{label}}|sig{i}")).to_r()' for i, t in enumerate(s['args'])) + '] }')
    for j, p in enumerate(I.props):
        t = p['ty'].rust
        o.append(f'fn {lo}_p{j}_init() -> RVal {{ derived::<{t}>({rstr(rs + "." + p["member"] + "|init")}).to_r() }}')
        o.append(f'fn {lo}_p{j}_gen(src: &mut Src) -> (RVal, String) {{ let mut fuel = 8u32; let v: {t} = Gen::gen(src, &mut fuel); (v.to_r(), format!("{rs}.{p["member"]}|set|{{}}", lbl(&[v.to_r()]))) }}')
    # proxy operations: op index space = methods, then property gets, then property sets
    o.append(f"fn {lo}_px<'a>(conn: &'a zbus::Connection, path: String, op: usize, bytes: Vec<u8>, ctx: PxCtx) -> BoxFut<'a, Result<PxOut, String>> {{ Box::pin(async move {{")
    o.append(f'    let kept: Option<{rs}PProxy<\'static>> = ctx.slots.as_ref().and_then(|s| s.lock().unwrap().get({rstr(rs)}).and_then(|b| b.downcast_ref::<{rs}PProxy<\'static>>()).cloned());')
    o.append('    let p = match kept { Some(p) => p, None => {')
    o.append(f'        let b = {rs}PProxy::builder(conn).path(path).map_err(|e| e.to_string())?;')
    o.append('        let b = match ctx.cache { 1 => b.cache_properties(zbus::proxy::CacheProperties::Yes), 2 => b.cache_properties(zbus::proxy::CacheProperties::No), _ => b };')
    o.append(f'        let p: {rs}PProxy<\'static> = b.build().await.map_err(|e| format!("building the proxy failed: {{e}}"))?;')
    o.append(f'        if let Some(s) = &ctx.slots {{ s.lock().unwrap().insert({rstr(rs)}, Box::new(p.clone())); }}')
    o.append('        p } };')
    o.append('    let mut src = Src::new(&bytes); let src = &mut src; let mut fuel = 8u32;')
    o.append('    match op {')
    op = 0
    I.px_ops = []
    for j, m in enumerate(I.methods):
        gens = ''.join(f'let a{i}: {t.rust} = Gen::gen(src, &mut fuel); ' for i, t in enumerate(m['args']))
        tup = 'lbl(&[' + ''.join(f'a{i}.to_r(), ' for i in range(len(m['args']))) + '])'
        call = f'p.{m["fn"]}(' + ', '.join(f'a{i}.clone()' for i in range(len(m['args']))) + ').await'
        if m['emits'] is not None:
            s = I.signals[m['emits']]
            getters = ', '.join(f'args.a{i}().to_r()' for i in range(len(s['args'])))
            sig_part = f'let mut stream = p.receive_{s["fn"]}().await.map_err(|e| format!("subscribing failed: {{e}}"))?; '
            after = f' let sigmsg = futures_util::StreamExt::next(&mut stream).await.ok_or("the signal stream ended")?; let args = sigmsg.args().map_err(|e| format!("signal arguments do not decode: {{e}}"))?; let sargs: Vec<RVal> = vec![{getters}];' if s['args'] else ' let _sigmsg = futures_util::StreamExt::next(&mut stream).await.ok_or("the signal stream ended")?; let sargs: Vec<RVal> = vec![];'
            o.append(f'        {op} => {{ {gens}let label = format!("{rs}.{m["member"]}|{{}}", {tup}); {sig_part}let res = {call};{after} Ok(PxOut::Call {{ label, result: px_result(res), signal: Some(sargs) }}) }}')
        else:
            o.append(f'        {op} => {{ {gens}let label = format!("{rs}.{m["member"]}|{{}}", {tup}); let res = {call}; Ok(PxOut::Call {{ label, result: px_result(res), signal: None }}) }}')
        I.px_ops.append(('m', j))
        op += 1
    for j, p in enumerate(I.props):
        if p['read']:
            o.append(f'        {op} => {{ let res = p.{p["fn"]}().await; Ok(PxOut::Get {{ prop: {j}, result: res.map(|v| v.to_r()).map_err(|e| e.to_string()) }}) }}')
            I.px_ops.append(('g', j))
            op += 1
        if p['write']:
            o.append(f'        {op} => {{ let v: {p["ty"].rust} = Gen::gen(src, &mut fuel); let label = format!("{rs}.{p["member"]}|set|{{}}", lbl(&[v.to_r()])); let val = v.to_r(); let res = p.set_{p["fn"]}(v).await; Ok(PxOut::Set {{ prop: {j}, label, value: val, result: res.map_err(|e| e.to_string()) }}) }}')
            I.px_ops.append(('s', j))
            op += 1
    o.append('        _ => Err("harness: no such proxy operation".into()),')
    o.append('    }')
    o.append('}) }')
    # the same through the blocking proxy (run on a thread of its own by the harness)
    o.append(f'fn {lo}_bpx(conn: &zbus::blocking::Connection, path: String, op: usize, bytes: Vec<u8>) -> Result<PxOut, String> {{')
    o.append(f'    let p = {rs}PProxyBlocking::builder(conn).path(path).map_err(|e| e.to_string())?.build().map_err(|e| format!("building the proxy failed: {{e}}"))?;')
    o.append('    let mut src = Src::new(&bytes); let src = &mut src; let mut fuel = 8u32;')
    o.append('    match op {')
    op = 0
    for j, m in enumerate(I.methods):
        gens = ''.join(f'let a{i}: {t.rust} = Gen::gen(src, &mut fuel); ' for i, t in enumerate(m['args']))
        tup = 'lbl(&[' + ''.join(f'a{i}.to_r(), ' for i in range(len(m['args']))) + '])'
        call = f'p.{m["fn"]}(' + ', '.join(f'a{i}.clone()' for i in range(len(m['args']))) + ')'
        if m['emits'] is not None:
            s = I.signals[m['emits']]
            getters = ', '.join(f'args.a{i}().to_r()' for i in range(len(s['args'])))
            sig_part = f'let mut stream = p.receive_{s["fn"]}().map_err(|e| format!("subscribing failed: {{e}}"))?; '
            after = f' let sigmsg = stream.next().ok_or("the signal stream ended")?; let args = sigmsg.args().map_err(|e| format!("signal arguments do not decode: {{e}}"))?; let sargs: Vec<RVal> = vec![{getters}];' if s['args'] else ' let _sigmsg = stream.next().ok_or("the signal stream ended")?; let sargs: Vec<RVal> = vec![];'
            o.append(f'        {op} => {{ {gens}let label = format!("{rs}.{m["member"]}|{{}}", {tup}); {sig_part}let res = {call};{after} Ok(PxOut::Call {{ label, result: px_result(res), signal: Some(sargs) }}) }}')
        else:
            o.append(f'        {op} => {{ {gens}let label = format!("{rs}.{m["member"]}|{{}}", {tup}); let res = {call}; Ok(PxOut::Call {{ label, result: px_result(res), signal: None }}) }}')
        op += 1
    for j, p in enumerate(I.props):
        if p['read']:
            o.append(f'        {op} => {{ let res = p.{p["fn"]}(); Ok(PxOut::Get {{ prop: {j}, result: res.map(|v| v.to_r()).map_err(|e| e.to_string()) }}) }}')
            op += 1
        if p['write']:
            o.append(f'        {op} => {{ let v: {p["ty"].rust} = Gen::gen(src, &mut fuel); let label = format!("{rs}.{p["member"]}|set|{{}}", lbl(&[v.to_r()])); let val = v.to_r(); let res = p.set_{p["fn"]}(v); Ok(PxOut::Set {{ prop: {j}, label, value: val, result: res.map_err(|e| e.to_string()) }}) }}')
            op += 1
    o.append('        _ => Err("harness: no such proxy operation".into()),')
    o.append('    }')
    o.append('}')
    o.append('')


def entry(I):
    lo = I.rs.lower()
    e = []
    e.append(f'        IfaceEntry {{ rs: {rstr(I.rs)}, name: {rstr(I.name)}, spawn: {"true" if I.spawn else "false"}, register: {lo}::{lo}_register, remove: {lo}::{lo}_remove, px: {lo}::{lo}_px, bpx: {lo}::{lo}_bpx,')
    e.append('            methods: vec![')
    for j, m in enumerate(I.methods):
        sl = lambda xs: '&[' + ', '.join(rstr(x) for x in xs) + ']'
        e.append(f'                MethodEntry {{ member: {rstr(m["member"])}, in_sigs: {sl([t.sig for t in m["args"]])}, in_names: {sl([f"a{i}" for i in range(len(m["args"]))])}, out_sigs: {sl([t.sig for t in m["outs"]])}, out_names: {sl(m["out_names"] or [])}, body_sig: {rstr(m["body_sig"])}, struct_ret: {"true" if m["struct_ret"] else "false"}, mutable: {"true" if m["mut"] else "false"}, is_async: {"true" if m["async"] else "false"}, mode: {m["mode"]}, header: {"true" if m["header"] else "false"}, emits: {("Some(%d)" % m["emits"]) if m["emits"] is not None else "None"}, gen_call: {lo}::{lo}_m{j}_call, expect: {lo}::{lo}_m{j}_expect, expect_signal: {("Some(%s::%s_m%d_signal)" % (lo, lo, j)) if m["emits"] is not None else "None"}, doc: {("Some(%s)" % rstr(m["doc"])) if m["doc"] else "None"} }},')
    e.append('            ],')
    e.append('            props: vec![')
    for j, p in enumerate(I.props):
        e.append(f'                PropEntry {{ name: {rstr(p["member"])}, sig: {rstr(p["ty"].sig)}, read: {"true" if p["read"] else "false"}, write: {"true" if p["write"] else "false"}, emits: {rstr(p["emits"])}, rejects: {"true" if p["rejects"] else "false"}, interior: {"true" if p["interior"] else "false"}, init: {lo}::{lo}_p{j}_init, gen_val: {lo}::{lo}_p{j}_gen, doc: {("Some(%s)" % rstr(p["doc"])) if p["doc"] else "None"} }},')
    e.append('            ],')
    e.append('            signals: vec![')
    for s in I.signals:
        sl = lambda xs: '&[' + ', '.join(rstr(x) for x in xs) + ']'
        e.append(f'                SignalEntry {{ member: {rstr(s["member"])}, sigs: {sl([t.sig for t in s["args"]])}, names: {sl([f"a{i}" for i in range(len(s["args"]))])}, doc: {("Some(%s)" % rstr(s["doc"])) if s["doc"] else "None"} }},')
    e.append('            ],')
    ops = ', '.join(f'({rstr(k)}, {j})' for k, j in I.px_ops)
    e.append(f'            px_ops: vec![{ops}],')
    e.append('        },')
    return e


def emit(g, n):
    o = g.out
    o.append('use crate::genval::{body_of, derived, lbl};')
    o.append('use crate::ifcheck::{custom_err, fails, fdo_err, outcome, px_result, BoxFut, CallSpec, ExpErr, GErr, IfaceEntry, Log, MethodEntry, PropEntry, PxCtx, PxOut, SignalEntry};')
    o.append('use crate::sched::yield_now;')
    o.append('')
    ifaces = [gen_iface(g, k) for k in range(n)]
    for I in ifaces:
        # one module per interface: the proxy macro derives type names from the signal names
        start = len(o)
        emit_iface(g, I)
        body = ['    ' + ('pub ' + l if l.startswith('fn ') else l) for l in o[start:]]
        del o[start:]
        o.append(f'pub mod {I.rs.lower()} {{')
        o.append('    use super::*;')
        o.extend(body)
        o.append('}')
        o.append(f'pub use {I.rs.lower()}::{I.rs};')
        o.append('')
    o.append('pub fn ifaces() -> Vec<IfaceEntry> {')
    o.append('    vec![')
    for I in ifaces:
        o.extend(entry(I))
    o.append('    ]')
    o.append('}')
