"""interface / proxy part of the program generator (see gen_prog.py)"""


def emit(g, n):
    g.out.append('pub fn ifaces() -> Vec<crate::ifcheck::IfaceEntry> { vec![] }')
