#!/usr/bin/env python3
"""Generate /verif/MANIFEST.json from the table below (keeps the manifest valid and in one place)."""
import json, os, subprocess

ROOT = os.path.dirname(os.path.dirname(os.path.abspath(__file__)))

# id -> (technique, level text, level note, design ref)
CHECKS = {
    'C01': ('differential PBT: zvariant encoder vs independent D-Bus reference marshaller (proptest byte-string generator, shrinking)',
            'Exploration: generated (signature, value, endian, offset, route) cases; zvariant bytes must be strictly decodable by an independent reference unmarshaller, denote the input value and re-marshal byte-identically; size/fd counts compared. Finds any wrong padding/length/terminator rule the encoder and decoder share.',
            'Trusted: refmodel (own D-Bus marshaller written from the spec), proptest, generator bounds (<= 24 nodes, strings <= 262 B). No NaN as dict key.', '7/C01'),
    'C02': ('round-trip PBT over dynamic Value/OwnedValue and a gallery of typed Rust values in D-Bus and GVariant formats',
            'Exploration: decode(encode(v)) == v (bitwise f64, dict as multiset) and consumed == encoded length over generated values, both formats, both endians, offsets 0..15; typed values from a gallery of std / derived types (options as arrays incl. collections of 33..45 mostly-None options, long collections); structures whose size lies in the last 8 bytes below the 255 / 65535 framing-offset thresholds at every starting offset, alone and as second array element.',
            'Trusted: value bridge RVal<->zvariant::Value; generator bounds.', '7/C02'),
    'C03': ('differential PBT + role-aware mutation: zvariant D-Bus decoder vs independent strict validating unmarshaller',
            'Exploration in both directions (false accept and false reject): valid reference encodings (incl. values nested around the 32/32/64 limits, through variants and past completed siblings), 16 kinds of role-aware mutations, double mutations and random bytes; Ok <=> Accept, equal value, equal consumed length. Thorough tier adds a coverage-guided libFuzzer campaign (target zv_dbus_diff, same oracle inside the target).',
            'Trusted: refmodel strict unmarshaller (spec rules listed in the property); duplicate dict keys and the 64 MiB array cap are not demanded.', '7/C03'),
    'C05': ('differential PBT: zvariant GVariant encoder vs independent normal-form serialiser, threshold-aimed generators',
            'Exploration: byte-for-byte comparison with a reference GVariant serialiser (checked against the examples of the GVariant specification), incl. containers aimed at the 255/256 and 65535/65536 framing-offset thresholds. Known deviations are attributed by re-running the reference with a single deviation switch.',
            'Trusted: refmodel::gv. Offsets that are not a multiple of 8 expect leading zero padding then the normal form.', '7/C05'),
    'C04': ('crash/resource fuzzing with proptest-driven structure-aware generators (mutated reference encodings, random bytes) in 4 feature configurations; counting global allocator; re-encode oracle',
            'Exploration: no panic (catch_unwind), bounded peak allocation and panic-free re-encoding over mutated valid encodings and random bytes for 12 decode targets, both formats, in each of the four feature configurations (separate harness builds); plus wide containers (100..253 variable-sized members / elements fed byte runs and truncated serialisations around the offset-width thresholds) and GVariant framing offsets nudged beside element boundaries. Thorough tier adds a libFuzzer campaign (target zv_decode, same oracle inside the target).',
            'Trusted: catch_unwind sees every panic (panic=unwind build); allocation bound 1024*(input+signature)+64KiB only catches length-driven pre-allocation; stack overflow would abort the process (reported as exit 2 by the driver).', '7/C04'),
    'C06': ('bounded exhaustive enumeration + limit-case generation against an independent grammar recogniser',
            'Exploration, exhaustive within the stated bound: every string over the full 21-symbol alphabet up to length 5/6 and over the container alphabet up to length 7/8, plus strings at the 255-byte and 32-depth limits; accept/reject must equal the reference recogniser, and accepted strings must print, measure, hash, compare and re-parse consistently across parsed / dynamic / static representations.',
            'Trusted: refmodel::sig. At the depth limits the specification counts parentheses, libdbus also braces: strings valid under only one reading are skipped (4 per run).', '7/C06'),
    'C07': ('grid enumeration + PBT of nesting chains against a counting model',
            'Exploration, exhaustive over the boundary grid in the thorough tier: encode and decode of container chains around every limit in 8 orders, both formats/routes/endians; success iff within 32/32/64, otherwise a MaxDepthExceeded error (or, for a variant whose own signature nests > 32, the invalid-signature rejection that C06 demands); plus sibling shapes: 1-2 or 31-70 completed sibling containers in front of the deep child at a generated level must neither lower nor raise the count.',
            'Trusted: refmodel marshaller/serialiser for the decode inputs; counting model: dict = one array, variant/maybe count only towards the total.', '7/C07'),
    'C08': ('algebraic-law PBT over triples of dynamic values (twins, near misses, fresh values)',
            'Exploration: equivalence, total order, hash consistency, clone/owned twins, reported signature vs encoded signature over generated triples incl. NaN, signed zeros, fds; construction routes (a vector handed over by value / as a slice / by reference, Value::new) must give one and the same value, signature, hash and bytes.',
            'Trusted: value bridge. Known findings: NaN breaks reflexivity (keyed by a NaN-replacement classifier), owned copies of fds compare unequal.', '7/C08'),
    'C09': ('program-generating PBT: random crates of derived type definitions compiled against the library, signature / wire value predicted by the generator\'s own table, checked by an independent reference decoder',
            'Exploration over programs and inputs: each run generates a crate of ~55 type definitions (all derive kinds, nested over std types with built-in impls, each enum / dictionary kind also placed inside arrays, dictionaries, tuples and newtype variants), compiles it against the working tree and exercises every type with generated values: declared signature == table; bytes strictly valid for it, denote the predicted reference value, size agrees; decode(encode(v)) == v; decode(reference bytes) == v; Value / OwnedValue conversions round-trip with the table signature.',
            'Trusted: the generator table (Rust type -> signature / reference value, written from the derive documentation), refmodel::dbus. D-Bus format only (a crate using zbus and zvariant/gvariant does not build: known finding of C35). One program per quick run, six per thorough run.', '7/C09'),
    'C10': ('bounded exhaustive enumeration over a character-class alphabet, every construction route, against independent name grammars',
            'Exploration, exhaustive within the stated bound: all strings up to 6/7 symbols over 11 character classes for 9 validated types and every construction route, plus 250..260-byte strings and UUID-like spellings; accept <=> reference grammar.',
            'Trusted: refmodel::names (written from the specification). Tolerances: org.freedesktop.DBus as unique name; PropertyName = any 1..=255-byte string (its documentation).', '7/C10'),
    'C11': ('round-trip + differential PBT: zbus message builder vs independent strict message parser',
            'Exploration: generated type x fields x flags x endian x body (incl. fds); accessors and re-parse return what was put in; an independent parser written from the message-format chapter accepts the bytes and reads the same header, signature and body; the same for a message rebuilt from the header of another with a different body (Builder::from(header)).',
            'Trusted: refmodel::msg / refmodel::dbus. A body made of one struct argument reads back as that struct (documented ambiguity).', '7/C11'),
    'C12': ('crash fuzzing of the message parser with role-aware mutations of reference-built messages (proptest-driven)',
            'Exploration: 16 mutation kinds + random bytes into Message::from_bytes; every accessor, body deserialisation, Display and Debug of accepted messages exercised under catch_unwind. Thorough tier adds a libFuzzer campaign (target msg_parse, same oracle inside the target).',
            'Trusted: catch_unwind (panic=unwind).', '7/C12'),
    'C13': ('PBT with reference-built messages carrying unknown field codes / flag bits / types, at message level and in a stream through ReadHalf::receive_message',
            'Exploration: unknown parts must not make parsing fail, known fields/flags stay intact, and a stream keeps delivering the neighbouring messages (unknown types are skipped).',
            'Trusted: refmodel::msg builder; scripted socket (public Socket traits).', '7/C13'),
    'C14': ('model-based PBT of stream framing: generated message sequences x chunkings x handshake leftovers through a scripted socket',
            'Exploration over inputs and read schedules: messages come out byte-identical, in order, with their own fds and increasing positions; >128 MiB headers fail without a body-sized read.',
            'Trusted: scripted socket models a unix stream socket: a recvmsg never merges data across an fd-carrying message start.', '7/C14'),
    'C15': ('concurrency stress PBT with a cfg-guarded hook placing the serial counter at the wrap-around',
            'Exploration (schedules are the OS scheduler\'s): 2..16 threads build messages concurrently (some interleaving builds that fail) from generated counter positions incl. across the 32-bit wrap; plus a wrap race: 8 persistent threads released together 40 000 / 2 000 000 times with the counter 0..6 draws before the wrap; no zero, no repeat, per-thread progress.',
            'Trusted: the hook only stores the counter. The interleaving cannot be owned by the harness (std atomics inside zbus), so this is stress exploration on 16 cores.', '7/C15'),
    'C21': ('differential PBT: MatchRule::matches vs the specification\'s semantics on rule-derived near-miss messages',
            'Exploration: rules over all keys x messages derived from the rule and perturbed in 0..2 aspects (prefix/sibling paths, trailing-slash arguments, other argument types, namespace boundaries, absent fields); verdicts must agree except for the two documented unresolvable-name cases.',
            'Trusted: refmodel::matchrule (written from the specification, with its own examples as unit tests); messages come from the reference builder. First arguments that are strings but not bus names are skipped for arg0namespace.', '7/C21'),
    'C22': ('round-trip + differential PBT: rule printer/parser vs a specification-conformant tokenizer',
            'Exploration: rules with special characters in argument values; to_string() must be read back as an equal rule by a conformant parser and by zbus, zbus must read the conformant print, and parse.print.parse is stable.',
            'Trusted: refmodel::matchrule tokenizer (quoting rules of the reference bus implementation).', '7/C22'),
    'C23': ('round-trip PBT over Address values + differential PBT of address strings against the specification\'s percent codec',
            'Exploration: parse(format(a)) == a over all Linux transports with arbitrary byte values, and every value zbus holds after parsing a grammar-generated string equals the percent-decoded value.',
            'Trusted: refmodel::addr. vsock transports are feature-gated and not built here.', '7/C23'),
    'C34': ('round-trip PBT: generated introspection trees -> XML text -> model -> XML -> model',
            'Exploration: accessors of the parsed model equal the generated tree (independent writer with correct escaping, element kinds interleaved as the DTD allows, present-but-empty names, single-field structure types) and write->read yields an equal value.',
            'Trusted: the harness\'s own XML writer/escaper.', '7/C34'),
    'C16': ('bounded exhaustive enumeration of client transcripts + random transcripts with arbitrary read splits, validated against a reference SASL server automaton',
            'Exploration, exhaustive within the stated bound: every transcript of up to 3/4 lines over 23 alternatives in 8 configurations, plus random long transcripts with splits and stray line endings; the server\'s reply words and completion must be a path of the (nondeterministic where the statement and the specification differ) reference automaton; no panic, no hang.',
            'Trusted: refmodel::sasl; scripted socket through the public Socket traits and Builder::socket(..).server(..).p2p(). Malformed hex / identities may be answered by ERROR, REJECTED or by giving up.', '7/C16'),
    'C17': ('PBT of the client handshake against scripted server replies with arbitrary read splits and trailing message bytes',
            'Exploration: success iff proper OK + NEGOTIATE answer, fd capability iff AGREE_UNIX_FD (observed by sending an fd), trailing bytes delivered first and byte-identical; no panic, no hang.',
            'Trusted: refmodel::sasl::client_expect. The expected-GUID route needs a real listening socket and is not exercised.', '7/C17'),
    'C18': ('schedule-exploring PBT: harness-owned single-threaded scheduler + scripted transport with generated partial writes',
            'Exploration over schedules: concurrent senders under generated task interleavings and write splits; the captured stream must frame into exactly the sent messages, per-sender order kept, fds with the first bytes only.',
            'Trusted: the scheduler polls zbus futures and ticks the connection executor itself (internal_executor(false)); no threads are involved, so a schedule byte string reproduces the run.', '6, 7/C18'),
    'C19': ('schedule- and history-exploring PBT with a fake peer (reply permutations, delays, noise, transport end)',
            'Exploration over schedules and peer behaviours: each call completes exactly once with its own reply / error / transport error, also while bystander message streams exist (rule-less, type=method_return, type=error, small queues) and while the peer acknowledges late; hang = quiescence with a pending call.',
            'Trusted: scheduler and fake peer (reference message builder). The method_timeout path (real-time timer) is not exercised.', '6, 7/C19'),
    'C20': ('model-based PBT over stream histories (create / clone / drop / incoming / poll) under generated schedules and small queues',
            'Exploration over histories: per-stream model queues (capacity as asked for, shared by clones) vs what each stream yields; shared subscriptions survive the drop of one stream; drops inside tasks (async drop), lazily consumed streams and queues asked for with a size are generated.',
            'Trusted: scheduler; streams are kept polled while messages are taken in (the property\'s proviso).', '6, 7/C20'),
    'C24': ('model-based PBT: bounded exhaustive histories + random long histories of at/remove against a set model, observed by lookup, method calls and introspection',
            'Exploration, exhaustive within the stated bound (all histories of up to 3/4 operations over 6 paths x 3 interfaces with all 18 pairs looked up after every step), plus random histories to 40 operations with calls and introspection through a fake peer; instance identity (which object answers) is checked, and the standard interfaces are removed / re-added as well.',
            'Trusted: the set model; fake peer and scheduler. Intermediate nodes without interfaces are not part of the compared set.', '7/C24'),
    'C25': ('model-based PBT over histories: a client folds GetManagedObjects + InterfacesAdded/Removed and is compared with the model after every step',
            'Exploration over histories under one or two managers (disjoint, or one below the other) with a Ping barrier after every step; folded view == model objects with current property values; with nested managers the folded view of each is compared with a fresh GetManagedObjects listing of that manager.',
            'Trusted: same-connection ordering makes the Ping reply a barrier for the signals before it. With nested managers, what each manager lists is taken from the manager itself (no model of it is imposed).', '7/C25'),
    'C26': ('program-generating PBT: random #[interface] impls compiled against the library; a reference-built raw peer sends bursts of calls that are right or wrong in exactly one aspect; replies, errors, signals and handler invocations predicted from the generator\'s table under a harness-owned schedule',
            'Exploration over programs and inputs: per run one generated crate of 8 interfaces (~30 methods of all shapes); per case 1-3 registrations on a 5-path tree and 1-5 calls (valid / wrong path / interface / member / arguments incl. the arguments wrapped into one structure, with and without the no-reply flag, both endiannesses) or a single call without interface field (delivered with the right result, or refused with a standard error); handler ran iff everything matches, with exactly the arguments sent; exactly one reply (none with the flag) carrying the predicted value with the declared signature, the handler\'s error, or the named standard error; emitted signals as declared; nothing else written.',
            'Trusted: generator table (Rust type -> signature / reference value), reference message builder / parser, harness scheduler. For an existing node without the interface either UnknownObject or UnknownInterface is accepted.', '7/C26'),
    'C27': ('program-generating PBT: introspection XML of generated interfaces on random trees checked by an own strict XML parser, by zbus_xml, against the generator\'s table and against wire behaviour',
            'Exploration over programs: per case 1-4 interfaces (+ optional ObjectManager) on a tree, one node introspected: well-formed per an independent XML 1.0 parser, read by zbus_xml, every node lists exactly its interfaces (standard ones verified by calling them) and child nodes, members declared as in the table (names, directions, types, access, annotations), and Get / method replies / emitted signals on the wire carry the declared types. Doc comments contain XML-special text and runs of dashes; a second introspection after a change of the tree must reflect it; a hand-written Interface impl takes part.',
            'Trusted: refmodel::xml (written from the XML recommendation, unit-tested on accept / reject examples); generator table. Single-structure returns are excluded from the reply-signature comparison as the statement says.', '7/C27'),
    'C28': ('program-generating, model-based PBT over Get / GetAll / Set histories against generated property definitions',
            'Exploration over programs and histories: per case one or two generated interfaces on an object and 3-10 operations from a raw peer (valid; unknown property / interface; read-only; write-only; wrongly typed; refused by the setter); a value model predicts every reply, the setter log and the PropertiesChanged signal of each step (exactly one with the new value / invalidation after a successful Set of an emitting property, none otherwise); final GetAll == model. Setters take &mut self or &self (value behind a Mutex), property names recur across interfaces of one object, a hand-written Interface impl takes part.',
            'Trusted: generator table; a write-only property is documented (and introspected) as not emitting change signals. Which error a rejected Set carries is not demanded (the statement says "an error").', '7/C28'),
    'C33': ('program-generating PBT: generated proxy traits against generated interfaces over harness-pumped scripted sockets (async, owned schedule) and over a socket pair with executor threads (blocking)',
            'Exploration over programs, inputs and schedules: typed proxy calls with generated arguments; the handler log must show exactly the arguments sent, results / errors equal the prediction from the handler\'s label, emitted signals arrive on the proxy\'s stream with equal arguments, property reads equal the server\'s value and writes reach the setter (refused values error out). Half of the async cases keep one proxy per interface for the whole case (caching lazily / yes / no): after every write, through whichever proxy, every later read must give the server\'s value, including for two interfaces on one path that share a property name and for &self setters.',
            'Trusted: generator table and its ToR mapping. Both connections are brought to rest between operations, so a kept proxy has seen every PropertiesChanged before the next read. Blocking proxies run in real time with a proxy per operation: a 30 s give-up is reported as inconclusive (exit 2), never as a violation. A recorded generated program the compiler rejects now is a violation (DESIGN §11).', '7/C33'),
    'C29': ('schedule-exploring PBT of call bursts against handlers that yield / wait on gates',
            'Exploration over schedules: with spawn = false the start/end log must be strictly serial in arrival order; every call gets exactly one reply (none for calls flagged as expecting none); bursts of up to 104 calls (longer than the queue of pending calls).',
            'Trusted: harness scheduler (one executor task per step), gates opened only at quiescence.', '6, 7/C29'),
    'C30': ('schedule-exploring PBT of re-entrant handlers and of calls arriving right after on-demand server creation; hang = quiescence',
            'Exploration over schedules: handlers that add/remove objects and emit signals (methods, getters, setters; spawn on/off) and calls fed 0..7 steps after at() returned; every call must be answered before the system comes to rest; handlers that remove their own object, with and without the read-only variant; a &mut self handler that awaits before registering; Introspect, GetManagedObjects (object manager above the object) ObjectServer::interface() lookups and the registration of an object manager from another task running concurrently with them; the first call after on-demand creation behind a burst of signals longer than a queue (65..90).',
            'Trusted: quiescence detection of the harness scheduler (all actors pending, no wake-up pending). The loss of calls right after on-demand creation was a known finding and is repaired (known-findings.txt).', '6, 7/C30'),
    'C38': ('fault enumeration: EOF / I/O error injected at every inbound byte position and at every write call of scripted sessions, plus random sessions and schedules',
            'Fault enumeration: every fault point of 6/40 fixed sessions (all byte positions x {EOF, error}, all write calls) and random further sessions; pending calls error out, streams yield exactly the completed messages then end (also a lazily polled stream whose queue is exactly full when the transport fails), later work fails promptly, no panic, no spinning on end-of-file; sessions contain messages of unknown type (skipped) and, in some, a caching proxy whose GetAll is pending when the transport fails (building it must end with an error).',
            'Trusted: scripted socket + scheduler; a write fault is modelled as the transport failing in both directions.', '7/C38'),
    'C39': ('schedule-exploring PBT over handle sets and drop orders; gated handlers for graceful shutdown',
            'Exploration: socket halves dropped iff the last of a generated set of handles (clones, streams, proxies, signal streams; with/without object server) is dropped; graceful_shutdown pending while handlers are gated, complete (replies written, transport closed) afterwards, also when two handles shut down at once. Drop scenarios include a never-polled full stream the reader stalls on and an object server first used while handles are being dropped.',
            'Trusted: Drop of the scripted socket halves is what the peer would see as the transport closing; the harness ticker stands in for the connection\'s executor thread.', '6, 7/C39'),
    'C31': ('history- and schedule-exploring PBT of a caching proxy against a server-consistent fake service',
            'Exploration over interleavings of the GetAll reply with changed / invalidated signals (own and other interfaces, uncached property); cached values == fold(snapshot, later signals); signals naming several properties, mixed changed / invalidated lists.',
            'Trusted: the fake service emits only histories a real service could (snapshot reflects earlier changes). Property change streams for a cached property are looked at only at rest (coalescing is documented): a new stream yields the current value first, and after further signals touching the property every stream yields and reports the latest value (refetched after an invalidation); one or two streams per property.', '7/C31'),
    'C32': ('history-exploring PBT of a proxy signal stream over a fake bus (owner lookups, genuine and forged owner changes, signals from several senders)',
            'Exploration over bus histories: yielded signals == those whose sender owned the name at receive time per the bus driver only.',
            'Trusted: fake bus; signals from non-owners are delivered as unicasts (a real bus would not route their broadcasts to us).', '7/C32'),
    'C36': ('model-based PBT over name request/release histories against a scripted fake bus',
            'Exploration over histories with every reply code and genuine / forged NameAcquired / NameLost; local answers and bus calls must follow the bookkeeping model.',
            'Trusted: fake bus sends genuine signals only where a conformant bus could.', '7/C36'),
    'C37': ('invariant-based PBT over subscription histories with a recording fake bus',
            'Exploration over histories of streams / clones / drops / proxies / signal streams; AddMatch never doubled, RemoveMatch never for unknown, registered set == live distinct signal rules, empty at the end; two operations in flight at once, AddMatch refused by the bus (nothing may stay registered, later signals not delivered), the last stream of a rule dropped while an equal one is being created, and at the end of every history a matching signal per rule must reach every live stream exactly once.',
            'Trusted: fake bus recording; expected rule values are built with the MatchRule parser only to compare rules as values rather than as strings.', '7/C37'),
    'C35': ('configuration search: generated feature subsets (exhaustive / pairwise-covering / seeded random) and generated downstream crates, compiler exit status as oracle, greedy shrinking to a minimal failing subset',
            'Exploration over configurations: all subsets of the small crates, pairwise-covering and random subsets of zvariant (11 features) and zbus (runtime x 12 optional features), runtime x vsock combinations, downstream crates mixing feature selections and workspace-level builds of several packages at once (feature unification, incl. zbus_xmlgen); cargo check must succeed.',
            'Trusted: cargo check (type checking without codegen) as "builds"; platform-only features are not built.', '7/C35'),
}

NOT_YET = {}
# coverage-guided targets (fuzz/zv, fuzz/zb) run by the thorough tier; see FUZZ in ./check
FUZZ_TARGETS = {'C01': 'zv_encode', 'C02': 'zv_roundtrip', 'C03': 'zv_dbus_diff', 'C04': 'zv_decode', 'C05': 'zv_gv', 'C08': 'zv_value', 'C11': 'msg_build',
                'C12': 'msg_parse', 'C13': 'msg_unknown', 'C21': 'match_sem', 'C22': 'match_str', 'C23': 'addr', 'C34': 'xml'}

def main():
    props = [json.loads(l) for l in open(os.path.join(ROOT, 'properties.jsonl'))]
    checks = []
    na = []
    for p in props:
        pid = p['id']
        if pid in CHECKS:
            tech, text, note, ref = CHECKS[pid]
            if pid in FUZZ_TARGETS and 'libFuzzer' not in text:
                text += f' Thorough tier adds a coverage-guided libFuzzer campaign (target {FUZZ_TARGETS[pid]}, the same case function as oracle inside the target, ASan build, 300 s x 8 jobs).'
            checks.append({
                'property_id': pid,
                'quick_cmd': f'./check {pid} --tier quick',
                'thorough_cmd': f'./check {pid} --tier thorough',
                'evidence_file': f'/verif/evidence/{pid}.json',
                'replay_cmd_template': f'./check {pid} --replay {{path}}',
                'engine': 'engine',
                'level_claimed': {'category': 'fault_enumeration' if pid == 'C38' else 'exploration', 'text': text, 'design_ref': f'DESIGN.md §{ref}'},
                'level_note': note,
                'technique': tech,
            })
        else:
            na.append({'property_id': pid, 'reason': NOT_YET.get(pid, 'check not built yet in this round (property-based testing applies; see DESIGN.md §7) — nothing is claimed for it')})
    hooks = subprocess.run(['git', '-C', '/repo', 'log', '--format=%h %s', '--grep', '^hook:'], capture_output=True, text=True).stdout.split('\n')
    hook_commits = [h.split()[0] for h in hooks if h.strip()]
    m = {
        'version': 1,
        'setup_cmd': './tools/setup.sh',
        'hooks': {
            'guard': 'cfg(zbus_verif)',
            'enable': 'RUSTFLAGS="--cfg zbus_verif" (set by ./check for every harness build)',
            'baseline_off_cmd': './tools/baseline.py',
            'source_commits': hook_commits,
            'add_only': True,
        },
        'engines': [
            {'name': 'engine', 'path': 'engine', 'serves_properties': sorted(CHECKS.keys()),
             'kind_free_text': 'cargo workspace: vcore (proptest-driven byte-string case runner, independent reference models, generators), h_zvariant / h_zbus harness binaries and h_prog (programs generated by tools/gen_prog.py) with path dependencies on /repo'},
        ],
        'checks': checks,
        'not_applicable': na,
        'notes': 'Every check is generated-input search against an explicit oracle (property-based testing); ./check rebuilds the harness against /repo\'s working tree before running. Exit 2 = infrastructure/inconclusive.',
    }
    with open(os.path.join(ROOT, 'MANIFEST.json'), 'w') as f:
        json.dump(m, f, indent=1)
        f.write('\n')
    print(f'{len(checks)} checks, {len(na)} not claimed')

if __name__ == '__main__':
    main()
