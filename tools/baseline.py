#!/usr/bin/env python3
"""Run the repository's pinned suite (hooks OFF) and compare the set of passing tests with
/root/.vp/BASELINE.json stable_pass. Exit 0 iff every stable test still passes."""
import json, re, subprocess, sys, os
base = json.load(open('/root/.vp/BASELINE.json'))
stable = set(base['stable_pass'])
env = dict(os.environ, CARGO_NET_OFFLINE='true')
env.pop('RUSTFLAGS', None)
p = subprocess.run(['cargo', 'nextest', 'run', '--workspace', '--no-fail-fast', '--offline', '--test-threads', '8'],
                   cwd='/repo', env=env, stdout=subprocess.PIPE, stderr=subprocess.STDOUT, text=True)
passed = set()
for line in p.stdout.splitlines():
    m = re.match(r'\s*PASS \[[^\]]*\]\s*(?:\(\s*\d+/\d+\)\s*)?(\S+)\s+(\S+)', line)
    if m:
        passed.add(m.group(1) + '::' + m.group(2))
missing = sorted(stable - passed)
print(f'baseline: {len(stable & passed)}/{len(stable)} stable tests pass; {len(passed)} passed in total')
if missing:
    print('MISSING:', *missing, sep='\n  ')
    print(p.stdout[-3000:])
    sys.exit(1)
