#!/bin/sh
# Optional: compare the reference models with the system's libdbus (see DESIGN.md §11). Not a check.
set -e
ROOT=$(cd "$(dirname "$0")/.." && pwd)
cd "$ROOT/engine"
RUSTFLAGS="--cfg zbus_verif" CARGO_NET_OFFLINE=true cargo build --release --offline -p h_zbus >/dev/null 2>&1
exec ./target/release/h_zbus CALIB
