#!/usr/bin/env python3
"""Rewrite the table of seeded changes at the end of DESIGN.md from seeded/*/meta.json."""
import glob, json, os, re

ROOT = os.path.dirname(os.path.dirname(os.path.abspath(__file__)))
rows = []
notes = json.load(open(os.path.join(ROOT, 'seeded', 'NOTES.json'))) if os.path.exists(os.path.join(ROOT, 'seeded', 'NOTES.json')) else {}
for d in sorted(glob.glob(os.path.join(ROOT, 'seeded', '*'))):
    mp = os.path.join(d, 'meta.json')
    if not os.path.exists(mp):
        continue
    m = json.load(open(mp))
    name = os.path.basename(d)
    summary = m.get('summary') or m.get('breaks', '').replace('\n', ' ')
    summary = re.sub(r'\s+', ' ', summary).strip()
    if len(summary) > 230:
        summary = summary[:227] + '…'
    det = m.get('detected_by', {})
    caught = [c for c, r in det.items() if r.get('violation')]
    missed = [c for c, r in det.items() if not r.get('violation')]
    note = notes.get(name, m.get('note', ''))
    rows.append(f'| {name} | {summary} | {", ".join(caught) or "—"} | {", ".join(missed) or "—"} | {note} |')
table = ['<!-- seeded-table-begin -->', '| change | what it breaks | caught by (quick tier) | run but silent | note |', '|---|---|---|---|---|'] + rows + ['<!-- seeded-table-end -->']
p = os.path.join(ROOT, 'DESIGN.md')
s = open(p).read()
if '<!-- seeded-table-begin -->' in s:
    s = re.sub(r'<!-- seeded-table-begin -->.*<!-- seeded-table-end -->', '\n'.join(table), s, flags=re.S)
else:
    s = s.rstrip('\n') + '\n\n' + '\n'.join(table) + '\n'
open(p, 'w').write(s)
print(f'{len(rows)} seeded changes')
