#!/bin/sh
# Run every registered quick (or $1) check once and summarise: exit status and seconds per property.
# usage: tools/run_all.sh [quick|thorough]    (VERIF_SEED from the environment)
TIER=${1:-quick}
ROOT=$(cd "$(dirname "$0")/.." && pwd)
cd "$ROOT"
for id in $(jq -r '.checks[].property_id' MANIFEST.json); do
  t0=$(date +%s)
  out=$(./check "$id" --tier "$TIER" 2>&1)
  rc=$?
  t1=$(date +%s)
  echo "$id rc=$rc $((t1 - t0))s $(echo "$out" | grep -c '^VIOLATION') violation-lines"
  if [ $rc -ne 0 ]; then echo "$out" | tail -5 | cut -c1-600; fi
done
