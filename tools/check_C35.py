#!/usr/bin/env python3
"""C35: every supported feature combination builds (configurations as generated inputs).

Generated feature subsets per workspace crate (exhaustive for the small crates, pairwise-covering +
seeded random subsets for zvariant and zbus, more of them in the thorough tier) and generated
downstream crates that depend on several workspace crates with different feature selections.
Oracle: `cargo check --offline --locked` exits 0. Shrinking: a failing subset is reduced greedily to a
minimal failing subset, which becomes the replay file.
"""
import hashlib, itertools, json, os, random, shutil, subprocess, sys, time

ROOT = os.path.dirname(os.path.dirname(os.path.abspath(__file__)))
REPO = os.environ.get('VERIF_REPO') or '/repo'
# outputs (evidence, found cases, build directories) go to a scratch directory when the check is run
# against a scratch copy of the repository (VERIF_REPO) or from a snapshot of /verif
OUT = os.environ.get('VERIF_OUT') or ((os.path.abspath(REPO).rstrip('/') + '-verif/out') if os.environ.get('VERIF_REPO') else ROOT)
TARGET = os.path.join(ROOT, 'engine', 'target-feat') if OUT == ROOT else os.path.join(OUT, 'target-feat')
PID = 'C35'

ZVARIANT = ['gvariant', 'option-as-array', 'camino', 'arrayvec', 'enumflags2', 'serde_bytes', 'uuid', 'url', 'time', 'chrono', 'heapless']
# zbus: one of async-io / tokio is required (documented, enforced by compile_error!); vsock needs
# async-io, tokio-vsock needs tokio
ZBUS_OPT = ['uuid', 'url', 'time', 'chrono', 'heapless', 'option-as-array', 'camino', 'bus-impl', 'p2p', 'blocking-api', 'serde_bytes', 'async-fs']
SMALL = {
    'zvariant_utils': [[], ['gvariant']],
    'zvariant_derive': [[], ['gvariant']],
    'zbus_macros': [[], ['blocking-api'], ['gvariant'], ['blocking-api', 'gvariant']],
    'zbus_names': [[]],
    'zbus_xml': [[]],
}


def known():
    out = []
    try:
        for line in open(os.path.join(ROOT, 'known-findings.txt')):
            if line.startswith('open:') and f'property={PID} ' in line:
                toks = dict(t.split('=', 1) for t in line.split() if '=' in t)
                out.append((toks.get('key', ''), toks.get('witness', ''), line.split('witness=')[1].split(' ', 1)[1].strip() if 'witness=' in line else ''))
    except FileNotFoundError:
        pass
    return out


def cargo_check(manifest, feats, no_default=True, extra_env=None):
    cmd = ['cargo', 'check', '--offline', '--manifest-path', manifest, '--target-dir', TARGET, '--quiet']
    # the repository's own lock file must not be touched; a downstream crate gets its own copy
    if manifest.startswith(REPO + '/'):
        cmd.append('--locked')
    if no_default:
        cmd.append('--no-default-features')
    if feats:
        cmd += ['--features', ','.join(feats)]
    env = dict(os.environ, CARGO_NET_OFFLINE='true')
    env.pop('RUSTFLAGS', None)
    p = subprocess.run(cmd, stdout=subprocess.PIPE, stderr=subprocess.STDOUT, text=True, env=env)
    return p.returncode == 0, p.stdout[-3000:]


def cargo_check_workspace(packages, feats):
    """several workspace packages checked together: their features are unified as in a downstream
    build that depends on all of them"""
    cmd = ['cargo', 'check', '--offline', '--locked', '--manifest-path', f'{REPO}/Cargo.toml', '--target-dir', TARGET, '--quiet']
    for p in packages:
        cmd += ['-p', p]
    if feats:
        cmd += ['--features', ','.join(feats)]
    env = dict(os.environ, CARGO_NET_OFFLINE='true')
    env.pop('RUSTFLAGS', None)
    p = subprocess.run(cmd, stdout=subprocess.PIPE, stderr=subprocess.STDOUT, text=True, env=env)
    return p.returncode == 0, p.stdout[-3000:]


# (packages, features): combinations across crates of the workspace
WORKSPACE = [
    (['zbus_xmlgen'], []),
    (['zbus_xmlgen', 'zbus_xml'], []),
    (['zbus_xmlgen', 'zvariant', 'zbus_macros'], ['zvariant/gvariant', 'zbus_macros/gvariant']),
    (['zbus_xml', 'zvariant', 'zbus_macros'], ['zvariant/gvariant', 'zbus_macros/gvariant']),
    (['zbus', 'zvariant', 'zbus_macros'], ['zvariant/gvariant', 'zbus_macros/gvariant']),
    (['zbus_names', 'zvariant'], ['zvariant/gvariant', 'zvariant/option-as-array']),
]


def pairwise(features, rnd):
    """small set of subsets covering every pair of (feature on/off) values"""
    need = set()
    for a, b in itertools.combinations(range(len(features)), 2):
        for va in (0, 1):
            for vb in (0, 1):
                need.add((a, va, b, vb))
    rows = []
    while need:
        best, bestc = None, -1
        for _ in range(40):
            row = [rnd.randint(0, 1) for _ in features]
            c = sum(1 for (a, va, b, vb) in need if row[a] == va and row[b] == vb)
            if c > bestc:
                best, bestc = row, c
        rows.append(best)
        need = {(a, va, b, vb) for (a, va, b, vb) in need if not (best[a] == va and best[b] == vb)}
    return [[f for f, on in zip(features, row) if on] for row in rows]


def zbus_configs(rnd, n_random):
    cfgs = []
    for rt in (['async-io'], ['tokio'], ['async-io', 'tokio']):
        cfgs.append(rt)
    # either vsock feature next to either runtime (the one that does not belong to the chosen
    # runtime is simply unused): every combination builds
    for rt in (['tokio', 'vsock'], ['async-io', 'tokio-vsock'], ['async-io', 'tokio', 'vsock', 'tokio-vsock'], ['async-io', 'vsock'], ['tokio', 'tokio-vsock'],
               ['async-io', 'vsock', 'tokio-vsock'], ['tokio', 'vsock', 'tokio-vsock'], ['async-io', 'tokio', 'vsock'], ['async-io', 'tokio', 'tokio-vsock']):
        cfgs.append(rt)
    for row in pairwise(ZBUS_OPT, rnd)[: max(4, n_random // 2)]:
        cfgs.append(sorted(set(row + [rnd.choice(['async-io', 'tokio'])])))
    for _ in range(n_random):
        k = rnd.randint(1, len(ZBUS_OPT))
        cfgs.append(sorted(set(rnd.sample(ZBUS_OPT, k) + [rnd.choice(['async-io', 'tokio'])])))
    return cfgs


def downstream(tmp, idx, deps):
    d = os.path.join(tmp, f'down{idx}')
    os.makedirs(os.path.join(d, 'src'), exist_ok=True)
    lines = ['[package]', f'name = "down{idx}"', 'version = "0.1.0"', 'edition = "2021"', '', '[dependencies]']
    for crate, feats, nodef in deps:
        f = ', '.join(f'"{x}"' for x in feats)
        lines.append(f'{crate} = {{ path = "{REPO}/{crate}", default-features = {"false" if nodef else "true"}, features = [{f}] }}')
    lines += ['', '[workspace]', '']
    open(os.path.join(d, 'Cargo.toml'), 'w').write('\n'.join(lines))
    uses = '\n'.join(f'    let _ = std::any::type_name::<{c}::{t}>();' for c, t in [('zbus', 'Connection'), ('zvariant', 'Signature'), ('zbus_names', 'BusName<\'static>')] if any(c == x[0] for x in deps))
    open(os.path.join(d, 'src', 'main.rs'), 'w').write('fn main() {\n' + uses + '\n}\n')
    shutil.copy(os.path.join(REPO, 'Cargo.lock'), os.path.join(d, 'Cargo.lock'))
    return os.path.join(d, 'Cargo.toml')


REPO_CRATES = ('zbus', 'zvariant', 'zbus_names', 'zbus_macros', 'zvariant_derive', 'zvariant_utils', 'zbus_xml', 'zbus_xmlgen', 'zbus-lockstep', 'zbus-lockstep-macros')


def infrastructure_failure(out):
    """a failed build that says nothing about the configuration: the generated manifest is gone, or
    the only crates that fail to compile are registry crates (their build output vanished) while no
    crate of the repository and no generated downstream crate is named as failing"""
    import re
    if re.search(r'manifest path `[^`]*` does not exist', out):
        return True
    failing = re.findall(r'could not compile `([^`]+)`', out)
    if failing and not any(f in REPO_CRATES or f.startswith('down') or f.startswith('verif') for f in failing):
        return True
    return False


def main():
    # one run at a time on the shared build directories (a second run waits)
    import fcntl
    os.makedirs(os.path.dirname(TARGET), exist_ok=True)
    _lock = open(TARGET.rstrip('/') + '.lock', 'w')
    fcntl.flock(_lock, fcntl.LOCK_EX)
    globals()['_c35_lock'] = _lock
    tier = os.environ.get('VERIF_TIER', 'quick')
    replay = None
    a = sys.argv[1:]
    i = 0
    while i < len(a):
        if a[i] == '--tier':
            tier = a[i + 1]; i += 1
        elif a[i] == '--replay':
            replay = a[i + 1]; i += 1
        i += 1
    seed = int(os.environ.get('VERIF_SEED', '0') or 0)
    rnd = random.Random(seed * 1000003 + 35)
    t0 = time.time()
    tmp = os.path.join(ROOT, 'engine', 'feat-down') if OUT == ROOT else os.path.join(OUT, 'feat-down')
    shutil.rmtree(tmp, ignore_errors=True)
    os.makedirs(tmp, exist_ok=True)
    quick = tier == 'quick'
    configs = []  # (kind, crate, feats, manifest, no_default)
    if replay:
        r = json.load(open(replay))
        c = r['case']
        if c['kind'] == 'crate':
            configs.append(('crate', c['crate'], c['features'], f'{REPO}/{c["crate"]}/Cargo.toml', True))
        elif c['kind'] == 'workspace':
            configs.append(('workspace', c['crate'], c['features'], c['crate'].split('+'), False))
        else:
            deps = [tuple(x) for x in c['deps']]
            configs.append(('downstream', 'downstream', c['deps'], downstream(tmp, 0, deps), False))
    else:
        for crate, sets in SMALL.items():
            for fs in sets:
                configs.append(('crate', crate, fs, f'{REPO}/{crate}/Cargo.toml', True))
        zv = [[]] + [[f] for f in ZVARIANT] + pairwise(ZVARIANT, rnd)
        zv += [sorted(rnd.sample(ZVARIANT, rnd.randint(2, len(ZVARIANT)))) for _ in range(2 if quick else 120)]
        if quick:
            zv = zv[:1] + rnd.sample(zv[1:12], 3) + zv[12:12 + 4] + zv[-2:]
        zv.append(list(ZVARIANT))
        for fs in zv:
            configs.append(('crate', 'zvariant', fs, f'{REPO}/zvariant/Cargo.toml', True))
        zb = zbus_configs(rnd, 2 if quick else 60)
        if quick:
            zb = zb[:8] + zb[12:12 + 3]
        for fs in zb:
            configs.append(('crate', 'zbus', fs, f'{REPO}/zbus/Cargo.toml', True))
        ws = WORKSPACE if not quick else WORKSPACE[:1] + rnd.sample(WORKSPACE[1:], 2) + [WORKSPACE[2]]
        for pk, fs in ws:
            if not any(c[0] == 'workspace' and c[1] == '+'.join(pk) and c[2] == fs for c in configs):
                configs.append(('workspace', '+'.join(pk), fs, pk, False))
        # downstream crates mixing feature selections of several workspace crates
        nd = 2 if quick else 16
        for k in range(nd):
            zvf = sorted(rnd.sample([f for f in ZVARIANT], rnd.randint(0, 3)))
            if k == 0:
                zvf = ['option-as-array']
            if k == 1:
                zvf = ['gvariant']
            deps = [('zbus', sorted(rnd.sample(['p2p', 'uuid', 'url', 'chrono', 'time', 'serde_bytes'], rnd.randint(0, 2))), False), ('zvariant', zvf, rnd.random() < 0.5), ('zbus_names', [], False)]
            configs.append(('downstream', 'downstream', [list(d) for d in deps], downstream(tmp, k, deps), False))
    kn = known()
    results = []
    violations = []
    infra = []
    excluded = {}
    seen_known = set()
    nontrivial = set()
    for kind, crate, feats, manifest, nodef in configs:
        if kind == 'workspace':
            ok, out = cargo_check_workspace(manifest, feats)
        else:
            ok, out = cargo_check(manifest, feats if kind == 'crate' else [], nodef)
        desc = {'kind': kind, 'crate': crate, 'features': feats} if kind in ('crate', 'workspace') else {'kind': kind, 'deps': feats}
        key = None
        if not ok and infrastructure_failure(out):
            # not a verdict on the configuration: the build tree was disturbed (another run cleaning
            # the shared directories, a registry crate's build output gone, ...)
            infra.append((desc, out))
            results.append((desc, True))
            continue
        if not ok:
            # classify: downstream crate that enables zvariant/gvariant next to zbus
            if kind == 'downstream' and any(d[0] == 'zvariant' and 'gvariant' in d[1] for d in feats) and any(d[0] == 'zbus' for d in feats):
                key = 'downstream-zbus-plus-zvariant-gvariant'
            if key and any(k[0] == key for k in kn):
                excluded[key] = excluded.get(key, 0) + 1
                seen_known.add(key)
            else:
                # shrink a crate feature set greedily
                if kind == 'crate':
                    cur = list(feats)
                    changed = True
                    while changed:
                        changed = False
                        for f in list(cur):
                            t = [x for x in cur if x != f]
                            if crate == 'zbus' and not ({'async-io', 'tokio'} & set(t)):
                                continue
                            ok2, out2 = cargo_check(manifest, t, nodef)
                            if not ok2:
                                cur, out, changed = t, out2, True
                                break
                    desc['features'] = cur
                os.makedirs(os.path.join(OUT, 'found', PID), exist_ok=True)
                h = hashlib.sha1(json.dumps(desc, sort_keys=True).encode()).hexdigest()[:8]
                path = os.path.join(OUT, 'found', PID, f'build-{h}.json')
                json.dump({'property': PID, 'check': 'build', 'seed': seed, 'case': desc, 'key': key, 'message': out[-1500:]}, open(path, 'w'), indent=1)
                violations.append((path, desc, out))
        nfe = len(feats) if kind == 'crate' else sum(len(d[1]) for d in feats)
        if nfe >= 2 or kind == 'downstream':
            nontrivial.add(json.dumps(desc, sort_keys=True))
        results.append((desc, ok))
    # witnesses of known findings
    for key, witness, desc in kn:
        if key in seen_known:
            print(f'KNOWN-FINDING: property={PID} key={key} {desc}')
            continue
        wp = os.path.join(ROOT, witness)
        if os.path.exists(wp):
            c = json.load(open(wp))['case']
            deps = [tuple(x) for x in c['deps']]
            ok, _ = cargo_check(downstream(tmp, 99, deps), [], False)
            if not ok:
                print(f'KNOWN-FINDING: property={PID} key={key} {desc}')
            else:
                print(f'NOTE: witness of known finding key={key} builds now')
    shutil.rmtree(tmp, ignore_errors=True)
    wall = time.time() - t0
    # keep the shared target dir bounded
    try:
        sz = int(subprocess.run(['du', '-sm', TARGET], capture_output=True, text=True).stdout.split()[0])
        if sz > 6000:
            shutil.rmtree(TARGET, ignore_errors=True)
    except Exception:
        pass
    if not replay:
        ev = {
            'property_id': PID, 'tier': tier, 'seed': seed, 'level': 'exploration',
            'coverage': {
                'evaluations': len(results),
                'distinct_nontrivial': len(nontrivial),
                'rule': 'feature subsets per workspace crate: all subsets of the small crates, for zvariant (11 optional features) the empty set, singles, a pairwise-covering family and seeded random subsets, for zbus runtime choices x pairwise-covering and random subsets of 12 optional features (one of async-io/tokio always on, as documented), plus generated downstream crates depending on zbus, zvariant and zbus_names with different feature selections; oracle: cargo check --offline --locked exits 0; non-trivial = at least 2 non-default features or a downstream crate; distinct by the configuration',
                'samples': [r[0] for r in results[:3]] + [r[0] for r in results[-3:]],
                'by_crate': {c: sum(1 for r in results if r[0].get('crate') == c) for c in ['zvariant', 'zbus', 'zbus_macros', 'zvariant_derive', 'zvariant_utils', 'zbus_names', 'zbus_xml', 'downstream']},
                'excluded_known': excluded,
            },
            'assumptions': ['platform-only features (windows, macOS) are not built; vsock / tokio-vsock are built only together with their runtime'],
            'wall_s': round(wall, 1), 'violations': len(violations),
        }
        os.makedirs(os.path.join(OUT, 'evidence'), exist_ok=True)
        json.dump(ev, open(os.path.join(OUT, 'evidence', f'{PID}.json'), 'w'), indent=1)
    print(f'{PID}: tier={tier} seed={seed} configurations={len(results)} nontrivial={len(nontrivial)} excluded_known={excluded} wall={wall:.0f}s')
    if infra and not violations:
        for desc, out in infra[:3]:
            print(f'  configuration {desc}: the build failed for a reason outside the repository:\n' + '\n'.join('    ' + l for l in out.splitlines()[-6:]))
        print(f'INFRA: {len(infra)} configuration(s) could not be judged (build tree disturbed); inconclusive')
        sys.exit(2)
    if violations:
        for path, desc, out in violations:
            print(f'  configuration {desc} does not build:\n' + '\n'.join('    ' + l for l in out.splitlines()[-12:]))
            print(f'VIOLATION property={PID} replay={path}')
        sys.exit(1)
    sys.exit(0)


if __name__ == '__main__':
    main()
