#!/usr/bin/env python3
"""Record which generated programs (tools/gen_prog.py) compile against /repo as it is now:
tools/compiled_programs.json, used by ./check to tell 'this tree rejects definitions it accepted'
from an inconclusive build failure. Run after changing the generator; works in a scratch copy of the
harness workspace (removed afterwards), type-checking only.

  record_compiled.py [first_seed last_seed]      (VERIF_SEED values; default 0 5)
"""
import json, os, shutil, subprocess, sys
ROOT = os.path.dirname(os.path.dirname(os.path.abspath(__file__)))
sys.path.insert(0, ROOT)
lo, hi = (int(sys.argv[1]), int(sys.argv[2])) if len(sys.argv) > 2 else (0, 5)
scratch = '/tmp/verif-compiled'
os.makedirs(scratch, exist_ok=True)
subprocess.run(['rsync', '-a', '--delete', '--exclude', 'target', '--exclude', 'target-*', '--exclude', 'bin', '--exclude', 'feat-down', ROOT + '/engine/', scratch + '/engine/'], check=True)
import hashlib
h = hashlib.sha256()
for f in ('gen_prog.py', 'gen_ifaces.py'):
    h.update(open(os.path.join(ROOT, 'tools', f), 'rb').read())
gen = h.hexdigest()[:16]
ok, bad = [], []
env = dict(os.environ, CARGO_NET_OFFLINE='true', RUSTFLAGS='--cfg zbus_verif')
for seed in range(lo, hi + 1):
    for k in range(6):
        tag = f'prog{seed * 100 + k}'
        out = os.path.join(scratch, 'engine', 'h_prog', 'src', 'generated.rs')
        subprocess.run([sys.executable, os.path.join(ROOT, 'tools', 'gen_prog.py'), '--seed', tag[4:], '--out', out], check=True, stdout=subprocess.DEVNULL)
        p = subprocess.run(['cargo', 'check', '--release', '--offline', '-p', 'h_prog'], cwd=os.path.join(scratch, 'engine'), env=env, stdout=subprocess.PIPE, stderr=subprocess.STDOUT, text=True)
        (ok if p.returncode == 0 else bad).append(tag)
        print(tag, 'ok' if p.returncode == 0 else 'REJECTED\n' + p.stdout[-3000:], flush=True)
head = subprocess.run(['git', '-C', '/repo', 'rev-parse', '--short', 'HEAD'], capture_output=True, text=True).stdout.strip()
path = os.path.join(ROOT, 'tools', 'compiled_programs.json')
old = {}
if os.path.exists(path):
    old = json.load(open(path))
progs = sorted(set(ok) | (set(old.get('programs', [])) if old.get('generator') == gen else set()), key=lambda t: int(t[4:]))
json.dump({'generator': gen, 'recorded_on': head, 'programs': progs}, open(path, 'w'), indent=1)
shutil.rmtree(scratch, ignore_errors=True)
print(f'{len(ok)} compile, {len(bad)} rejected: {bad}')
sys.exit(1 if bad else 0)
