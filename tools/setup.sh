#!/bin/sh
# Build every harness configuration once (offline). ./check rebuilds incrementally afterwards.
set -e
ROOT=$(cd "$(dirname "$0")/.." && pwd)
cd "$ROOT/engine"
export CARGO_NET_OFFLINE=true
(
  export RUSTFLAGS="${RUSTFLAGS:+$RUSTFLAGS }--cfg zbus_verif"
  cargo build --release --offline -p h_zvariant
  cargo build --release --offline -p h_zvariant --features gvariant
  cargo build --release --offline -p h_zvariant --features option-as-array
  cargo build --release --offline -p h_zvariant --features gvariant,option-as-array
  cargo build --release --offline -p h_zbus
  python3 "$ROOT/tools/gen_prog.py" --seed 0 --out "$ROOT/engine/h_prog/src/generated.rs"
  cargo build --release --offline -p h_prog
)
# coverage-guided targets (thorough tier of C03, C04, C12); not fatal when the nightly tool chain is missing
(cd "$ROOT/fuzz/zv" && cargo +nightly fuzz build --fuzz-dir . >/dev/null 2>&1) || echo 'setup: fuzz/zv not built'
(cd "$ROOT/fuzz/zb" && cargo +nightly fuzz build --fuzz-dir . >/dev/null 2>&1) || echo 'setup: fuzz/zb not built'
# warm the feature-matrix target dir (C35) so that its quick tier only pays for the differences
cd "$ROOT"
unset RUSTFLAGS
cargo check --offline --locked --quiet --manifest-path /repo/zbus/Cargo.toml --target-dir engine/target-feat || true
cargo check --offline --locked --quiet --manifest-path /repo/zbus/Cargo.toml --no-default-features --features tokio --target-dir engine/target-feat || true
cargo check --offline --locked --quiet --manifest-path /repo/zvariant/Cargo.toml --all-features --target-dir engine/target-feat 2>/dev/null || true
