#!/bin/sh
# Build every harness configuration once (offline). ./check rebuilds incrementally afterwards.
set -e
cd "$(dirname "$0")/../engine"
export CARGO_NET_OFFLINE=true
export RUSTFLAGS="${RUSTFLAGS:+$RUSTFLAGS }--cfg zbus_verif"
cargo build --release --offline -p h_zvariant
cargo build --release --offline -p h_zvariant --features gvariant
cargo build --release --offline -p h_zvariant --features option-as-array
cargo build --release --offline -p h_zvariant --features gvariant,option-as-array
if [ -d h_zbus ]; then cargo build --release --offline -p h_zbus; fi
