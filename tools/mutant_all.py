#!/usr/bin/env python3
"""Re-evaluate every kept seeded change against the checks as they are now, on top of /repo's
current HEAD: for each /verif/seeded/<PID>-m<k>, the checks already recorded in its meta.json
(default: the property's own). Uses the scratch worktrees given on the command line as a pool
(one evaluation at a time per worktree).

  mutant_all.py /tmp/wt/C33 /tmp/wt/C39 /tmp/wt/C35 [--only C01,C02,...]
"""
import glob, json, os, subprocess, sys, threading, queue
ROOT = os.path.dirname(os.path.dirname(os.path.abspath(__file__)))
args = sys.argv[1:]
only = None
if '--only' in args:
    i = args.index('--only')
    only = set(args[i + 1].split(','))
    del args[i:i + 2]
pool = args
q = queue.Queue()
for d in sorted(glob.glob(os.path.join(ROOT, 'seeded', 'C*-m*'))):
    name = os.path.basename(d)
    pid, k = name.split('-m')
    if only and pid not in only:
        continue
    meta = json.load(open(os.path.join(d, 'meta.json')))
    checks = [c for c in meta.get('detected_by', {})] or [pid]
    q.put((pid, k, checks))
lock = threading.Lock()


def worker(wt):
    while True:
        try:
            pid, k, checks = q.get_nowait()
        except queue.Empty:
            return
        env = dict(os.environ, MUTANT_WT=wt)
        p = subprocess.run([sys.executable, os.path.join(ROOT, 'tools', 'mutant.py'), 'eval', pid, k] + checks, env=env, stdout=subprocess.PIPE, stderr=subprocess.STDOUT, text=True)
        with lock:
            print(p.stdout, flush=True)


ts = [threading.Thread(target=worker, args=(w,)) for w in pool]
[t.start() for t in ts]
[t.join() for t in ts]
