#!/usr/bin/env python3
"""Print the brief given to a fresh sub-agent that is asked for property-breaking changes
(only the property text and a scratch worktree — nothing from /verif)."""
import json, sys

pid = sys.argv[1]
wt = sys.argv[2] if len(sys.argv) > 2 else f'/tmp/wt/{pid}'
first = int(sys.argv[3]) if len(sys.argv) > 3 else 1
p = [json.loads(l) for l in open('/verif/properties.jsonl') if json.loads(l)['id'] == pid][0]
print(f"""You are helping to evaluate a test suite for the Rust D-Bus library zbus (crates zvariant, zvariant_derive, zbus, zbus_names, zbus_macros, zbus_xml ...). You get your own scratch git worktree of the repository at {wt} (detached HEAD). Work ONLY inside {wt} and {wt}-out; never touch /repo or /verif and do not read /verif.

The sandbox has no network: always pass --offline to cargo (e.g. `CARGO_NET_OFFLINE=true cargo test -p zvariant --offline`). Use the worktree's own target directory (the default `{wt}/target`). Builds take a few minutes the first time; 16 cores are shared with other work, so avoid building more than you need (`-p <crate>`). Tests that need a D-Bus session bus fail in this sandbox with or without any change; ignore those.

A semantic property of the library that should always hold:

  Title: {p['title']}
  Statement: {p['statement']}
  Quantified over: {p['quantifier']['text']}

Your task: produce TWO different, independent changes ("mutants") to the library's source code (not to its tests) each of which
  1. breaks this property (makes the library violate the statement for some input / schedule / history),
  2. still compiles, and still passes every existing test of the affected crate(s) that passes without the change (run the crate's tests before and after and compare the list of passing tests; bus-dependent tests fail both times and do not count),
  3. is REALISTIC — the kind of slip a maintainer could make in a refactoring or an optimisation (an off-by-one at a boundary, a check moved after the use, a condition that ignores one case, two sites that each look fine alone) — and
  4. needs something SPECIFIC to manifest: a particular input shape or size, a particular interleaving, a fault at a particular point, a multi-step sequence of operations, or an unusual-but-legal input. Not something any ordinary use of the library would trip over at once, and not a deliberately obfuscated backdoor keyed on a magic constant.
The two mutants should differ in mechanism and location (not two variations of one edit).

For each mutant k in {{{first}, {first + 1}}} write into the directory {wt}-out/m<k>/ :
  * patch.diff — `git diff` of the library change only (it must apply with `git apply` to a clean checkout of the worktree's HEAD),
  * a demonstration: a small Rust test file or program (e.g. demo.rs meant to be dropped into the crate's tests/ directory, or a tiny cargo project with a path dependency) that FAILS with the change and PASSES without it, plus the exact commands to run it in a file RUN.md,
  * notes.md — which property clause it breaks, what it needs in order to manifest, and the before/after test results you observed.
Verify all of it yourself: run the existing tests with and without the change, and run the demonstration with and without the change. When done, leave the worktree CLEAN (`git -C {wt} checkout -- . && git -C {wt} clean -fd -e target`) — the patches in {wt}-out are what counts. Keep your final answer short: for each mutant one paragraph (file/function changed, what it breaks, what triggers it) and whether you verified all four points.""")
