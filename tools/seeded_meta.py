#!/usr/bin/env python3
"""Fill the descriptive fields of seeded/*/meta.json (title, what the change breaks, what it needs in
order to manifest) from the author's notes.md. The confirmation and detection records are left as
they are (they come from tools/mutant.py)."""
import glob, json, os, re

ROOT = os.path.dirname(os.path.dirname(os.path.abspath(__file__)))


def paragraphs(text):
    return [re.sub(r'\s+', ' ', p).strip() for p in re.split(r'\n\s*\n', text) if p.strip()]


def pick(ps, pattern):
    for i, p in enumerate(ps):
        if re.search(pattern, p[:160], re.I):
            t = re.sub(r'^[#*\-\s]+', '', p)
            if len(t) < 70 and i + 1 < len(ps):
                # a heading: the text is the paragraph after it
                t = t + ': ' + re.sub(r'^[#*\-\s]+', '', ps[i + 1])
            return t[:900]
    return None


for d in sorted(glob.glob(os.path.join(ROOT, 'seeded', '*'))):
    mp, np = os.path.join(d, 'meta.json'), os.path.join(d, 'notes.md')
    if not (os.path.exists(mp) and os.path.exists(np)):
        continue
    m = json.load(open(mp))
    ps = paragraphs(open(np).read())
    title = re.sub(r'^#+\s*', '', ps[0]) if ps else ''
    title = re.sub(r'^(C\d+\s*/\s*)?(mutant|m)\s*\d+\s*[—:\-–]*\s*', '', title, flags=re.I).strip()
    m['summary'] = title[:200]
    b = pick(ps[1:], r'clause|what it breaks|breaks|violat|property')
    n = pick(ps[1:], r'trigger|needed to manifest|needs? to manifest|what it needs|manifest|specific')
    c = pick(ps[1:], r'^\W*\**(the )?change')
    if c:
        m['change'] = c
    if b:
        m['breaks'] = b
    if n:
        m['needs_to_manifest'] = n
    json.dump(m, open(mp, 'w'), indent=1)
print('ok')
