//! C12 as a coverage-guided target: hostile message bytes (role-aware mutations of reference-built
//! messages, random bytes) into Message::from_bytes; every accessor of an accepted message is
//! exercised. The oracle is `c_msg::c12_case` itself.
#![no_main]
#![allow(dead_code, unexpected_cfgs)]
#[path = "../../../engine/h_zvariant/src/bridge.rs"]
mod bridge;
#[path = "../../../engine/h_zbus/src/c_msg.rs"]
mod c_msg;

libfuzzer_sys::fuzz_target!(|data: &[u8]| {
    let _ = bridge::fd_table();
    vcore::fuzz::run_case("C12", "hostile", data, &c_msg::c12_case);
});
