//! C22 as a coverage-guided target: rule string round trip. The oracle is `c_match::c22_case` itself.
#![no_main]
#![allow(dead_code, unexpected_cfgs)]
#[path = "../../../engine/h_zbus/src/c_match.rs"]
mod c_match;

libfuzzer_sys::fuzz_target!(|data: &[u8]| {
    vcore::fuzz::run_case("C22", "strings", data, &c_match::c22_case);
});
