//! C21 as a coverage-guided target: match-rule semantics against the specification's. The oracle is `c_match::c21_case` itself.
#![no_main]
#![allow(dead_code, unexpected_cfgs)]
#[path = "../../../engine/h_zbus/src/c_match.rs"]
mod c_match;

libfuzzer_sys::fuzz_target!(|data: &[u8]| {
    vcore::fuzz::run_case("C21", "semantics", data, &c_match::c21_case);
});
