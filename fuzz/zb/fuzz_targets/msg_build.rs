//! C11 as a coverage-guided target: messages built through the builder re-parse identically and pass the independent strict parser. The oracle is `c_msg::c11_case` itself.
#![no_main]
#![allow(dead_code, unexpected_cfgs)]
#[path = "../../../engine/h_zvariant/src/bridge.rs"]
mod bridge;
#[path = "../../../engine/h_zbus/src/c_msg.rs"]
mod c_msg;

libfuzzer_sys::fuzz_target!(|data: &[u8]| {
    let _ = bridge::fd_table();
    vcore::fuzz::run_case("C11", "build", data, &c_msg::c11_case);
});
