//! C23 as a coverage-guided target: address strings and values. The oracles are `c_addr::c23_string_case` and `c_addr::c23_value_case` themselves.
#![no_main]
#![allow(dead_code, unexpected_cfgs)]
#[path = "../../../engine/h_zbus/src/c_addr.rs"]
mod c_addr;

libfuzzer_sys::fuzz_target!(|data: &[u8]| {
    vcore::fuzz::run_case("C23", "strings", data, &c_addr::c23_string_case);
    vcore::fuzz::run_case("C23", "values", data, &c_addr::c23_value_case);
});
