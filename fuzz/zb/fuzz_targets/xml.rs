//! C34 as a coverage-guided target: introspection XML round trip. The oracle is `c_xml::c34_case` itself.
#![no_main]
#![allow(dead_code, unexpected_cfgs)]
#[path = "../../../engine/h_zbus/src/c_xml.rs"]
mod c_xml;

libfuzzer_sys::fuzz_target!(|data: &[u8]| {
    vcore::fuzz::run_case("C34", "xml", data, &c_xml::c34_case);
});
