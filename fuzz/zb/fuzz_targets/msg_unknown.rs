//! C13 as a coverage-guided target: unknown header fields and flag bits are tolerated. The oracle is `c_msg::c13_msg_case` itself.
#![no_main]
#![allow(dead_code, unexpected_cfgs)]
#[path = "../../../engine/h_zvariant/src/bridge.rs"]
mod bridge;
#[path = "../../../engine/h_zbus/src/c_msg.rs"]
mod c_msg;

libfuzzer_sys::fuzz_target!(|data: &[u8]| {
    let _ = bridge::fd_table();
    vcore::fuzz::run_case("C13", "msg", data, &c_msg::c13_msg_case);
});
