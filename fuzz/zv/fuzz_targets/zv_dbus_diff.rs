//! C03 as a coverage-guided target: the D-Bus decoder against the strict reference unmarshaller on
//! role-aware mutations of valid encodings and on random bytes (Ok <=> Accept, equal value, equal
//! consumed length). The oracle is `c_dbus::c03_case` itself.
#![no_main]
#![allow(dead_code, unexpected_cfgs)]
#[path = "../../../engine/h_zvariant/src/bridge.rs"]
mod bridge;
#[path = "../../../engine/h_zvariant/src/c_dbus.rs"]
mod c_dbus;
#[path = "../../../engine/h_zvariant/src/enc.rs"]
mod enc;

libfuzzer_sys::fuzz_target!(|data: &[u8]| {
    let _ = bridge::fd_table();
    vcore::fuzz::run_case("C03", "mut", data, &c_dbus::c03_case);
});
