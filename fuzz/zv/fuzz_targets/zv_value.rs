//! C08 as a coverage-guided target: the laws of Value (equality, ordering, hashing, cloning, conversions). The oracle is `c_value::c08_case` itself.
#![no_main]
#![allow(dead_code, unexpected_cfgs)]
#[path = "../../../engine/h_zvariant/src/bridge.rs"]
mod bridge;
#[path = "../../../engine/h_zvariant/src/c_dbus.rs"]
mod c_dbus;
#[path = "../../../engine/h_zvariant/src/enc.rs"]
mod enc;
#[path = "../../../engine/h_zvariant/src/c_value.rs"]
mod c_value;

libfuzzer_sys::fuzz_target!(|data: &[u8]| {
    let _ = bridge::fd_table();
    vcore::fuzz::run_case("C08", "laws", data, &c_value::c08_case);
});
