//! C01 as a coverage-guided target: zvariant's D-Bus encoding of generated values against the reference marshaller, byte for byte. The oracle is `c_dbus::c01_dyn` itself.
#![no_main]
#![allow(dead_code, unexpected_cfgs)]
#[path = "../../../engine/h_zvariant/src/bridge.rs"]
mod bridge;
#[path = "../../../engine/h_zvariant/src/c_dbus.rs"]
mod c_dbus;
#[path = "../../../engine/h_zvariant/src/enc.rs"]
mod enc;

libfuzzer_sys::fuzz_target!(|data: &[u8]| {
    let _ = bridge::fd_table();
    vcore::fuzz::run_case("C01", "dyn", data, &c_dbus::c01_dyn);
});
