//! C05 as a coverage-guided target: GVariant encoding against the reference GVariant model (open known findings are tolerated by key). The oracle is `c_gv::c05_case` itself.
#![no_main]
#![allow(dead_code, unexpected_cfgs)]
#[path = "../../../engine/h_zvariant/src/bridge.rs"]
mod bridge;
#[path = "../../../engine/h_zvariant/src/c_dbus.rs"]
mod c_dbus;
#[path = "../../../engine/h_zvariant/src/enc.rs"]
mod enc;
#[path = "../../../engine/h_zvariant/src/c_gv.rs"]
mod c_gv;

libfuzzer_sys::fuzz_target!(|data: &[u8]| {
    let _ = bridge::fd_table();
    vcore::fuzz::run_case("C05", "gv", data, &c_gv::c05_case);
});
