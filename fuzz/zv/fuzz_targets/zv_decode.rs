//! C04 as a coverage-guided target: decoding untrusted bytes (mutated reference encodings, random
//! bytes, structured garbage; both formats; 12 decode targets) never panics, never over-allocates,
//! and what it accepts re-encodes without panic. The oracle is `c_crash::c04_case` itself.
#![no_main]
#![allow(dead_code, unexpected_cfgs)]
#[path = "../../../engine/h_zvariant/src/bridge.rs"]
mod bridge;
#[path = "../../../engine/h_zvariant/src/c_crash.rs"]
mod c_crash;
#[path = "../../../engine/h_zvariant/src/c_dbus.rs"]
mod c_dbus;
#[cfg(feature = "gvariant")]
#[path = "../../../engine/h_zvariant/src/c_gv.rs"]
mod c_gv;
#[path = "../../../engine/h_zvariant/src/enc.rs"]
mod enc;

#[global_allocator]
static ALLOC: c_crash::CountingAlloc = c_crash::CountingAlloc;

libfuzzer_sys::fuzz_target!(|data: &[u8]| {
    let _ = bridge::fd_table();
    vcore::fuzz::run_case("C04", "crash", data, &c_crash::c04_case);
});
