//! C02 as a coverage-guided target: encode -> decode returns the original value, in both formats. The oracle is `c_dbus::c02_dyn` itself.
#![no_main]
#![allow(dead_code, unexpected_cfgs)]
#[path = "../../../engine/h_zvariant/src/bridge.rs"]
mod bridge;
#[path = "../../../engine/h_zvariant/src/c_dbus.rs"]
mod c_dbus;
#[path = "../../../engine/h_zvariant/src/enc.rs"]
mod enc;

libfuzzer_sys::fuzz_target!(|data: &[u8]| {
    let _ = bridge::fd_table();
    let f = c_dbus::c02_dyn(zvariant::serialized::Format::DBus);
    vcore::fuzz::run_case("C02", "dyn-dbus", data, &f);
    #[cfg(feature = "gvariant")]
    {
        let g = c_dbus::c02_dyn(zvariant::serialized::Format::GVariant);
        vcore::fuzz::run_case("C02", "dyn-gvariant", data, &g);
    }
});
